"""Formula anchors of C12 (range): `_truncate` / `_fold` of TruncationAndFoldingMixin (returns, comparison directions,
width, modulo step and its thresholds, reflection step), the geometric noise, the Laplace noise and Snapping's scaling /
centred truncation / rounding are re-read from /repo's current AST, translated to Lean terms over ℝ and proved equal to
the terms of lean/DPL/Model/Range.lean (ℝ instance of `RangeOps` from DPL/Proofs/RangeReal.lean); the POST theorems state
that the model's function IS the composition of the generated pieces."""
from . import anchor_locators as L

BAS = "diffprivlib/mechanisms/base.py"
GEO = "diffprivlib/mechanisms/geometric.py"
LAP = "diffprivlib/mechanisms/laplace.py"
SNA = "diffprivlib/mechanisms/snapping.py"
BIN = "diffprivlib/mechanisms/binary.py"


def sp(name, file, func, env, binders, args, hand, tactic="rfl", **kw):
    return dict(name=name, file=file, func=func, env=env, binders=binders, args=args, hand=hand, tactic=tactic, **kw)


def specs():
    fenv = {"self.upper": "hi", "self.lower": "lo", "value": "v", "width": "w"}
    genv = {"self._rng.random()": "u", "self._scale": "sc", "self.epsilon": "e", "self.sensitivity": "s",
            "unif_rv": "c", "sgn": "sg", "value": "(val : ℝ)"}
    lenv = {"unif1": "u1", "unif2": "u2", "unif3": "u3", "unif4": "u4", "self.epsilon": "e", "self.delta": "d",
            "self.sensitivity": "s", "value": "x", "scale": "b", "standard_laplace": "(laplace4 u1 u2 u3 u4)"}
    nenv = {"self.upper": "hi", "self.lower": "lo", "self.sensitivity": "s", "self._bound": "B", "value": "v",
            "lambda_": "lam", "remainder": "r"}
    benv = {"self._rng.random()": "u", "self.epsilon": "e", "self.delta": "d", "unif_rv": "x"}
    TT = "TruncationAndFoldingMixin._truncate"
    TF = "TruncationAndFoldingMixin._fold"
    GR = "Geometric.randomise"
    ST = "Snapping._truncate"
    RN = "Snapping._round_to_nearest_power_of_2"
    return [
        # ---- _truncate: `if value > upper: return upper; if value < lower: return lower; return value`
        sp("truncHiLo", BAS, TT, fenv, "(hi : ℝ)", "hi", "hi", locate=L.test_side(BAS, TT, "if", 0, 0)),
        sp("truncHiHi", BAS, TT, fenv, "(v : ℝ)", "v", "v", locate=L.test_side(BAS, TT, "if", 0, 1)),
        sp("truncLoLo", BAS, TT, fenv, "(v : ℝ)", "v", "v", locate=L.test_side(BAS, TT, "if", 1, 0)),
        sp("truncLoHi", BAS, TT, fenv, "(lo : ℝ)", "lo", "lo", locate=L.test_side(BAS, TT, "if", 1, 1)),
        sp("truncRetHi", BAS, TT, fenv, "(hi : ℝ)", "hi", "hi", pick=dict(return_index=0)),
        sp("truncRetLo", BAS, TT, fenv, "(lo : ℝ)", "lo", "lo", pick=dict(return_index=1)),
        sp("truncRetId", BAS, TT, fenv, "(v : ℝ)", "v", "v", pick=dict(return_index=2)),
        # ---- _fold
        sp("foldSingle", BAS, TF, fenv, "(lo : ℝ)", "lo", "lo", pick=dict(return_index=0)),
        sp("foldWidth", BAS, TF, fenv, "(lo hi : ℝ)", "lo hi", "hi - lo", pick=dict(assign_target="width")),
        sp("foldPreLoV", BAS, TF, fenv, "(v : ℝ)", "v", "v", locate=L.test_side(BAS, TF, "if", 1, 0, part=0)),
        sp("foldPreLo", BAS, TF, fenv, "(lo w : ℝ)", "lo w", "lo - 2 * w", locate=L.test_side(BAS, TF, "if", 1, 1, part=0)),
        sp("foldPreHi", BAS, TF, fenv, "(hi w : ℝ)", "hi w", "hi + 2 * w", locate=L.test_side(BAS, TF, "if", 1, 0, part=1)),
        sp("foldPreHiV", BAS, TF, fenv, "(v : ℝ)", "v", "v", locate=L.test_side(BAS, TF, "if", 1, 1, part=1)),
        sp("foldMod", BAS, TF, fenv, "(lo v w : ℝ)", "lo v w", "lo + RangeOps.fmod (v - lo) (2 * w)",
           "simp only [fmod_real]", pick=dict(assign_target="value", nth=0)),
        sp("foldLoopLoV", BAS, TF, fenv, "(v : ℝ)", "v", "v", locate=L.test_side(BAS, TF, "while", 0, 0, part=0)),
        sp("foldLoopLo", BAS, TF, fenv, "(lo : ℝ)", "lo", "lo", locate=L.test_side(BAS, TF, "while", 0, 1, part=0)),
        sp("foldLoopHi", BAS, TF, fenv, "(hi : ℝ)", "hi", "hi", locate=L.test_side(BAS, TF, "while", 0, 0, part=1)),
        sp("foldLoopHiV", BAS, TF, fenv, "(v : ℝ)", "v", "v", locate=L.test_side(BAS, TF, "while", 0, 1, part=1)),
        sp("foldStepV", BAS, TF, fenv, "(v : ℝ)", "v", "v", locate=L.ifexp_test_side(BAS, TF, "value", 0, 1)),
        sp("foldStepLo", BAS, TF, fenv, "(lo : ℝ)", "lo", "lo", locate=L.ifexp_test_side(BAS, TF, "value", 1, 1)),
        sp("foldReflLo", BAS, TF, fenv, "(lo v : ℝ)", "lo v", "2 * lo - v", locate=L.ifexp_branch(BAS, TF, "value", "body", 1)),
        sp("foldReflHi", BAS, TF, fenv, "(hi v : ℝ)", "hi v", "2 * hi - v",
           locate=L.ifexp_branch(BAS, TF, "value", "orelse", 1)),
        # ---- Geometric
        sp("geomScale", GEO, "Geometric.__init__", genv, "(e s : ℝ)", "e s", "-e / s",
           locate=L.ifexp_branch(GEO, "Geometric.__init__", "self._scale", "body")),
        sp("geomCentre", GEO, GR, genv, "(u : ℝ)", "u", "u - 1 / 2", pick=dict(assign_target="unif_rv", nth=0)),
        sp("geomSpread", GEO, GR, genv, "(c sc : ℝ)", "c sc", "c * (1 + Real.exp sc)",
           locate=L.assign_then_aug(GEO, GR, "unif_rv", keep_name=True)),
        sp("geomTestLo", GEO, GR, genv, "(c : ℝ)", "c", "c", locate=L.ifexp_test_side(GEO, GR, "sgn", 0)),
        sp("geomTestHi", GEO, GR, genv, "", "", "0", locate=L.ifexp_test_side(GEO, GR, "sgn", 1)),
        sp("geomSgnNeg", GEO, GR, genv, "", "", "-1", locate=L.ifexp_branch(GEO, GR, "sgn", "body")),
        sp("geomSgnPos", GEO, GR, genv, "", "", "1", locate=L.ifexp_branch(GEO, GR, "sgn", "orelse")),
        sp("geomReturn", GEO, GR, genv, "(val : ℤ) (sg c sc : ℝ)", "val sg c sc",
           "(val : ℝ) + sg * ((⌊Real.log (sg * c) / sc⌋ : ℤ) : ℝ)", locate=L.strip_int(L.find(GEO, GR, return_index=0))),
        # ---- Laplace
        sp("laplace4", LAP, "Laplace._laplace_sampler", lenv, "(u1 u2 u3 u4 : ℝ)", "u1 u2 u3 u4", "laplace4 u1 u2 u3 u4",
           "simp only [laplace4, transc_log]\nrfl", pick=dict(return_index=0)),
        sp("laplaceScale", LAP, "Laplace.randomise", lenv, "(e d s : ℝ)", "e d s", "laplaceScale e d s",
           "simp only [laplaceScale, transc_log]", pick=dict(assign_target="scale")),
        sp("laplaceNoisy", LAP, "Laplace.randomise", lenv, "(x b u1 u2 u3 u4 : ℝ)", "x b u1 u2 u3 u4",
           "laplaceNoisy x b u1 u2 u3 u4", "simp only [laplaceNoisy]", pick=dict(return_index=0)),
        # ---- Snapping
        sp("snapBound0", SNA, "Snapping._scale_bound", nenv, "(lo hi : ℝ)", "lo hi", "(hi - lo) / 2",
           pick=dict(return_index=0)),
        sp("snapBound1", SNA, "Snapping._scale_bound", nenv, "(s lo hi : ℝ)", "s lo hi", "(hi - lo) / 2 / s",
           pick=dict(return_index=1)),
        sp("snapScaleOffset", SNA, "Snapping._scale_and_offset_value", nenv, "(v s B lo : ℝ)", "v s B lo",
           "snapScaleOffset v s B lo", "simp only [snapScaleOffset]", symbolic=True),
        sp("snapReverse", SNA, "Snapping._reverse_scale_and_offset_value", nenv, "(v B s lo : ℝ)", "v B s lo",
           "snapReverse v B s lo", "simp only [snapReverse]", pick=dict(return_index=0)),
        sp("snapTruncHiLo", SNA, ST, nenv, "(B : ℝ)", "B", "B", locate=L.test_side(SNA, ST, "if", 0, 0)),
        sp("snapTruncHiHi", SNA, ST, nenv, "(v : ℝ)", "v", "v", locate=L.test_side(SNA, ST, "if", 0, 1)),
        sp("snapTruncLoLo", SNA, ST, nenv, "(v : ℝ)", "v", "v", locate=L.test_side(SNA, ST, "if", 1, 0)),
        sp("snapTruncLoHi", SNA, ST, nenv, "(B : ℝ)", "B", "-B", locate=L.test_side(SNA, ST, "if", 1, 1)),
        sp("snapTruncRetHi", SNA, ST, nenv, "(B : ℝ)", "B", "B", pick=dict(return_index=0)),
        sp("snapTruncRetLo", SNA, ST, nenv, "(B : ℝ)", "B", "-B", pick=dict(return_index=1)),
        sp("snapTruncRetId", SNA, ST, nenv, "(v : ℝ)", "v", "v", pick=dict(return_index=2)),
        sp("snapRem", SNA, RN, nenv, "(v lam : ℝ)", "v lam", "RangeOps.fmod v lam", "simp only [fmod_real]",
           pick=dict(assign_target="remainder")),
        sp("snapRndThrLo", SNA, RN, nenv, "(lam : ℝ)", "lam", "lam / 2", locate=L.test_side(SNA, RN, "if", 1, 0)),
        sp("snapRndThrHi", SNA, RN, nenv, "(r : ℝ)", "r", "r", locate=L.test_side(SNA, RN, "if", 1, 1)),
        sp("snapRndUp", SNA, RN, nenv, "(v r lam : ℝ)", "v r lam", "v - r + lam", pick=dict(return_index=1)),
        sp("snapRndTie", SNA, RN, nenv, "(v r : ℝ)", "v r", "v + r", pick=dict(return_index=2)),
        sp("snapRndDown", SNA, RN, nenv, "(v r : ℝ)", "v r", "v - r", pick=dict(return_index=3)),
        # ---- Binary
        sp("binaryUnif", BIN, "Binary.randomise", benv, "(e u : ℝ)", "e u", "u * (Real.exp e + 1)",
           pick=dict(assign_target="unif_rv")),
        sp("binaryFlipLo", BIN, "Binary.randomise", benv, "(e d : ℝ)", "e d", "Real.exp e + d",
           locate=L.test_side(BIN, "Binary.randomise", "if", 0, 0)),
        sp("binaryFlipHi", BIN, "Binary.randomise", benv, "(x : ℝ)", "x", "x",
           locate=L.test_side(BIN, "Binary.randomise", "if", 0, 1)),
    ]


POST = """
/-- `_truncate` as coded (comparisons and returns read from the AST) IS the model's `truncate` -/
theorem truncate_eq (lo hi v : ℝ) :
    truncate lo hi v =
      if gen_truncHiLo hi < gen_truncHiHi v then gen_truncRetHi hi
      else if gen_truncLoLo v < gen_truncLoHi lo then gen_truncRetLo lo else gen_truncRetId v := by
  simp only [truncate, gen_truncHiLo, gen_truncHiHi, gen_truncRetHi, gen_truncLoLo, gen_truncLoHi, gen_truncRetLo,
    gen_truncRetId]
  all_goals rfl

/-- the modulo step of `_fold` as coded (thresholds, width, formula) IS the model's `foldPre` -/
theorem foldPre_eq (lo hi v : ℝ) :
    foldPre lo hi v =
      if decide (gen_foldPreLoV v < gen_foldPreLo lo (gen_foldWidth lo hi)) ||
          decide (gen_foldPreHi hi (gen_foldWidth lo hi) < gen_foldPreHiV v) then
        gen_foldMod lo v (gen_foldWidth lo hi)
      else v := by
  simp only [foldPre, gen_foldPreLoV, gen_foldPreLo, gen_foldPreHi, gen_foldPreHiV, gen_foldWidth, gen_foldMod_eq]
  all_goals rfl

/-- one iteration of the reflection loop of `_fold` as coded IS one step of the model's `foldLoop` -/
theorem foldLoop_step (lo hi v : ℝ) (fuel : ℕ) :
    foldLoop lo hi (fuel + 1) v =
      if decide (gen_foldLoopLoV v < gen_foldLoopLo lo) || decide (gen_foldLoopHi hi < gen_foldLoopHiV v) then
        (foldLoop lo hi fuel
            (if gen_foldStepV v < gen_foldStepLo lo then gen_foldReflLo lo v else gen_foldReflHi hi v)).map
          (fun p => (p.1, p.2 + 1))
      else some (v, 0) := by
  have hv : (if gen_foldStepV v < gen_foldStepLo lo then gen_foldReflLo lo v else gen_foldReflHi hi v)
      = (if v < lo then 2 * lo - v else 2 * hi - v) := rfl
  rw [hv]
  simp only [foldLoop, gen_foldLoopLoV, gen_foldLoopLo, gen_foldLoopHi, gen_foldLoopHiV]
  cases foldLoop lo hi fuel (if v < lo then 2 * lo - v else 2 * hi - v) <;> rfl

/-- `_fold` as coded: the single-point shortcut returns the coded value -/
theorem fold_eq (lo hi v : ℝ) (fuel : ℕ) :
    fold lo hi v fuel = if feq lo hi then some (gen_foldSingle lo, 0) else foldLoop lo hi fuel (foldPre lo hi v) := by
  simp only [fold, gen_foldSingle]

/-- the geometric noise as coded IS the model's `geomNoise` (finite scale), `c` = the centred uniform -/
theorem geomNoise_eq (sc c : ℝ) (val : ℤ) :
    ((val + geomNoise (some sc) c : ℤ) : ℝ) =
      if gen_geomTestLo (gen_geomSpread c sc) < gen_geomTestHi then
        gen_geomReturn val gen_geomSgnNeg (gen_geomSpread c sc) sc
      else gen_geomReturn val gen_geomSgnPos (gen_geomSpread c sc) sc := by
  simp only [geomNoise, gen_geomSpread, gen_geomTestLo, gen_geomTestHi, gen_geomReturn, gen_geomSgnNeg, gen_geomSgnPos,
    transc_exp, transc_log, transc_floor]
  by_cases h : c * (1 + Real.exp sc) < 0
  · simp only [h, ↓reduceIte, neg_one_mul]
    push_cast
    ring
  · simp only [h, ↓reduceIte, one_mul]
    push_cast
    ring

theorem geomScale_eq (e s : ℝ) :
    geomScale e s = if decide (0 < s) && !HasInf.isPosInf e then some (gen_geomScale e s) else none := by
  simp only [geomScale, gen_geomScale]

/-- the centred uniform of `geomDraw` is the coded `rng.random() - 0.5` -/
theorem geomDraw_cons (u : ℝ) (us : List ℝ) :
    geomDraw (u :: us) = if feq (gen_geomCentre u) 0 then geomDraw us else some (gen_geomCentre u, us) := by
  simp only [geomDraw, gen_geomCentre]
  all_goals first | rfl | norm_num

theorem snapBound_eq (s lo hi : ℝ) :
    snapBound lo hi s = if feq s 0 then gen_snapBound0 lo hi else gen_snapBound1 s lo hi := by
  simp only [snapBound, gen_snapBound0, gen_snapBound1]
  all_goals rfl

theorem snapTrunc_eq (B v : ℝ) :
    snapTrunc B v =
      if gen_snapTruncHiLo B < gen_snapTruncHiHi v then gen_snapTruncRetHi B
      else if gen_snapTruncLoLo v < gen_snapTruncLoHi B then gen_snapTruncRetLo B else gen_snapTruncRetId v := by
  simp only [snapTrunc, gen_snapTruncHiLo, gen_snapTruncHiHi, gen_snapTruncRetHi, gen_snapTruncLoLo, gen_snapTruncLoHi,
    gen_snapTruncRetLo, gen_snapTruncRetId]
  all_goals rfl

theorem snapRound_eq (v lam : ℝ) :
    snapRound false v lam =
      if gen_snapRndThrLo lam < gen_snapRndThrHi (gen_snapRem v lam) then gen_snapRndUp v (gen_snapRem v lam) lam
      else if feq (gen_snapRem v lam) (lam / 2) then gen_snapRndTie v (gen_snapRem v lam)
      else gen_snapRndDown v (gen_snapRem v lam) := by
  simp only [snapRound, gen_snapRndThrLo, gen_snapRndThrHi, gen_snapRndUp, gen_snapRndTie, gen_snapRndDown,
    gen_snapRem_eq, Bool.false_eq_true, ↓reduceIte]
  all_goals rfl

theorem binaryFlip_eq (e d u : ℝ) (ind : Bool) :
    binaryFlip e d u ind = if gen_binaryFlipLo e d < gen_binaryFlipHi (gen_binaryUnif e u) then !ind else ind := by
  simp only [binaryFlip, gen_binaryFlipLo, gen_binaryFlipHi, gen_binaryUnif, transc_exp]
  all_goals rfl
"""
