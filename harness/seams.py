"""Seams into the running library that need no change to /repo (DESIGN.md §8).

* ScriptedSystemRandom  — a secrets.SystemRandom subclass whose draws come from a script; accepted unchanged by
  check_random_state(..., secure=True), so it reaches every sampler through the public `random_state=` argument.
* ScriptedRandomState   — an np.random.RandomState subclass for the two mechanisms (Staircase, Bingham) that replace a
  SystemRandom by default_rng().
* Interposer            — wraps DPMechanism subclasses' __init__/randomise in-process: records every mechanism
  invocation (class, parameters, input, rng class) and can force the returned values.
"""
import contextlib
import secrets

from .shim import dp, np


class ScriptExhausted(Exception):
    pass


class ScriptedSystemRandom(secrets.SystemRandom):
    """random() pops from `uniforms`; getrandbits/normalvariate/gammavariate from their own scripts if given."""

    def __new__(cls, *a, **k):
        return super().__new__(cls)

    def __init__(self, uniforms=(), bits=(), normals=(), gammas=(), cycle=False):
        self.u = list(uniforms)
        self.bits = list(bits)
        self.normals = list(normals)
        self.gammas = list(gammas)
        self.cycle = cycle
        self.n_uniform = 0
        self.n_bits = 0
        self.n_normal = 0
        self.n_gamma = 0
        self.log = []

    def random(self):
        if not self.u:
            raise ScriptExhausted("uniform script exhausted")
        i = self.n_uniform
        self.n_uniform += 1
        if self.cycle:
            return self.u[i % len(self.u)]
        if i >= len(self.u):
            raise ScriptExhausted("uniform script exhausted")
        return self.u[i]

    def getrandbits(self, k):
        i = self.n_bits
        self.n_bits += 1
        if i >= len(self.bits):
            raise ScriptExhausted("bits script exhausted")
        v = self.bits[i]
        self.log.append(("getrandbits", k))
        return v & ((1 << k) - 1)

    def normalvariate(self, mu=0.0, sigma=1.0):
        i = self.n_normal
        self.n_normal += 1
        if i >= len(self.normals):
            raise ScriptExhausted("normal script exhausted")
        return mu + sigma * self.normals[i]

    def gammavariate(self, alpha, beta):
        i = self.n_gamma
        self.n_gamma += 1
        if i >= len(self.gammas):
            raise ScriptExhausted("gamma script exhausted")
        self.log.append(("gammavariate", alpha, beta))
        return self.gammas[i] * beta


class ScriptedRandomState(np.random.RandomState):
    """RandomState whose random()/geometric() are scripted (for Staircase, Bingham and seeded paths)."""

    def __init__(self, uniforms=(), geometrics=(), seed=0, normals=(), ints=()):
        super().__init__(seed)
        self.u = list(uniforms)
        self.g = list(geometrics)
        self.normals = list(normals)        # scripted standard_normal() draws (additive: Gaussian's numpy back-end)
        self.ints = list(ints)              # scripted randint() draws (Snapping's numpy back-end)
        self.n_uniform = 0
        self.n_geom = 0
        self.n_normal = 0
        self.n_int = 0
        self.log = []

    def standard_normal(self, size=None):
        n = 1 if size is None else int(np.prod(size))
        if self.n_normal + n > len(self.normals):
            raise ScriptExhausted("normal script exhausted")
        out = self.normals[self.n_normal:self.n_normal + n]
        self.n_normal += n
        self.log.append(("standard_normal", size))
        return out[0] if size is None else np.array(out, dtype=float).reshape(size)

    def randint(self, low, high=None, size=None, dtype=int):
        i = self.n_int
        self.n_int += 1
        self.log.append(("randint", low, high))
        if i >= len(self.ints):
            raise ScriptExhausted("int script exhausted")
        lo, hi = (0, low) if high is None else (low, high)
        return lo + self.ints[i] % (hi - lo)

    def random(self, size=None):
        if size is None:
            i = self.n_uniform
            self.n_uniform += 1
            if i >= len(self.u):
                raise ScriptExhausted("uniform script exhausted")
            return self.u[i]
        n = int(np.prod(size))
        if self.n_uniform + n > len(self.u):
            raise ScriptExhausted("uniform script exhausted")
        out = np.array(self.u[self.n_uniform:self.n_uniform + n], dtype=float).reshape(size)
        self.n_uniform += n
        return out

    def geometric(self, p, size=None):
        i = self.n_geom
        self.n_geom += 1
        self.log.append(("geometric", float(p)))
        if i >= len(self.g):
            raise ScriptExhausted("geometric script exhausted")
        return self.g[i]


def all_mechanism_classes():
    import inspect
    import diffprivlib.mechanisms as M
    out = []
    for name in dir(M):
        c = getattr(M, name)
        if inspect.isclass(c) and issubclass(c, M.DPMechanism) and not inspect.isabstract(c):
            out.append(c)
    return out


PARAM_NAMES = ("epsilon", "delta", "sensitivity", "lower", "upper", "gamma", "monotonic", "function_sensitivity",
               "data_sensitivity", "alpha", "dimension", "value0", "value1")


class Call:
    __slots__ = ("cls", "params", "value", "forced", "rng_class", "obj", "result")

    def __init__(self, cls, params, value, rng_class, obj):
        self.cls = cls
        self.params = params
        self.value = value
        self.rng_class = rng_class
        self.obj = obj
        self.forced = None
        self.result = None

    def as_json(self):
        def c(v):
            if isinstance(v, np.ndarray):
                return v.tolist()
            if isinstance(v, (np.floating, np.integer)):
                return v.item()
            return v
        return {"cls": self.cls, "params": {k: c(v) for k, v in self.params.items()}, "value": c(self.value),
                "rng": self.rng_class}


def _params_of(obj):
    p = {}
    for n in PARAM_NAMES:
        if hasattr(obj, n):
            v = getattr(obj, n)
            if callable(v):
                continue
            p[n] = v
    for n in ("utility", "measure", "candidates"):
        if hasattr(obj, n):
            v = getattr(obj, n)
            if v is not None and not callable(v):
                try:
                    p[n] = list(v)
                except TypeError:
                    p[n] = v
    return p


@contextlib.contextmanager
def interpose(force=None, record_init=False):
    """Within the block every DPMechanism.randomise call is recorded in the yielded list.

    force: None (run the real randomise) or a callable (call: Call, index: int) -> value to return instead of sampling
           (it may return the sentinel `interpose.REAL` to let the real sampler run for that call).
    """
    calls = []
    classes = all_mechanism_classes()
    saved = []
    REAL = interpose.REAL

    import threading
    tl = threading.local()

    def make(cls, orig):
        def randomise(self, value=None, *a, **k):
            if getattr(tl, "depth", 0) > 0:      # super().randomise(...) inside an already recorded call
                return orig(self, value, *a, **k) if not (value is None and not a and not k) else _call0(orig, self)
            tl.depth = 1
            try:
                return outer(self, value, *a, **k)
            finally:
                tl.depth = 0

        def outer(self, value=None, *a, **k):
            rng = getattr(self, "_rng", None)
            c = Call(cls.__name__, _params_of(self), value, type(rng).__module__ + "." + type(rng).__name__, self)
            idx = len(calls)
            calls.append(c)
            if force is not None:
                v = force(c, idx)
                if v is not REAL:
                    # the real randomise validates its arguments first; keep that behaviour observable
                    try:
                        self._check_all(value)
                    except TypeError:
                        # Exponential-type mechanisms take value=None
                        raise
                    c.forced = v
                    c.result = v
                    return v
            if value is None and not a and not k:
                out = _call0(orig, self)
            else:
                out = orig(self, value, *a, **k)
            c.result = out
            return out
        return randomise

    for cls in classes:
        if "randomise" in cls.__dict__:
            orig = cls.__dict__["randomise"]
            saved.append((cls, orig))
            setattr(cls, "randomise", make(cls, orig))
    try:
        yield calls
    finally:
        for cls, orig in saved:
            setattr(cls, "randomise", orig)


interpose.REAL = object()


def _call0(orig, self):
    import inspect
    try:
        n = len([p for p in inspect.signature(orig).parameters.values() if p.default is inspect._empty])
    except (TypeError, ValueError):
        n = 2
    return orig(self) if n <= 1 else orig(self, None)


@contextlib.contextmanager
def fresh_default_accountant():
    """run a block with a brand-new default accountant and restore the previous default afterwards"""
    BA = dp.BudgetAccountant
    old = BA._default
    BA._default = None
    try:
        yield
    finally:
        BA._default = old
