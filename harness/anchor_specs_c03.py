"""Formula anchors of C03 (samplers): the arithmetic of `randomise` of Laplace / Gaussian / Uniform / Staircase / Snapping
is re-read from /repo's current AST, translated to Lean terms over ℝ and proved equal to the terms of
lean/DPL/Model/Samplers.lean (ℝ instances of `Trig` / `Bits` from DPL/Proofs/SamplersReal.lean); the POST theorems state
that the model's sampler IS the composition of the generated pieces."""
from . import anchor_locators as L

LAP = "diffprivlib/mechanisms/laplace.py"
GAU = "diffprivlib/mechanisms/gaussian.py"
UNI = "diffprivlib/mechanisms/uniform.py"
STA = "diffprivlib/mechanisms/staircase.py"
SNA = "diffprivlib/mechanisms/snapping.py"
BAS = "diffprivlib/mechanisms/base.py"


def sp(name, file, func, env, binders, args, hand, tactic="rfl", **kw):
    return dict(name=name, file=file, func=func, env=env, binders=binders, args=args, hand=hand, tactic=tactic, **kw)


def specs():
    lenv = {"unif1": "u1", "unif2": "u2", "unif3": "u3", "unif4": "u4", "self.epsilon": "e", "self.delta": "d",
            "self.sensitivity": "s", "value": "x", "scale": "b", "standard_laplace": "lp"}
    genv = {"_draw0": "n1", "_draw1": "n2", "value": "x", "standard_normal": "g", "self._scale": "sc"}
    uenv = {"_draw0": "u", "self.sensitivity": "s", "self.delta": "d", "value": "x", "unif_rv": "r"}
    senv = {"self.epsilon": "e", "epsilon": "e", "self.gamma": "gm", "self.sensitivity": "s", "value": "x", "sign": "sg",
            "binary_rv": "b", "geometric_rv": "g", "unif_rv": "u2", "_draw0": "k", "self._rng.random()": "u"}
    nenv = {"self.upper": "hi", "self.lower": "lo", "self.sensitivity": "s", "self._bound": "B", "value": "v",
            "lambda_": "lam", "remainder": "r"}
    fenv = {"self.upper": "hi", "self.lower": "lo", "value": "v", "width": "w"}
    SR = "Staircase.randomise"
    RN = "Snapping._round_to_nearest_power_of_2"
    TF = "TruncationAndFoldingMixin._fold"
    return [
        # ---- Laplace
        sp("lap4", LAP, "Laplace._laplace_sampler", lenv, "(u1 u2 u3 u4 : ℝ)", "u1 u2 u3 u4", "Smp.lap4 u1 u2 u3 u4",
           "simp only [Smp.lap4, transc_log, Smp.trig_cos, Smp.trig_pi]", pick=dict(return_index=0)),
        sp("laplaceScale", LAP, "Laplace.randomise", lenv, "(e d s : ℝ)", "e d s", "Smp.laplaceScale e d s",
           "simp only [Smp.laplaceScale, transc_log]", pick=dict(assign_target="scale")),
        sp("laplaceReturn", LAP, "Laplace.randomise", lenv, "(x b lp : ℝ)", "x b lp", "x - b * lp",
           pick=dict(return_index=0)),
        # ---- Gaussian: both branches of the draw (random.Random / numpy RandomState), and the return
        sp("gaussUnit0", GAU, "Gaussian.randomise", genv, "(n1 n2 : ℝ)", "n1 n2", "Smp.gaussUnit n1 n2",
           "simp only [Smp.gaussUnit, transc_sqrt]",
           locate=L.number_draws(L.find(GAU, "Gaussian.randomise", assign_target="standard_normal", nth=0))),
        sp("gaussUnit1", GAU, "Gaussian.randomise", genv, "(n1 n2 : ℝ)", "n1 n2", "Smp.gaussUnit n1 n2",
           "simp only [Smp.gaussUnit, transc_sqrt]",
           locate=L.number_draws(L.find(GAU, "Gaussian.randomise", assign_target="standard_normal", nth=1))),
        sp("gaussReturn", GAU, "Gaussian.randomise", genv, "(x g sc : ℝ)", "x g sc", "x + g * sc",
           pick=dict(return_index=0)),
        # ---- Uniform
        sp("uniformNoise", UNI, "Uniform.randomise", uenv, "(d s u : ℝ)", "d s u", "Smp.uniformNoise d s u",
           "simp only [Smp.uniformNoise]", locate=L.number_draws(L.assign_then_aug(UNI, "Uniform.randomise", "unif_rv"))),
        sp("uniformReturn", UNI, "Uniform.randomise", uenv, "(x r : ℝ)", "x r", "x + r", pick=dict(return_index=0)),
        # ---- Staircase
        sp("stairDefaultGamma", STA, "Staircase._check_gamma", senv, "(e : ℝ)", "e", "Smp.stairDefaultGamma e",
           "simp only [Smp.stairDefaultGamma, transc_exp]", pick=dict(assign_target="gamma")),
        sp("stairGeomP", STA, SR, senv, "(e : ℝ)", "e", "Smp.stairGeomP e", "simp only [Smp.stairGeomP, transc_exp]",
           locate=L.call_arg(STA, SR, "geometric", 0)),
        sp("stairGeomRv", STA, SR, senv, "(k : ℝ)", "k", "k - 1",
           locate=L.number_draws(L.find(STA, SR, assign_target="geometric_rv"))),
        sp("stairSignThr", STA, SR, senv, "", "", "1 / 2", locate=L.ifexp_test_side(STA, SR, "sign", 1)),
        sp("stairSignDraw", STA, SR, senv, "(u : ℝ)", "u", "u", locate=L.ifexp_test_side(STA, SR, "sign", 0)),
        sp("stairSignNeg", STA, SR, senv, "", "", "-1", locate=L.ifexp_branch(STA, SR, "sign", "body")),
        sp("stairSignPos", STA, SR, senv, "", "", "1", locate=L.ifexp_branch(STA, SR, "sign", "orelse")),
        sp("stairBinP", STA, SR, senv, "(e gm : ℝ)", "e gm", "Smp.stairBinP e gm", "simp only [Smp.stairBinP, transc_exp]",
           locate=L.ifexp_test_side(STA, SR, "binary_rv", 1)),
        sp("stairBinDraw", STA, SR, senv, "(u : ℝ)", "u", "u", locate=L.ifexp_test_side(STA, SR, "binary_rv", 0)),
        sp("stairBin0", STA, SR, senv, "", "", "0", locate=L.ifexp_branch(STA, SR, "binary_rv", "body")),
        sp("stairBin1", STA, SR, senv, "", "", "1", locate=L.ifexp_branch(STA, SR, "binary_rv", "orelse")),
        sp("stairReturn", STA, SR, senv, "(x sg b g u2 gm s : ℝ)", "x sg b g u2 gm s",
           "x + sg * ((1 - b) * ((g + gm * u2) * s) + b * ((g + gm + (1 - gm) * u2) * s))", pick=dict(return_index=0)),
        # ---- Snapping: bound, scaling to / from the unit-sensitivity frame, the rounding step
        sp("snapBound0", SNA, "Snapping._scale_bound", nenv, "(lo hi : ℝ)", "lo hi", "(hi - lo) / 2",
           pick=dict(return_index=0)),
        sp("snapBound1", SNA, "Snapping._scale_bound", nenv, "(s lo hi : ℝ)", "s lo hi", "(hi - lo) / 2 / s",
           pick=dict(return_index=1)),
        sp("snapScaleOffset", SNA, "Snapping._scale_and_offset_value", nenv, "(v s B lo : ℝ)", "v s B lo",
           "v / s - B - lo / s", symbolic=True),
        sp("snapReverse", SNA, "Snapping._reverse_scale_and_offset_value", nenv, "(v B s lo : ℝ)", "v B s lo",
           "(v + B) * s + lo", pick=dict(return_index=0)),
        sp("snapRem", SNA, RN, nenv, "(v lam : ℝ)", "v lam", "Smp.pyMod v lam", "simp only [Smp.pyMod, transc_floor]",
           pick=dict(assign_target="remainder")),
        sp("snapRndThrLo", SNA, RN, nenv, "(lam : ℝ)", "lam", "lam / 2", locate=L.test_side(SNA, RN, "if", 1, 0)),
        sp("snapRndThrHi", SNA, RN, nenv, "(r : ℝ)", "r", "r", locate=L.test_side(SNA, RN, "if", 1, 1)),
        sp("snapRndUp", SNA, RN, nenv, "(v r lam : ℝ)", "v r lam", "v - r + lam", pick=dict(return_index=1)),
        sp("snapRndTie", SNA, RN, nenv, "(v r : ℝ)", "v r", "v + r", pick=dict(return_index=2)),
        sp("snapRndDown", SNA, RN, nenv, "(v r : ℝ)", "v r", "v - r", pick=dict(return_index=3)),
        # ---- the reflection and modulo steps of `_fold` (base.py), as used by LaplaceFolded
        sp("foldWidth", BAS, TF, fenv, "(lo hi : ℝ)", "lo hi", "hi - lo", pick=dict(assign_target="width")),
        sp("foldMod", BAS, TF, fenv, "(lo v w : ℝ)", "lo v w", "lo + Smp.pyMod (v - lo) (2 * w)",
           "simp only [Smp.pyMod, transc_floor]", pick=dict(assign_target="value", nth=0)),
        sp("foldReflLo", BAS, TF, fenv, "(lo v : ℝ)", "lo v", "2 * lo - v", locate=L.ifexp_branch(BAS, TF, "value", "body", 1)),
        sp("foldReflHi", BAS, TF, fenv, "(hi v : ℝ)", "hi v", "2 * hi - v",
           locate=L.ifexp_branch(BAS, TF, "value", "orelse", 1)),
    ]


POST = """
/-- `Laplace.randomise` as coded (pieces read from the AST) IS the model's `Smp.laplace` -/
theorem laplace_eq (e d s x u1 u2 u3 u4 : ℝ) :
    Smp.laplace e d s x u1 u2 u3 u4 = gen_laplaceReturn x (gen_laplaceScale e d s) (gen_lap4 u1 u2 u3 u4) := by
  simp only [Smp.laplace, gen_laplaceReturn, gen_laplaceScale_eq, gen_lap4_eq]

theorem gauss_eq (sc x n1 n2 : ℝ) : Smp.gauss sc x n1 n2 = gen_gaussReturn x (gen_gaussUnit0 n1 n2) sc := by
  simp only [Smp.gauss, gen_gaussReturn, gen_gaussUnit0_eq]

theorem uniform_eq (d s x u : ℝ) : Smp.uniform d s x u = gen_uniformReturn x (gen_uniformNoise d s u) := by
  simp only [Smp.uniform, gen_uniformReturn, gen_uniformNoise_eq]

/-- `Staircase.randomise` as coded IS the model's `Smp.staircase` (`g` = the geometric draw minus one) -/
theorem staircase_eq (e gm s x u1 : ℝ) (g : ℕ) (u2 u3 : ℝ) :
    Smp.staircase e gm s x u1 g u2 u3 =
      gen_stairReturn x (if gen_stairSignDraw u1 < gen_stairSignThr then gen_stairSignNeg else gen_stairSignPos)
        (if gen_stairBinDraw u3 < gen_stairBinP e gm then gen_stairBin0 else gen_stairBin1) (g : ℝ) u2 gm s := by
  simp only [Smp.staircase, Smp.stairNoise, gen_stairReturn, gen_stairSignDraw, gen_stairSignThr, gen_stairSignNeg,
    gen_stairSignPos, gen_stairBinDraw, gen_stairBinP_eq, gen_stairBin0, gen_stairBin1]
  all_goals rfl

theorem snapBound_eq (s lo hi : ℝ) :
    Smp.snapBound s lo hi = if Smp.feq s 0 then gen_snapBound0 lo hi else gen_snapBound1 s lo hi := by
  simp only [Smp.snapBound, gen_snapBound0, gen_snapBound1]
  all_goals rfl

/-- `_round_to_nearest_power_of_2` as coded (finite epsilon) IS the model's `Smp.snapRound` -/
theorem snapRound_eq (v lam : ℝ) :
    Smp.snapRound v lam =
      if gen_snapRndThrLo lam < gen_snapRndThrHi (gen_snapRem v lam) then gen_snapRndUp v (gen_snapRem v lam) lam
      else if Smp.feq (gen_snapRem v lam) (lam / 2) then gen_snapRndTie v (gen_snapRem v lam)
      else gen_snapRndDown v (gen_snapRem v lam) := by
  simp only [Smp.snapRound, gen_snapRndThrLo, gen_snapRndThrHi, gen_snapRndUp, gen_snapRndTie, gen_snapRndDown,
    gen_snapRem_eq]
  all_goals rfl

/-- the last step of `Snapping.randomise`: un-scaling as coded, between the two truncations -/
theorem snapPost_eq (e s lo hi noisy : ℝ) :
    Smp.snapPost e s lo hi noisy =
      Smp.truncate lo hi (gen_snapReverse
        (Smp.truncate (-(Smp.snapBound s lo hi)) (Smp.snapBound s lo hi)
          (Smp.snapRound noisy (Smp.Bits.nextPow2 (1 / Smp.snapEffEps e (Smp.snapBound s lo hi)))))
        (Smp.snapBound s lo hi) s lo) := by
  simp only [Smp.snapPost, gen_snapReverse]

/-- the first step of `Snapping.randomise` (sensitivity ≠ 0): scaling as coded, then the centred truncation -/
theorem snapping_clamped (e s lo hi x : ℝ) (bit bits52 : ℕ) (words : List ℕ) (hs : Smp.feq s 0 = false) :
    Smp.snapping e s lo hi x bit bits52 words =
      (Smp.snapUniform bits52 words).map (fun p : ℝ × ℕ => (Smp.snapPost e s lo hi
          (Smp.truncate (-(Smp.snapBound s lo hi)) (Smp.snapBound s lo hi)
              (gen_snapScaleOffset x s (Smp.snapBound s lo hi) lo)
            + 1 / Smp.snapEffEps e (Smp.snapBound s lo hi) * Smp.snapLaplace bit p.1), p.2)) := by
  simp only [Smp.snapping, hs, Bool.false_eq_true, ↓reduceIte, gen_snapScaleOffset]
  cases (Smp.snapUniform bits52 words : Option (ℝ × ℕ)) <;> rfl

/-- one iteration of the reflection loop of `_fold` as coded -/
theorem foldLoop_step (lo hi v : ℝ) (fuel : ℕ) :
    Smp.foldLoop lo hi (fuel + 1) v =
      if v < lo then Smp.foldLoop lo hi fuel (gen_foldReflLo lo v)
      else if hi < v then Smp.foldLoop lo hi fuel (gen_foldReflHi hi v) else v := by
  simp only [Smp.foldLoop, gen_foldReflLo, gen_foldReflHi]

/-- `_fold` as coded: single-point shortcut, the modulo step with the coded width, then the reflections -/
theorem fold_eq (lo hi v : ℝ) (fuel : ℕ) :
    Smp.fold lo hi v fuel =
      if Smp.feq lo hi then lo
      else Smp.foldLoop lo hi fuel
        (if v < lo - 2 * gen_foldWidth lo hi || hi + 2 * gen_foldWidth lo hi < v then gen_foldMod lo v (gen_foldWidth lo hi)
         else v) := by
  simp only [Smp.fold, gen_foldWidth, gen_foldMod_eq]
  all_goals rfl
"""
