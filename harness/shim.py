"""API-drift shims (third-party modules only) + import of the *current* /repo tree.

Every harness entry point does `from harness.shim import dp, np` first.  Nothing in /repo is modified.
See DESIGN.md §8: in this sandbox a plain `import diffprivlib` fails because sklearn/scipy moved on.
"""
import os
import sys
import warnings

REPO = os.environ.get("VERIF_REPO", "/repo")
if REPO not in sys.path:
    sys.path.insert(0, REPO)

import numpy as np  # noqa: E402

# 1. sklearn.tree._tree no longer exports DOUBLE / DTYPE (forest.py imports them)
import sklearn.tree._tree as _skt  # noqa: E402
if not hasattr(_skt, "DOUBLE"):
    _skt.DOUBLE = np.float64
if not hasattr(_skt, "DTYPE"):
    _skt.DTYPE = np.float32

# 2. scipy.optimize.fmin_l_bfgs_b lost `iprint`
import scipy.optimize as _so  # noqa: E402
_orig_lbfgs = _so.fmin_l_bfgs_b
if not getattr(_orig_lbfgs, "_verif_wrapped", False):
    def _lbfgs(*a, **k):
        k.pop("iprint", None)
        return _orig_lbfgs(*a, **k)
    _lbfgs._verif_wrapped = True
    _lbfgs._verif_orig = _orig_lbfgs
    _so.fmin_l_bfgs_b = _lbfgs
    try:
        import scipy.optimize._lbfgsb_py as _lb
        _lb_orig = _lb.fmin_l_bfgs_b
    except Exception:  # pragma: no cover
        pass

# 3. sklearn LogisticRegression lost `multi_class`
import sklearn.linear_model as _sl  # noqa: E402
_LR = _sl.LogisticRegression
if not getattr(_LR.__init__, "_verif_wrapped", False):
    _lr_init = _LR.__init__

    def _init(self, *a, **k):
        k.pop("multi_class", None)
        return _lr_init(self, *a, **k)
    _init._verif_wrapped = True
    import functools
    try:
        _init.__signature__ = __import__("inspect").signature(_lr_init)
    except Exception:  # pragma: no cover
        pass
    _LR.__init__ = _init

if os.environ.get("VERIF_SHIM_PRISTINE_WARNINGS") == "1":
    # C11 worker processes: import the library exactly as a user would, so that the warning filter it installs at
    # import (`warnings.simplefilter('always', PrivacyLeakWarning)`) is what the process runs with.  (The default
    # branch below restores the filter list on leaving `catch_warnings`, i.e. it DROPS the library's filter.)
    import diffprivlib  # noqa: E402,F401

with warnings.catch_warnings():
    warnings.simplefilter("ignore")
    import diffprivlib as dp  # noqa: E402
    import diffprivlib.mechanisms  # noqa: E402,F401
    import diffprivlib.tools  # noqa: E402,F401
    import diffprivlib.models  # noqa: E402,F401
    import diffprivlib.accountant  # noqa: E402,F401
    import diffprivlib.validation  # noqa: E402,F401
    import diffprivlib.utils  # noqa: E402,F401

assert os.path.realpath(dp.__file__).startswith(os.path.realpath(REPO)), (dp.__file__, REPO)
