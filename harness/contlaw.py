"""High-precision (decimal, 60 digits) noise laws of the additive mechanisms, used by the DIRECT checks of C02 and C19.

A law on the real line is a list of *pieces* `(a, b, terms)` — on the open interval (a, b) the density is
`sum(c * exp(r * (y - y0)) for (c, r, y0) in terms)` — plus point masses `atoms = {location: mass}`.
Every law of the Laplace family (plain, truncated, folded, bounded-domain, bounded-noise), the uniform law and the
staircase law has this shape, so masses, moments and the hockey-stick divergence

        H_alpha(P || Q) = sum_atoms max(0, p - alpha q) + integral max(0, p(y) - alpha q(y)) dy

are evaluated in CLOSED FORM piece by piece (no quadrature): on a common sub-interval `p - alpha q` is
`A e^{rho y} + B e^{-rho y}` (one root at most) or a constant.  The Gaussian divergences use a decimal `erfc`
(Balle–Wang expression) and the discrete Gaussian a direct sum.

Nothing here looks at the library: the callers pass the parameters (scale, bound, sigma …) that they MEASURED on the
running implementation.
"""
import decimal
from decimal import Decimal as D

CTX = decimal.getcontext()
CTX.prec = 60
CTX.Emax = decimal.MAX_EMAX
CTX.Emin = decimal.MIN_EMIN
CTX.traps[decimal.Overflow] = True
CTX.traps[decimal.InvalidOperation] = True
CTX.traps[decimal.DivisionByZero] = True

INF = D("Infinity")
NINF = D("-Infinity")
ZERO = D(0)
ONE = D(1)
TWO = D(2)
HALF = D("0.5")


def d(x):
    """exact decimal value of a double / int / Decimal"""
    if isinstance(x, D):
        return x
    if isinstance(x, int):
        return D(x)
    return D(float(x))


def dexp(x):
    if x == NINF:
        return ZERO
    if x < -(10 ** 17):         # below the exponent range of the context (Emin = -10^18 + 1); nothing else is clamped:
        return ZERO             # divergences compare e^{-a} with e^{eps} e^{-b} for a, b ~ 1e10 and need both
    return x.exp()


def _eterm(r, y, y0):
    """exp(r * (y - y0)) with the conventions needed at infinite limits (decaying side only)"""
    if y == INF or y == NINF:
        if r == 0:
            raise ValueError("constant piece on an infinite interval")
        if (r > 0) == (y == INF):
            raise ValueError("density does not decay towards the infinite limit")
        return ZERO
    return dexp(r * (y - y0))


class Law:
    def __init__(self, pieces=(), atoms=None):
        self.pieces = [(a, b, list(t)) for (a, b, t) in pieces if a < b]
        self.atoms = dict(atoms or {})

    # ---- evaluation
    def density(self, y):
        for a, b, terms in self.pieces:
            if a <= y <= b:
                return sum((c * _eterm(r, y, y0) for c, r, y0 in terms), ZERO)
        return ZERO

    def mass(self):
        return self.moment(0, ZERO)

    def moment(self, j, c):
        """E[(Y - c)^j], j in {0, 1, 2}, in closed form"""
        tot = ZERO
        for y, m in self.atoms.items():
            tot += m * ((y - c) ** j if j else ONE)
        for a, b, terms in self.pieces:
            for co, r, y0 in terms:
                tot += co * (_anti(j, r, b, y0, c) - _anti(j, r, a, y0, c))
        return tot

    def breakpoints(self):
        s = set()
        for a, b, _ in self.pieces:
            s.add(a)
            s.add(b)
        return s

    def terms_on(self, lo, hi):
        """the terms valid on (lo, hi), assumed to lie inside one piece (or outside the support).  The piece is found by
        an interior point, so that end points which differ only by the rounding of a 60-digit sum (e.g. `lo + 0` against
        the exact, longer, decimal expansion of the double `lo`) do not matter."""
        if lo == NINF and hi == INF:
            mid = ZERO
        elif lo == NINF:
            mid = hi - 1
        elif hi == INF:
            mid = lo + 1
        else:
            mid = (lo + hi) / 2
        for a, b, terms in self.pieces:
            if a < mid < b:
                return terms
        return []


def _anti(j, r, y, y0, c):
    """antiderivative of (y - c)^j exp(r (y - y0)) at y"""
    if r == 0:
        if y in (INF, NINF):
            raise ValueError("constant piece on an infinite interval")
        return (y - c) ** (j + 1) / (j + 1)
    e = _eterm(r, y, y0)
    if e == 0:
        return ZERO
    u = y - c
    if j == 0:
        return e / r
    if j == 1:
        return e * (u / r - 1 / r ** 2)
    if j == 2:
        return e * (u * u / r - 2 * u / r ** 2 + 2 / r ** 3)
    raise ValueError(j)


# ------------------------------------------------------------------------------------------------ builders

def laplace(x, b):
    """Laplace(x, b): density exp(-|y - x| / b) / (2 b)"""
    c = 1 / (2 * b)
    return Law([(NINF, x, [(c, 1 / b, x)]), (x, INF, [(c, -1 / b, x)])])


def _restrict(law, lo, hi, scale=ONE):
    out = []
    for a, b, terms in law.pieces:
        a2, b2 = max(a, lo), min(b, hi)
        if a2 < b2:
            out.append((a2, b2, [(c * scale, r, y0) for c, r, y0 in terms]))
    return out


def laplace_cdf(x, b, y):
    if y == NINF:
        return ZERO
    if y == INF:
        return ONE
    if y <= x:
        return dexp((y - x) / b) / 2
    return 1 - dexp((x - y) / b) / 2


def laplace_sf(x, b, y):
    """P[Y > y]"""
    if y == NINF:
        return ONE
    if y == INF:
        return ZERO
    if y >= x:
        return dexp((x - y) / b) / 2
    return 1 - dexp((y - x) / b) / 2


def truncated_laplace(x, b, lo, hi):
    """clamp(Laplace(x, b), lo, hi): density inside, atoms at the finite bounds"""
    base = laplace(x, b)
    atoms = {}
    if lo != NINF:
        atoms[lo] = laplace_cdf(x, b, lo)
    if hi != INF:
        atoms[hi] = atoms.get(hi, ZERO) + laplace_sf(x, b, hi)
    return Law(_restrict(base, lo, hi), atoms)


def bounded_domain_laplace(x, b, lo, hi):
    """Laplace(x, b) conditioned on [lo, hi] (x is clamped into the domain first, as the code does)"""
    x = min(max(x, lo), hi)
    norm = 1 - (dexp(-(x - lo) / b) + dexp(-(hi - x) / b)) / 2
    return Law(_restrict(laplace(x, b), lo, hi, 1 / norm))


def bounded_noise_laplace(x, b, bound):
    """x + (Laplace(0, b) conditioned on [-bound, bound])"""
    norm = 1 - dexp(-bound / b)
    return Law(_restrict(laplace(x, b), x - bound, x + bound, 1 / norm))


def uniform(x, w):
    """uniform on (x - w, x + w)"""
    return Law([(x - w, x + w, [(1 / (2 * w), ZERO, x)])])


def fold_point(v, lo, hi):
    """the folding map of TruncationAndFoldingMixin._fold in exact arithmetic"""
    if lo == hi:
        return lo
    if lo == NINF and hi == INF:
        return v
    if hi == INF:
        return v if v >= lo else 2 * lo - v
    if lo == NINF:
        return v if v <= hi else 2 * hi - v
    w = hi - lo
    m = (v - lo) % (2 * w)
    if m < 0:
        m += 2 * w
    if m == 0:
        return lo
    if m == w:
        return hi
    return lo + m if m <= w else lo + 2 * w - m


def folded_laplace(x, b, lo, hi):
    """fold(Laplace(x, b)) onto [lo, hi]: density = sum over all pre-images"""
    c = 1 / (2 * b)
    rho = 1 / b
    if lo == NINF and hi == INF:
        return laplace(x, b)
    if lo == hi:
        return Law([], {lo: ONE})
    if hi == INF or lo == NINF:
        cpt = lo if hi == INF else hi
        xm = 2 * cpt - x                     # density p(y) + p(2c - y) = Laplace(x) + Laplace(2c - x) on the domain
        l1 = laplace(x, b)
        l2 = laplace(xm, b)
        pts = sorted({lo, hi, min(max(x, lo), hi), min(max(xm, lo), hi)})
        pieces = []
        for a, bb in zip(pts, pts[1:]):
            pieces.append((a, bb, l1.terms_on(a, bb) + l2.terms_on(a, bb)))
        return Law(pieces)
    w = hi - lo
    geo = 1 / (1 - dexp(-2 * w * rho))
    xf = fold_point(x, lo, hi)
    pieces = []
    for a, bb in ((lo, xf), (xf, hi)):
        if not a < bb:
            continue
        mid = (a + bb) / 2
        terms = []
        # direct images  y + 2kW : d = y - x, d0 = d mod 2W = y - x - 2kW on this piece
        k = ((mid - x) / (2 * w)).to_integral_value(rounding=decimal.ROUND_FLOOR)
        base = x + 2 * k * w
        terms.append((c * geo, -rho, base))                  # exp(-d0 / b)
        terms.append((c * geo, rho, base + 2 * w))           # exp(-(2W - d0) / b)
        # mirrored images 2 lo - y + 2kW : d = 2 lo - y - x, d0 = d - 2kW
        k2 = ((2 * lo - mid - x) / (2 * w)).to_integral_value(rounding=decimal.ROUND_FLOOR)
        base2 = 2 * lo - x - 2 * k2 * w
        terms.append((c * geo, rho, base2))                  # exp(-d0 / b) = exp((y - base2) / b)
        terms.append((c * geo, -rho, base2 - 2 * w))         # exp(-(2W - d0) / b)
        pieces.append((a, bb, terms))
    return Law(pieces)


# ------------------------------------------------------------------------------------------------ divergences

def _group(terms_p, terms_q, alpha, yr):
    """coefficients of p - alpha q at reference point yr: {rate: coefficient}"""
    co = {}
    for sign, terms in ((ONE, terms_p), (-alpha, terms_q)):
        for c, r, y0 in terms:
            co[r] = co.get(r, ZERO) + sign * c * dexp(r * (yr - y0))
    return co


def _int_two(A, B, rho, yr, s, t):
    """integral over (s, t) of A e^{rho (y - yr)} + B e^{-rho (y - yr)}"""
    def at(y):
        v = ZERO
        if A != 0:
            v += A / rho * _eterm(rho, y, yr)
        if B != 0:
            v -= B / rho * _eterm(-rho, y, yr)
        return v
    return at(t) - at(s)


_SLIVER = D(10) ** -45


def _sub_intervals(P, Q):
    """common refinement of the pieces of P and Q.  Break-points that agree to 45 significant digits are the same point
    computed twice (context precision is 60 digits, the exact expansion of a double can be longer): the sliver between
    them is dropped — it would otherwise look like a region where one law has no density at all."""
    pts = sorted(P.breakpoints() | Q.breakpoints())
    out = []
    for a, b in zip(pts, pts[1:]):
        if not a < b:
            continue
        if a != NINF and b != INF and (b - a) <= _SLIVER * max(abs(a), abs(b)):
            continue
        out.append((a, b))
    return out


def hockey_stick(P, Q, alpha):
    """H_alpha(P || Q) in closed form.  Both laws must use the same exponential rate (or be piecewise constant)."""
    tot = ZERO
    for y in set(P.atoms) | set(Q.atoms):
        v = P.atoms.get(y, ZERO) - alpha * Q.atoms.get(y, ZERO)
        if v > 0:
            tot += v
    for a, b in _sub_intervals(P, Q):
        tp, tq = P.terms_on(a, b), Q.terms_on(a, b)
        if not tp:
            continue
        yr = a if a != NINF else b
        co = _group(tp, tq, alpha, yr)
        rates = sorted(r for r in co if r != 0)
        if not rates:
            g = co.get(ZERO, ZERO)
            if g > 0:
                tot += g * (b - a)
            continue
        if ZERO in co and co[ZERO] != 0:
            raise ValueError("mixed constant/exponential piece")
        rho = max(abs(r) for r in rates)
        if any(abs(r) != rho for r in rates):
            raise ValueError("pieces with different exponential rates")
        A, B = co.get(rho, ZERO), co.get(-rho, ZERO)
        cuts = [a, b]
        if A * B < 0:
            ystar = yr + (-B / A).ln() / (2 * rho)
            if a < ystar < b:
                cuts = [a, ystar, b]
        for s, t in zip(cuts, cuts[1:]):
            v = _int_two(A, B, rho, yr, s, t)
            if v > 0:
                tot += v
    return tot


def sup_log_ratio(P, Q):
    """sup over outputs of log(p / q) (the effective epsilon of the pair); +inf if P puts mass where Q has none"""
    best = NINF
    for y in set(P.atoms) | set(Q.atoms):
        pa, qa = P.atoms.get(y, ZERO), Q.atoms.get(y, ZERO)
        if pa > 0:
            if qa <= 0:
                return INF
            best = max(best, (pa / qa).ln())
    for a, b in _sub_intervals(P, Q):
        tp, tq = P.terms_on(a, b), Q.terms_on(a, b)
        if not tp:
            continue
        if not tq:
            return INF
        # p/q is a Moebius function of e^{2 rho y} on the sub-interval: monotone, so the sup is at an end
        for y, other in ((a, b), (b, a)):
            if y in (INF, NINF):
                # limit ratio: dominated by the decaying-slowest terms; evaluate far out relative to the finite end
                rho = max(abs(r) for _, r, _ in tp)
                y = other + (D(200) / rho if y == INF else -D(200) / rho)
            pv = sum((c * dexp(r * (y - y0)) for c, r, y0 in tp), ZERO)
            qv = sum((c * dexp(r * (y - y0)) for c, r, y0 in tq), ZERO)
            if pv > 0:
                if qv <= 0:
                    return INF
                best = max(best, (pv / qv).ln())
    return best


# ------------------------------------------------------------------------------------------------ Gaussian family

_SQRT_PI = D(3).sqrt()  # placeholder, replaced below


def _pi():
    # Machin-like: pi = 16 atan(1/5) - 4 atan(1/239), computed once at 70 digits
    with decimal.localcontext() as c:
        c.prec = 80

        def atan_inv(n):
            n = D(n)
            x = 1 / n
            s, t, k = x, x, 1
            n2 = n * n
            while abs(t) > D(10) ** -78:
                t = -t / n2
                k += 2
                s += t / k
            return s
        return +(16 * atan_inv(5) - 4 * atan_inv(239))


PI = _pi()
_SQRT_PI = PI.sqrt()
_SQRT2 = TWO.sqrt()


def erfc(x):
    """complementary error function, ~55 significant digits (series for |x| < 3, continued fraction beyond)"""
    x = d(x)
    if x < 0:
        return 2 - erfc(-x)
    if x == 0:
        return ONE
    if x < 3:
        with decimal.localcontext() as c:
            c.prec = 80
            # erf(x) = 2/sqrt(pi) * exp(-x^2) * sum_{n>=0} 2^n x^(2n+1) / (2n+1)!!   (all terms positive)
            x2 = x * x
            term = x
            s = x
            n = 0
            while term > s * D(10) ** -75:
                n += 1
                term = term * 2 * x2 / (2 * n + 1)
                s += term
            r = 1 - 2 / _SQRT_PI * (-x2).exp() * s
        return +r
    if x > 10 ** 7:
        return ZERO
    # Lentz-free backward evaluation of  x + (1/2)/(x + 1/(x + (3/2)/(x + ...)))
    depth = int(D(4000) / (x * x)) + 40
    f = x
    for k in range(depth, 0, -1):
        f = x + (D(k) / 2) / f
    return dexp(-x * x) / _SQRT_PI / f


def norm_cdf(z):
    return erfc(-d(z) / _SQRT2) / 2


def gaussian_hockey_stick(t, sigma, eps):
    """H_{e^eps}(N(0, sigma^2) || N(t, sigma^2)) = Phi(t/2s - eps s/t) - e^eps Phi(-t/2s - eps s/t)  [Balle & Wang]"""
    t, sigma, eps = d(t), d(sigma), d(eps)
    if t == 0:
        return ZERO
    if sigma == 0:
        return ONE
    a = t / (2 * sigma) - eps * sigma / t
    b = -t / (2 * sigma) - eps * sigma / t
    return norm_cdf(a) - dexp(eps) * norm_cdf(b)


def discrete_gaussian_hockey_stick(t, sigma, eps):
    """H_{e^eps}(N_Z(0, sigma^2) || N_Z(t, sigma^2)) for an integer shift t >= 1, by direct summation"""
    sigma, eps = d(sigma), d(eps)
    t = int(t)
    if sigma == 0:
        return ONE
    s2 = sigma * sigma
    q1 = dexp(-1 / (2 * s2))            # e^{-1/(2 s^2)}
    qq = q1 * q1                        # e^{-1/s^2}
    # weights w_k = exp(-k^2 / 2 s^2), k >= 0, by the recurrence w_{k+1} = w_k * q1^(2k+1)
    ws = [ONE]
    ratio = q1
    w = ONE
    tiny = D(10) ** -70
    while True:
        w = w * ratio
        ratio = ratio * qq
        ws.append(w)
        if w < tiny and len(ws) > t + 2:
            break
        if len(ws) > 20_000_000:
            raise ValueError("discrete Gaussian sum too long")
    n = len(ws)
    Z = ws[0] + 2 * sum(ws[1:], ZERO)

    def wt(k):
        k = abs(k)
        return ws[k] if k < n else ZERO
    # p(k) > e^eps p(k - t)  <=>  k < t/2 - eps s^2 / t
    thr = D(t) / 2 - eps * s2 / t
    kmax = int(thr.to_integral_value(rounding=decimal.ROUND_CEILING)) - 1      # largest integer < thr
    ee = dexp(eps)
    tot = ZERO
    k = kmax
    while k > -n - t:
        tot += wt(k) - ee * wt(k - t)
        k -= 1
    return tot / Z


def discrete_gaussian_variance(sigma):
    sigma = d(sigma)
    if sigma == 0:
        return ZERO
    s2 = sigma * sigma
    q1 = dexp(-1 / (2 * s2))
    qq = q1 * q1
    ratio, w, k = q1, ONE, 0
    Z, M2 = ONE, ZERO
    while w > D(10) ** -70:
        w *= ratio
        ratio *= qq
        k += 1
        Z += 2 * w
        M2 += 2 * w * k * k
    return M2 / Z


# ------------------------------------------------------------------------------------------------ staircase

def staircase_law(x, sens, gamma, b, q0, levels=None):
    """the law of x + staircase noise, built from the parameters of the SAMPLER:
    geometric parameter p = 1 - b (P[G = k] = (1 - b) b^k), binary threshold q0 (first sub-step with probability q0),
    sub-step widths gamma*sens and (1-gamma)*sens.  Piecewise constant; truncated after `levels` steps (mass < 1e-70)."""
    x, sens, gamma, b, q0 = d(x), d(sens), d(gamma), d(b), d(q0)
    if levels is None:
        levels = 1 if b == 0 else min(4000, int((D(10) ** -70).ln() / b.ln()) + 2)
    pieces = []
    for k in range(levels):
        pk = (1 - b) * b ** k / 2
        lo0, hi0 = k * sens, (k + gamma) * sens
        lo1, hi1 = hi0, (k + 1) * sens
        if gamma > 0 and q0 > 0:
            h = pk * q0 / (gamma * sens)
            pieces.append((x + lo0, x + hi0, [(h, ZERO, x)]))
            pieces.append((x - hi0, x - lo0, [(h, ZERO, x)]))
        if gamma < 1 and q0 < 1:
            h = pk * (1 - q0) / ((1 - gamma) * sens)
            pieces.append((x + lo1, x + hi1, [(h, ZERO, x)]))
            pieces.append((x - hi1, x - lo1, [(h, ZERO, x)]))
    pieces.sort(key=lambda p: p[0])
    return Law(pieces)
