"""All random choices of a run derive from one SplitMix64 state seeded by VERIF_SEED."""
import math
import struct

MASK = (1 << 64) - 1


class SplitMix64:
    def __init__(self, seed):
        self.s = seed & MASK

    def next(self):
        self.s = (self.s + 0x9E3779B97F4A7C15) & MASK
        z = self.s
        z = ((z ^ (z >> 30)) * 0xBF58476D1CE4E5B9) & MASK
        z = ((z ^ (z >> 27)) * 0x94D049BB133111EB) & MASK
        return z ^ (z >> 31)

    def fork(self, tag):
        h = self.next()
        for ch in str(tag).encode():
            h = ((h ^ ch) * 0x100000001B3) & MASK
        return SplitMix64(h)

    # --- basic draws
    def u01(self):
        """uniform double in [0,1) with 53 bits"""
        return (self.next() >> 11) * (1.0 / (1 << 53))

    def randint(self, lo, hi):
        """inclusive"""
        return lo + self.next() % (hi - lo + 1)

    def choice(self, seq):
        return seq[self.next() % len(seq)]

    def chance(self, p):
        return self.u01() < p

    def uniform(self, a, b):
        return a + (b - a) * self.u01()

    def loguniform(self, a, b):
        return math.exp(self.uniform(math.log(a), math.log(b)))

    def normal(self):
        u1 = 1.0 - self.u01()
        u2 = self.u01()
        return math.sqrt(-2 * math.log(u1)) * math.cos(2 * math.pi * u2)

    def shuffle(self, lst):
        for i in range(len(lst) - 1, 0, -1):
            j = self.next() % (i + 1)
            lst[i], lst[j] = lst[j], lst[i]
        return lst

    def sample(self, seq, k):
        l = list(seq)
        self.shuffle(l)
        return l[:k]

    # --- structured draws used by several properties
    def epsilon(self, lo=1e-4, hi=50.0, inf_p=0.0):
        if inf_p and self.chance(inf_p):
            return float("inf")
        r = self.u01()
        if r < 0.15:
            return self.choice([0.1, 0.25, 0.5, 1.0, 2.0, 3.0, 5.0, 10.0])
        return self.loguniform(lo, hi)

    def delta(self, zero_p=0.4):
        if self.chance(zero_p):
            return 0.0
        r = self.u01()
        if r < 0.3:
            return self.loguniform(1e-12, 1e-3)
        if r < 0.8:
            return self.uniform(1e-3, 0.49)
        return self.uniform(0.5, 0.999)

    def near(self, x, ulps=4):
        """a double within a few ulps of x (both sides)"""
        k = self.randint(-ulps, ulps)
        return offset_ulps(x, k)


def f2b(x):
    """double -> u64 bit pattern (canonical NaN)"""
    x = float(x)
    if x != x:
        return 0x7FF8000000000000
    return struct.unpack("<Q", struct.pack("<d", x))[0]


def b2f(n):
    return struct.unpack("<d", struct.pack("<Q", int(n) & MASK))[0]


def offset_ulps(x, k):
    if k == 0 or x != x or math.isinf(x):
        return x
    for _ in range(abs(k)):
        x = math.nextafter(x, math.inf if k > 0 else -math.inf)
    return x


def ulp_diff(a, b):
    """distance in ulps between two finite doubles (inf if either is non-finite and they differ)"""
    if a == b or (a != a and b != b):
        return 0
    if a != a or b != b or math.isinf(a) or math.isinf(b):
        return float("inf")

    def key(x):
        n = struct.unpack("<q", struct.pack("<d", x))[0]
        return n if n >= 0 else -(n & 0x7FFFFFFFFFFFFFFF)
    return abs(key(a) - key(b))


def rel_close(a, b, rel=1e-9, abs_=0.0):
    if a == b or (a != a and b != b):
        return True
    if a != a or b != b:
        return False
    if math.isinf(a) or math.isinf(b):
        return False
    return abs(a - b) <= abs_ + rel * max(abs(a), abs(b))
