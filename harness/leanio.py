"""Lean side of a check: incremental build, source audit, axiom audit, leanchecker, driver processes."""
import fcntl
import os
import re
import subprocess
import time

VERIF = os.path.dirname(os.path.dirname(os.path.abspath(__file__)))
LEAN = os.path.join(VERIF, "lean")
ALLOWED_AXIOMS = {"propext", "Classical.choice", "Quot.sound"}
FORBIDDEN = re.compile(r"\b(sorry|admit|native_decide|bv_decide|implemented_by)\b|^\s*axiom\s|\bunsafe\s|maxHeartbeats\s+0\b",
                       re.M)


class LeanError(Exception):
    pass


class _Lock:
    """lake is not safe against concurrent invocations in one package directory"""

    def __enter__(self):
        os.makedirs(os.path.join(LEAN, ".lake"), exist_ok=True)
        self.f = open(os.path.join(LEAN, ".lake", "verif.lock"), "w")
        fcntl.flock(self.f, fcntl.LOCK_EX)
        return self

    def __exit__(self, *a):
        fcntl.flock(self.f, fcntl.LOCK_UN)
        self.f.close()


class GenLock:
    """Serialises `regenerate DPL/Generated/*.lean from the sources` + `build them` across concurrent checks (two checks
    looking at DIFFERENT copies of the repository - a seeded-change trial next to a run on /repo - would otherwise be
    able to build each other's generated files).  A different lock file from _Lock, which build() takes itself."""

    def __enter__(self):
        os.makedirs(os.path.join(LEAN, ".lake"), exist_ok=True)
        self.f = open(os.path.join(LEAN, ".lake", "verif-gen.lock"), "w")
        fcntl.flock(self.f, fcntl.LOCK_EX)
        return self

    def __exit__(self, *a):
        fcntl.flock(self.f, fcntl.LOCK_UN)
        self.f.close()


def _run(cmd, timeout, input_=None):
    env = dict(os.environ)
    env.setdefault("LEAN_NUM_THREADS", "8")
    p = subprocess.run(cmd, cwd=LEAN, capture_output=True, text=True, timeout=timeout, input=input_, env=env)
    return p.returncode, p.stdout, p.stderr


def build(targets, timeout=3000):
    """`lake build <targets>`; returns (ok, log)."""
    with _Lock():
        rc, out, err = _run(["lake", "build"] + list(targets), timeout)
    return rc == 0, (out + err)[-6000:]


def strip_comments(src):
    # remove nested block comments and line comments (good enough for the audit: no string literals contain `--`)
    out = []
    depth = 0
    i = 0
    while i < len(src):
        if src.startswith("/-", i):
            depth += 1
            i += 2
        elif src.startswith("-/", i) and depth:
            depth -= 1
            i += 2
        elif depth:
            i += 1
        elif src.startswith("--", i):
            j = src.find("\n", i)
            i = len(src) if j < 0 else j
        else:
            out.append(src[i])
            i += 1
    return "".join(out)


def module_path(mod):
    return os.path.join(LEAN, *mod.split(".")) + ".lean"


def transitive_local_imports(mod, seen=None):
    seen = seen if seen is not None else []
    if mod in seen:
        return seen
    p = module_path(mod)
    if not os.path.exists(p):
        return seen
    seen.append(mod)
    for m in re.findall(r"^import\s+(DPL\.[\w.]+)", open(p).read(), re.M):
        transitive_local_imports(m, seen)
    return seen


def source_audit(mod):
    """grep the property module and everything of ours it imports for forbidden constructs"""
    hits = []
    mods = transitive_local_imports(mod)
    for m in mods:
        src = strip_comments(open(module_path(m)).read())
        for mt in FORBIDDEN.finditer(src):
            hits.append(f"{m}: {mt.group(0).strip()}")
    return mods, hits


def theorems_of(mod):
    """fully qualified names of every `theorem` declared in a property module (it uses plain `namespace X` blocks)"""
    src = strip_comments(open(module_path(mod)).read())
    ns = []
    names = []
    for line in src.splitlines():
        m = re.match(r"\s*namespace\s+([\w.]+)", line)
        if m:
            ns.append(m.group(1))
            continue
        m = re.match(r"\s*end\s+([\w.]+)\s*$", line)
        if m and ns and ns[-1] == m.group(1):
            ns.pop()
            continue
        m = re.match(r"\s*(?:@\[[^\]]*\]\s*)*(?:private\s+|protected\s+)?theorem\s+([\w.'«»]+)", line)
        if m:
            names.append(".".join(ns + [m.group(1)]))
    return names


def axiom_audit(mod, names, timeout=1200):
    """`#print axioms` on every property theorem; returns {name: [axioms]} (missing name => not found)"""
    os.makedirs(os.path.join(LEAN, ".lake", "audit"), exist_ok=True)
    path = os.path.join(LEAN, ".lake", "audit", mod.replace(".", "_") + ".lean")
    with open(path, "w") as f:
        f.write(f"import {mod}\n")
        for n in names:
            f.write(f"#print axioms {n}\n")
    rc, out, err = _run(["lake", "env", "lean", path], timeout)
    txt = out + err
    res = {}
    for m in re.finditer(r"'([^']+)' depends on axioms: \[([^\]]*)\]", txt, re.S):
        res[m.group(1)] = [a.strip() for a in m.group(2).replace("\n", " ").split(",") if a.strip()]
    for m in re.finditer(r"'([^']+)' does not depend on any axioms", txt):
        res[m.group(1)] = []
    return res, (txt[-3000:] if rc != 0 else "")


def leanchecker(mods, timeout=3000):
    rc, out, err = _run(["lake", "env", "leanchecker"] + list(mods), timeout)
    return rc == 0, (out + err)[-3000:]


def lean_stage(mod, tier, extra_build=()):
    """Build + audits for one property module.  Returns a dict describing the obligations."""
    t0 = time.time()
    res = {"module": mod, "built": False, "theorems": [], "axioms": {}, "bad_axioms": {}, "forbidden": [],
           "undischarged": [], "log": "", "leanchecker": None}
    ok, log = build([mod] + list(extra_build))
    res["built"] = ok
    if not ok:
        res["log"] = log
        # which declarations fail?  keep the error lines
        res["undischarged"] = sorted(set(re.findall(r"error: ([^\n]+)", log)))[:20] or ["lake build failed"]
        res["wall_s"] = time.time() - t0
        return res
    mods, hits = source_audit(mod)
    res["modules"] = mods
    res["forbidden"] = hits
    names = theorems_of(mod)
    res["theorems"] = names
    ax, alog = axiom_audit(mod, names)
    res["axioms"] = ax
    for n in names:
        if n not in ax:
            res["undischarged"].append(f"{n}: not found by #print axioms")
        elif not set(ax[n]) <= ALLOWED_AXIOMS:
            res["bad_axioms"][n] = sorted(set(ax[n]) - ALLOWED_AXIOMS)
            res["undischarged"].append(f"{n}: axioms {res['bad_axioms'][n]}")
    if hits:
        res["undischarged"].append("forbidden constructs: " + "; ".join(hits))
    if alog:
        res["log"] = alog
    if tier == "thorough" and ok:
        lc_ok, lc_log = leanchecker([mod])
        res["leanchecker"] = lc_ok
        if not lc_ok:
            res["undischarged"].append("leanchecker rejected " + mod)
            res["log"] += lc_log
    res["wall_s"] = time.time() - t0
    return res


def run_driver(driver, lines, timeout=1800):
    """Pipe `lines` to `lake env lean --run Drivers/<driver>.lean`; returns the list of output lines.

    The drivers import only DPL.Model.* (no Mathlib); the model oleans must have been built (lean_stage does that
    because every property module imports its model)."""
    if not lines:
        return []       # an empty stratum (all generated cases filtered out): nothing to ask the model
    path = os.path.join("Drivers", driver + ".lean")
    data = "\n".join(lines) + "\n"
    rc, out, err = _run(["lake", "env", "lean", "--run", path], timeout, input_=data)
    if rc != 0:
        raise LeanError(f"driver {driver} failed rc={rc}: {(out + err)[-2000:]}")
    outs = out.split("\n")
    if outs and outs[-1] == "":
        outs.pop()
    if len(outs) != len(lines):
        raise LeanError(f"driver {driver}: {len(lines)} lines in, {len(outs)} lines out; tail: {out[-500:]} {err[-500:]}")
    return outs
