"""Formula anchors for the closed forms of C02 / C19 / C17 (DESIGN.md §3.3 item 1).

For every anchor the Python expression is taken from /repo's CURRENT AST (a single assignment / return, or the symbolic
value of a straight-line method body), translated to a Lean term over ℝ, and the generated Lean file proves it equal to
the term the hand-written model computes.  `lake build` of the generated module then re-checks the tie on every run.
"""
import ast
import copy
import os

from . import leanio
from .translate.formulas import Anchors, AnchorError

PRELUDE = """/- GENERATED on every run from /repo's current sources by harness/anchors.py — do not edit. -/
import DPL.Proofs.RealCarrier
{imports}
import Mathlib.Tactic.Ring
import Mathlib.Tactic.FieldSimp
import Mathlib.Tactic.NormNum
import Mathlib.Analysis.SpecialFunctions.Pow.Real
namespace DPL.Gen.{ns}
open DPL {opens}

theorem feq_ne {{a b : ℝ}} (h : a ≠ b) : feq a b = false := by
  unfold feq
  rcases lt_or_gt_of_ne h with h' | h'
  · simp [not_le.mpr h']
  · simp [not_le.mpr h']

"""


class Sub(ast.NodeTransformer):
    def __init__(self, env):
        self.env = env

    def visit_Name(self, node):
        if node.id in self.env:
            return copy.deepcopy(self.env[node.id])
        return node

    def visit_Attribute(self, node):
        key = ast.unparse(node)
        if key in self.env:
            return copy.deepcopy(self.env[key])
        return self.generic_visit(node)


def symbolic_return(fn, which=-1, track_attrs=()):
    """symbolic value of the `which`-th top-level `return` of a method body, executing the straight-line statements
    (assignments, augmented assignments) and skipping guard clauses (`if …: return …` / `if … is None: self.x = …`)"""
    env = {}
    rets = []

    def subst(e):
        return Sub(env).visit(copy.deepcopy(e))
    for st in fn.body:
        if isinstance(st, ast.Assign) and len(st.targets) == 1:
            t = st.targets[0]
            key = t.id if isinstance(t, ast.Name) else (ast.unparse(t) if ast.unparse(t) in track_attrs else None)
            if key is not None:
                env[key] = subst(st.value)
        elif isinstance(st, ast.AugAssign):
            t = st.target
            key = t.id if isinstance(t, ast.Name) else None
            if key is not None and key in env:
                env[key] = ast.BinOp(left=env[key], op=st.op, right=subst(st.value))
        elif isinstance(st, ast.Return) and st.value is not None:
            rets.append(subst(st.value))
    if not rets:
        raise AnchorError(f"{fn.name}: no top-level return")
    return rets[which]


def build(repo, ns, imports, specs, opens="", postlude=""):
    """specs: list of dicts
         name, file, func, pick (dict for Anchors.find) | symbolic (bool), env {python source text: lean var},
         binders "(e d s : ℝ)", args "e d s", hyps ["s ≠ 0"], hand "laplaceScale e d s", tactic (lines)"""
    A = Anchors(repo)
    out = [PRELUDE.format(imports="\n".join(f"import {i}" for i in imports), ns=ns, opens=opens)]
    n = 0
    errors = []
    for sp in specs:
        try:
            if sp.get("locate") is not None:      # custom locator: callable(Anchors) -> ast expression (AnchorError if absent)
                e = sp["locate"](A)
            elif sp.get("symbolic"):
                e = symbolic_return(A.func(sp["file"], sp["func"]), sp.get("which", -1), sp.get("track_attrs", ()))
            else:
                e = A.find(sp["file"], sp["func"], **sp["pick"])
                if sp.get("ifexp") is not None:
                    if not isinstance(e, ast.IfExp):
                        raise AnchorError(f"{sp['name']}: expected a conditional expression")
                    e = e.orelse if sp["ifexp"] == "orelse" else e.body
            term = A.to_lean(e, sp["env"])
        except (AnchorError, KeyError, IndexError, AttributeError, TypeError) as ex:
            errors.append(f"{sp['name']}: {ex}")
            term = None
        hy = " ".join(f"(h{i} : {h})" for i, h in enumerate(sp.get("hyps", [])))
        if term is None:
            # the anchor cannot be located: nothing is emitted for it; it is reported through `errors`
            continue
        out.append(f"/-- `{sp['file'].split('/')[-1]}:{sp['func']}` -/")
        out.append(f"noncomputable def gen_{sp['name']} {sp['binders']} : ℝ := {term}")
        out.append(f"theorem gen_{sp['name']}_eq {sp['binders']} {hy} : gen_{sp['name']} {sp['args']} = {sp['hand']} := by")
        out.append(f"  unfold gen_{sp['name']}")
        for t in sp.get("tactic", "ring").split("\n"):
            out.append("  " + t)
        out.append("")
        n += 1
    if postlude and not errors:
        out.append(postlude)
        n += postlude.count("\ntheorem ")
    out.append(f"end DPL.Gen.{ns}\n")
    path = os.path.join(leanio.LEAN, "DPL", "Generated", f"Formulas{ns}.lean")
    src = "\n".join(out)
    os.makedirs(os.path.dirname(path), exist_ok=True)
    old = open(path).read() if os.path.exists(path) else None
    if old != src:
        with open(path, "w") as f:
            f.write(src)
    return {"build": [f"DPL.Generated.Formulas{ns}"], "obligations": n, "errors": errors}


LAP = "diffprivlib/mechanisms/laplace.py"
GAU = "diffprivlib/mechanisms/gaussian.py"
ENV_EDS = {"self.epsilon": "e", "self.delta": "d", "self.sensitivity": "s"}
ENV_BND = dict(ENV_EDS, **{"self.lower": "l", "self.upper": "u", "value": "v", "self._scale": "b"})
SIMP = "simp only [{defs}, transc_exp, transc_log, transc_sqrt, transc_pow, Real.rpow_two, Real.rpow_natCast, Nat.cast_ofNat, feq_ne h0, Bool.false_eq_true, if_false, ↓reduceIte]"


def c02_specs():
    return [
        dict(name="laplaceScale", file=LAP, func="Laplace.randomise", pick=dict(assign_target="scale"), env=ENV_EDS,
             binders="(e d s : ℝ)", args="e d s", hand="laplaceScale e d s",
             tactic="simp only [laplaceScale, transc_log]"),
        dict(name="boundedNoiseScale", file=LAP, func="LaplaceBoundedNoise.randomise", pick=dict(assign_target="self._scale"),
             env=ENV_EDS, binders="(e s : ℝ)", args="e s", hand="boundedNoiseScale e s",
             tactic="simp only [boundedNoiseScale]"),
        dict(name="boundedNoiseBound", file=LAP, func="LaplaceBoundedNoise.randomise",
             pick=dict(assign_target="self._noise_bound", nth=0), ifexp="orelse",
             env=dict(ENV_EDS, **{"self._scale": "(s / e)"}), binders="(e d s : ℝ)", args="e d s", hyps=["s / e ≠ 0"],
             hand="boundedNoiseBound e d s",
             tactic="simp only [boundedNoiseBound, boundedNoiseScale, transc_exp, transc_log, feq_ne h0, Bool.false_eq_true, if_false]"),
        dict(name="uniformHalfWidth", file="diffprivlib/mechanisms/uniform.py", func="Uniform.randomise",
             pick=dict(aug_target="unif_rv"), env=ENV_EDS, binders="(d s : ℝ)", args="d s", hand="uniformHalfWidth d s",
             tactic="simp only [uniformHalfWidth]"),
        dict(name="gaussSigma", file=GAU, func="Gaussian.__init__", pick=dict(assign_target="self._scale"), env=ENV_EDS,
             binders="(e d s : ℝ)", args="e d s", hand="gaussSigma e d s",
             tactic="simp only [gaussSigma, c125, transc_sqrt, transc_log]\nnorm_num"),
        dict(name="snapEffEps", file="diffprivlib/mechanisms/snapping.py", func="Snapping.effective_epsilon",
             pick=dict(return_index=0), env={"self.epsilon": "e", "self._bound": "B", "machine_epsilon": "eta"},
             binders="(eta e B : ℝ)", args="eta e B", hand="snapEffEps eta e B",
             tactic="simp only [snapEffEps]\nnorm_num"),
        dict(name="staircaseGeomP", file="diffprivlib/mechanisms/staircase.py", func="Staircase.randomise",
             pick=dict(call_kw=None, assign_target="geometric_rv"), env={"self.epsilon": "e"},
             binders="(e : ℝ)", args="e", hand="staircaseGeomP e", tactic="skip", disabled=True),
        dict(name="bdDeltaC", file=LAP, func="LaplaceBoundedDomain._find_scale", pick=dict(return_index=2),
             env={"delta_q": "q", "diam": "D", "shape": "b"}, binders="(q D b : ℝ)", args="q D b", hyps=["b ≠ 0"],
             hand="bdDeltaC q D b",
             tactic="simp only [bdDeltaC, transc_exp, feq_ne h0, Bool.false_eq_true, if_false]"),
        dict(name="bdF", file=LAP, func="LaplaceBoundedDomain._find_scale", pick=dict(return_index=3),
             env={"delta_q": "q", "eps": "e", "delta": "d", "_delta_c(shape)": "(bdDeltaC q D b)"},
             binders="(e d q D b : ℝ)", args="e d q D b", hand="bdF e d q D b",
             tactic="simp only [bdF, transc_log]"),
    ]


FINISH = "all_goals first | rfl | ring | (norm_num; done) | (norm_num; ring)"


def c19_specs():
    h0 = "have h0' : feq (laplaceScale e d s) 0 = false := feq_ne h0"
    return [
        # the scale the SAMPLER computes (Laplace.randomise), pinned here too: `laplaceVariance` below then says that
        # variance() is 2 * (that very scale)^2 — both re-read from the current AST and proved against one hand model
        dict(name="laplaceSamplerScale", file=LAP, func="Laplace.randomise", pick=dict(assign_target="scale"), env=ENV_EDS,
             binders="(e d s : ℝ)", args="e d s", hand="laplaceScale e d s",
             tactic="simp only [laplaceScale, transc_log]"),
        dict(name="laplaceVariance", file=LAP, func="Laplace.variance", pick=dict(return_index=0), env=ENV_EDS,
             binders="(e d s : ℝ)", args="e d s", hand="laplaceVariance e d s",
             tactic="simp only [laplaceVariance, Cont.sq, transc_log, transc_pow, Real.rpow_two]\n" + FINISH),
        dict(name="truncBias", file=LAP, func="LaplaceTruncated.bias", symbolic=True, env=ENV_BND,
             binders="(e d s l u v : ℝ)", args="e d s l u v", hyps=["laplaceScale e d s ≠ 0"],
             hand="truncBias e d s l u v",
             tactic=h0 + "\nsimp only [truncBias, truncBiasOf, h0', Bool.false_eq_true, if_false]\n"
                    "simp only [laplaceScale, transc_exp, transc_log]\n" + FINISH),
        dict(name="truncVariance", file=LAP, func="LaplaceTruncated.variance", symbolic=True,
             env=dict(ENV_BND, **{"self.bias(value)": "(truncBias e d s l u v)"}),
             binders="(e d s l u v : ℝ)", args="e d s l u v", hyps=["laplaceScale e d s ≠ 0"],
             hand="truncVariance e d s l u v",
             tactic=h0 + "\nsimp only [truncVariance, truncVarianceOf, truncBias, h0', Bool.false_eq_true, if_false]\n"
                    "simp only [Cont.sq, laplaceScale, transc_exp, transc_log, transc_pow, Real.rpow_two]\n" + FINISH),
        dict(name="foldBias", file=LAP, func="LaplaceFolded.bias", symbolic=True, env=ENV_BND,
             binders="(e d s l u v : ℝ)", args="e d s l u v", hand="foldBiasOf (laplaceScale e d s) l u v",
             tactic="simp only [foldBiasOf, laplaceScale, transc_exp, transc_log]\n" + FINISH),
        dict(name="bdBias", file=LAP, func="LaplaceBoundedDomain.bias", symbolic=True, env=ENV_BND,
             binders="(b l u v : ℝ)", args="b l u v", hyps=["b ≠ 0"], hand="bdBiasOf b l u v",
             tactic="simp only [bdBiasOf, feq_ne h0, Bool.false_eq_true, if_false, transc_exp]\n" + FINISH),
        dict(name="bdVariance", file=LAP, func="LaplaceBoundedDomain.variance", symbolic=True,
             env=dict(ENV_BND, **{"self.bias(value)": "(bdBiasOf b l u v)"}),
             binders="(b l u v : ℝ)", args="b l u v", hyps=["b ≠ 0"], hand="bdVarianceOf b l u v",
             tactic="simp only [bdVarianceOf, Cont.sq, feq_ne h0, Bool.false_eq_true, if_false, transc_exp, transc_pow, "
                    "Real.rpow_two]\n" + FINISH),
        dict(name="geomVariance", file="diffprivlib/mechanisms/geometric.py", func="Geometric.variance", symbolic=True,
             env={"self._scale": "sc"}, binders="(sc : ℝ)", args="sc", hand="geomVarianceOf sc",
             tactic="simp only [geomVarianceOf, transc_exp, transc_pow, Real.rpow_two, Nat.cast_ofNat]\n"
                    "rw [show ((3 : ℝ)) = ((3 : ℕ) : ℝ) by norm_num, Real.rpow_natCast]\n" + FINISH),
        dict(name="uniformVariance", file="diffprivlib/mechanisms/uniform.py", func="Uniform.variance",
             pick=dict(return_index=0), env=ENV_EDS, binders="(d s : ℝ)", args="d s", hand="uniformVariance d s",
             tactic="simp only [uniformVariance, Cont.sq, transc_pow, Real.rpow_two]\n" + FINISH),
        dict(name="gaussVariance", file=GAU, func="Gaussian.variance", pick=dict(return_index=0),
             env={"self._scale": "sg"}, binders="(sg : ℝ)", args="sg", hand="gaussVarianceOf sg",
             tactic="simp only [gaussVarianceOf, Cont.sq, transc_pow, Real.rpow_two]\n" + FINISH),
    ]


def c17_specs():
    VEC = "diffprivlib/mechanisms/vector.py"
    env = {"self.epsilon": "e", "self.function_sensitivity": "c", "self.data_sensitivity": "s", "self.alpha": "a",
           "self.n": "(n : ℝ)"}
    return [
        dict(name="epsilonP", file=VEC, func="Vector.randomise", pick=dict(assign_target="epsilon_p", nth=0), env=env,
             binders="(e c s a : ℝ)", args="e c s a", hand="e - 2 * Real.log (1 + c * s / a)", tactic="rfl"),
        dict(name="deltaFallback", file=VEC, func="Vector.randomise", pick=dict(assign_target="delta", nth=1), env=env,
             binders="(e c s a : ℝ) (n : ℕ)", args="e c s a n", hand="(c * s / expm1 (e / 4) - a) / (n : ℝ)",
             tactic="simp only [expm1, transc_exp]"),
        dict(name="epsilonPFallback", file=VEC, func="Vector.randomise", pick=dict(assign_target="epsilon_p", nth=1),
             env=env, binders="(e : ℝ)", args="e", hand="e / 2", tactic="rfl"),
        dict(name="scale", file=VEC, func="Vector.randomise", pick=dict(assign_target="scale"),
             env=dict(env, **{"epsilon_p": "ep"}), binders="(s ep : ℝ)", args="s ep", hand="s * 2 / ep", tactic="rfl"),
    ]


C17_POST = """
/-- the first part of `Vector.randomise` as coded (read from the AST) IS the model's `vectorCalib` -/
theorem vectorCalib_eq (e c s a : ℝ) (n : ℕ) :
    vectorCalib e c s a n =
      if gen_epsilonP e c s a ≤ 0 then
        ⟨gen_epsilonPFallback e, gen_deltaFallback e c s a n, gen_scale s (gen_epsilonPFallback e)⟩
      else ⟨gen_epsilonP e c s a, 0, gen_scale s (gen_epsilonP e c s a)⟩ := by
  simp only [vectorCalib, gen_epsilonP, gen_epsilonPFallback, gen_deltaFallback, gen_scale, transc_log, transc_exp, expm1]
  all_goals first | rfl | (split_ifs <;> rfl) | (split_ifs <;> simp)
"""


def c07_specs():
    TU = "diffprivlib/tools/utils.py"
    env = {"upper": "u", "lower": "l", "array.size": "(n : ℝ)", "epsilon": "ε", "dummy.size": "(m : ℝ)"}
    B = "(l u : ℝ) (n : ℕ)"
    A_ = "l u n"

    def kw(name, func, callee, k, hand, binders=B, args=A_, tactic="all_goals first | rfl | ring | (norm_num; ring)"):
        return dict(name=name, file=TU, func=func, pick=dict(call_kw=(callee, k)), env=env, binders=binders, args=args,
                    hand=hand, tactic=tactic)
    return [
        kw("meanSens", "_mean", "LaplaceTruncated", "sensitivity", "(u - l) / (n : ℝ)"),
        kw("meanLower", "_mean", "LaplaceTruncated", "lower", "l", "(l : ℝ)", "l"),
        kw("meanUpper", "_mean", "LaplaceTruncated", "upper", "u", "(u : ℝ)", "u"),
        kw("varSens", "_var", "LaplaceBoundedDomain", "sensitivity", "Tools.varSens n l u",
           tactic="simp only [Tools.varSens]\nall_goals first | rfl | ring | (norm_num; ring)"),
        kw("varLower", "_var", "LaplaceBoundedDomain", "lower", "0", "", ""),
        kw("varUpper", "_var", "LaplaceBoundedDomain", "upper", "((u - l) * (u - l)) / 4", "(l u : ℝ)", "l u"),
        kw("sumSens", "_sum", "mech", "sensitivity", "u - l", "(l u : ℝ)", "l u"),
        kw("sumLower", "_sum", "mech", "lower", "l * (n : ℝ)", "(l : ℝ) (n : ℕ)", "l n"),
        kw("sumUpper", "_sum", "mech", "upper", "u * (n : ℝ)", "(u : ℝ) (n : ℕ)", "u n"),
        kw("cellEps", "_wrap_axis", "func", "epsilon", "ε / (m : ℝ)", "(ε : ℝ) (m : ℕ)", "ε m"),
    ]


C07_POST = """
/-- the mechanism configured by `_mean` / `_var` / `_sum` as coded (read from the AST) IS the call of the model's plan -/
theorem meanPlan_call (n : ℕ) (ε l u : ℝ) :
    Tools.meanPlan n ε l u = Tools.single ⟨"LaplaceTruncated", ε, 0, gen_meanSens l u n, gen_meanLower l, gen_meanUpper u, .osCsprng⟩
      (fun D => Tools.mean (D.map (Tools.clip l u))) := by
  simp only [Tools.meanPlan, gen_meanSens, gen_meanLower, gen_meanUpper]

theorem varPlan_call (n : ℕ) (ε l u : ℝ) :
    Tools.varPlan n ε l u = Tools.single ⟨"LaplaceBoundedDomain", ε, 0, gen_varSens l u n, gen_varLower, gen_varUpper l u, .osCsprng⟩
      (fun D => Tools.var (D.map (Tools.clip l u))) := by
  rw [gen_varSens_eq, gen_varUpper_eq, gen_varLower_eq]
  rfl

theorem sumPlan_call (n : ℕ) (ε l u : ℝ) :
    Tools.sumPlan n ε l u = Tools.single ⟨"LaplaceTruncated", ε, 0, gen_sumSens l u, gen_sumLower l n, gen_sumUpper u n, .osCsprng⟩
      (fun D => Tools.sum (D.map (Tools.clip l u))) := by
  simp only [Tools.sumPlan, gen_sumSens, gen_sumLower, gen_sumUpper]
"""


def c08_specs():
    NB = "diffprivlib/models/naive_bayes.py"
    LR = "diffprivlib/models/linear_regression.py"
    KM = "diffprivlib/models/k_means.py"
    fin = "all_goals first | rfl | ring | (norm_num; ring) | (push_cast; ring)"
    mx = ("simp only [PM.sumSens, PM.pmax, PM.pabs]\n"
          "split_ifs <;> simp_all only [max_def, abs_of_neg, abs_of_nonneg, not_lt, not_le] <;> "
          "first | rfl | (split_ifs <;> first | rfl | linarith) | linarith")
    return [
        dict(name="gnbLocalEps", file=NB, func="GaussianNB._update_mean_variance", pick=dict(assign_target="local_epsilon"),
             env={"self.epsilon": "ε", "n_features": "(d : ℝ)"}, binders="(ε : ℝ) (d : ℕ)", args="ε d",
             hand="ε / PM.nat 3 / (d : ℝ)", tactic="simp only [PM.nat]\n" + fin),
        dict(name="gnbCountEps", file=NB, func="GaussianNB._noisy_class_counts", pick=dict(call_kw=("GeometricTruncated", "epsilon")),
             env={"self.epsilon": "ε"}, binders="(ε : ℝ)", args="ε", hand="ε / 3", tactic=fin),
        dict(name="gnbSumSens", file=NB, func="GaussianNB._update_mean_variance",
             pick=dict(call_kw=("LaplaceTruncated", "sensitivity")),
             env={"lower": "lo", "upper": "hi", "local_diameter": "(hi - lo)"}, binders="(lo hi : ℝ)", args="lo hi",
             hand="PM.sumSens lo hi", tactic=mx),
        dict(name="kmSumSens", file=KM, func="KMeans._update_centers", pick=dict(call_kw=("LaplaceBoundedDomain", "sensitivity")),
             env={"self.bounds[0][i]": "lo", "self.bounds[1][i]": "hi"}, binders="(lo hi : ℝ)", args="lo hi",
             hand="PM.sumSens lo hi", tactic=mx),
        dict(name="linLocalEps", file=LR, func="_construct_regression_obj", pick=dict(assign_target="local_epsilon"),
             env={"epsilon": "ε", "n_targets": "(t : ℝ)", "n_features": "(d : ℝ)"}, binders="(ε : ℝ) (t d : ℕ)", args="ε t d",
             hand="ε / ((t : ℝ) + (t : ℝ) * (d : ℝ) + (d : ℝ) * ((d : ℝ) + 1) / 2)", tactic=fin),
    ]
