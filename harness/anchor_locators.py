"""Locators for formula anchors that are not a whole assignment / return (used through the `locate=` key of a spec of
harness/anchors.build): each is a callable `Anchors -> ast expression` that raises AnchorError when the statement it
looks for no longer has the expected SHAPE (the anchor is then `unavailable`, DESIGN.md §11.5) — a changed FORMULA inside
an unchanged shape is returned as it is and fails its generated obligation at `lake build`.
"""
import ast
import copy

from .translate.formulas import AnchorError, dotted


def _walk_sorted(fn, pred):
    hits = [n for n in ast.walk(fn) if pred(n)]
    hits.sort(key=lambda n: (n.lineno, n.col_offset))
    return hits


def _nth(hits, nth, what):
    if nth >= len(hits):
        raise AnchorError(f"{what}[{nth}] not found ({len(hits)} candidates)")
    return hits[nth]


def assign_node(A, rel, qual, target, nth=0):
    fn = A.func(rel, qual)
    return _nth(_walk_sorted(fn, lambda n: isinstance(n, ast.Assign) and any(ast.unparse(t) == target for t in n.targets)),
                nth, f"{qual}: {target} =")


def norm_lt(cmp):
    """a single comparison `a < b` / `b > a` as the pair (a, b) of the strict inequality `a < b` it states"""
    if not isinstance(cmp, ast.Compare) or len(cmp.ops) != 1:
        raise AnchorError(f"`{ast.unparse(cmp)}`: expected one strict comparison")
    if isinstance(cmp.ops[0], ast.Lt):
        return cmp.left, cmp.comparators[0]
    if isinstance(cmp.ops[0], ast.Gt):
        return cmp.comparators[0], cmp.left
    raise AnchorError(f"`{ast.unparse(cmp)}`: expected a strict comparison")


def norm_le(cmp):
    """`a <= b` / `b >= a` as (a, b)"""
    if not isinstance(cmp, ast.Compare) or len(cmp.ops) != 1:
        raise AnchorError(f"`{ast.unparse(cmp)}`: expected one comparison")
    if isinstance(cmp.ops[0], ast.LtE):
        return cmp.left, cmp.comparators[0]
    if isinstance(cmp.ops[0], ast.GtE):
        return cmp.comparators[0], cmp.left
    raise AnchorError(f"`{ast.unparse(cmp)}`: expected `<=` / `>=`")


def _tests(fn, kind):
    """tests of the `if` statements (kind 'if'), `while` statements ('while') or conditional expressions ('ifexp') of a
    function, in source order"""
    cls = {"if": ast.If, "while": ast.While, "ifexp": ast.IfExp}[kind]
    return [n.test for n in _walk_sorted(fn, lambda n: isinstance(n, cls))]


def test_side(rel, qual, kind, nth, side, part=None, le=False):
    """side 0/1 = smaller/larger side of the nth test of that kind (`a < b`, `b > a` → (a, b)); `part` selects the k-th
    operand when the test is an `or` / `and`"""
    def loc(A):
        t = _nth(_tests(A.func(rel, qual), kind), nth, f"{qual}: {kind} test")
        if part is not None:
            if not isinstance(t, ast.BoolOp) or part >= len(t.values):
                raise AnchorError(f"{qual}: `{ast.unparse(t)}`: expected a boolean combination")
            t = t.values[part]
        return (norm_le if le else norm_lt)(t)[side]
    return loc


def ifexp_branch(rel, qual, target, branch, nth=0):
    """body / orelse of `target = a if c else b` (nth such assignment)"""
    def loc(A):
        v = assign_node(A, rel, qual, target, nth).value
        if not isinstance(v, ast.IfExp):
            raise AnchorError(f"{qual}: {target}: expected a conditional expression")
        return v.body if branch == "body" else v.orelse
    return loc


def ifexp_test_side(rel, qual, target, side, nth=0):
    def loc(A):
        v = assign_node(A, rel, qual, target, nth).value
        if not isinstance(v, ast.IfExp):
            raise AnchorError(f"{qual}: {target}: expected a conditional expression")
        return norm_lt(v.test)[side]
    return loc


def assign_then_aug(rel, qual, target, keep_name=False):
    """`t = a; …; t op= b` as the expression `(a) op (b)` (the operator comes from the code); with keep_name the first
    operand stays the name `t`"""
    def loc(A):
        fn = A.func(rel, qual)
        first = assign_node(A, rel, qual, target, 0).value
        augs = _walk_sorted(fn, lambda n: isinstance(n, ast.AugAssign) and ast.unparse(n.target) == target)
        if len(augs) != 1:
            raise AnchorError(f"{qual}: expected exactly one `{target} op= …` ({len(augs)})")
        left = ast.Name(id=target, ctx=ast.Load()) if keep_name else copy.deepcopy(first)
        return ast.BinOp(left=left, op=augs[0].op, right=copy.deepcopy(augs[0].value))
    return loc


def call_arg(rel, qual, callee, arg=0, nth=0, within=None):
    """positional argument `arg` of the nth call of `callee` (last component of the dotted name, or the full dotted
    name); `within` = 'return' restricts the search to return statements"""
    def loc(A):
        fn = A.func(rel, qual)
        roots = [fn] if within is None else [n for n in ast.walk(fn) if isinstance(n, ast.Return) and n.value is not None]
        hits = []
        for r in roots:
            hits += [n for n in ast.walk(r) if isinstance(n, ast.Call) and
                     ((dotted(n.func) or "") == callee or (dotted(n.func) or "").split(".")[-1] == callee)]
        hits.sort(key=lambda n: (n.lineno, n.col_offset))
        c = _nth(hits, nth, f"{qual}: call of {callee}")
        if arg >= len(c.args):
            raise AnchorError(f"{qual}: {callee}: argument {arg} missing")
        return c.args[arg]
    return loc


class _Draws(ast.NodeTransformer):
    """successive calls `self._rng.<method>(…)` → names _draw0, _draw1, … (each call is a fresh random draw)"""
    def __init__(self):
        self.k = 0

    def visit_Call(self, node):
        d = dotted(node.func) or ""
        if d.startswith("self._rng."):
            nm = ast.Name(id=f"_draw{self.k}", ctx=ast.Load())
            self.k += 1
            return nm
        return self.generic_visit(node)


def number_draws(inner):
    """wrap a locator (or a dict of Anchors.find keywords with `file`, `func`): the k-th rng call of the located
    expression, in evaluation (left-to-right) order, becomes the name `_draw<k>`"""
    def loc(A):
        e = inner(A) if callable(inner) else A.find(inner["file"], inner["func"], **inner["pick"])
        return _Draws().visit(copy.deepcopy(e))
    return loc


class _StripInt(ast.NodeTransformer):
    def visit_Call(self, node):
        node = self.generic_visit(node)
        if dotted(node.func) == "int" and len(node.args) == 1 and not node.keywords:
            return node.args[0]
        return node


def strip_int(inner):
    """`int(x)` → `x` inside the located expression (for arguments that are integer-valued already: `int(value)` on an
    integer input, `int(np.floor(…))`)"""
    def loc(A):
        return _StripInt().visit(copy.deepcopy(inner(A)))
    return loc


def find(rel, qual, **pick):
    def loc(A):
        return A.find(rel, qual, **pick)
    return loc
