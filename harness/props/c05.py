"""C05 — the accountant's total is the Kairouz–Oh–Viswanath composition expression (DESIGN.md §6 C05).

Correspondence: the implementation's public pure function `BudgetAccountant().total(spent_budget=…, slack=…)` against
the Lean model's `totalCore` run on IEEE doubles by the driver (`totalcore` command).
Direct check on the implementation: against an independent 60-digit evaluation of the KOV formula, permutation
invariance, monotonicity under an extra spend, exact basic composition at zero slack.
"""
import math
import warnings
from decimal import Decimal, localcontext
from fractions import Fraction

from ..shim import dp, np
from .. import gen, leanio
from ..gen import f2b, b2f

PROPERTY = "C05"
LEAN_MODULE = "DPL.Properties.C05"
TRUSTED = [
    "modelled, not verified: CPython/numpy float arithmetic = IEEE binary64 = Lean `Float` (+,-,*,/,sqrt bit-exact; "
    "exp/log to 1e-12 relative); `list.sort()` on floats = ascending insertion sort; `epsilon ** 2` = `epsilon * epsilon`",
    "cited, not proved: that the Kairouz-Oh-Viswanath expression is a valid (eps, delta) composition bound "
    "(KOV 2017, Thm 3.5) — the theorems show the code computes that expression",
    "only the arithmetic of total() (`totalCore`) and its validation wrapper (`totalGiven`) are modelled; the "
    "type checks of check_epsilon_delta on non-numeric arguments are C13's business",
]
UNPROVED = [
    "floating-point rounding of total() (|total - KOV| <= 1e-9 relative, total >= KOV(1-1e-12), permutation "
    "invariance to 1e-12, monotonicity in doubles) is checked on every run against 60-digit decimal/fractions, not proved; "
    "the theorems are over the reals",
]
RULE = ("(a) operation sequences on ONE long-lived accountant (spends, slack moved up and down, check, remaining, repeated "
        "no-argument total() calls, total() immediately before and after a slack change with no spend in between): after "
        "every operation the live total()/len/spent_budget are compared with the KOV reference of the accountant's own "
        "(spent_budget, slack), with the pure function on the same state (bit-identical) and with the Lean model; "
        "(a') the pure forms total(spent_budget=, slack=s), total(slack=s), total(spent_budget=) queried on accountants with a "
        "non-zero slack and spends of their OWN, s in {0, 0.0, tiny, own slack, other}: the reference is KOV(the spends "
        "actually meant, the slack actually passed); "
        "(a'') stateful sequences with a harness-side ledger: accepted spends, spend attempts that must be refused (negative "
        "eps, delta outside [0,1], both zero, NaN, below the minimum spend, wrong type, over budget), mutation of the list that "
        "was passed to the constructor (append/clear/item assignment/del/extend/re-use for a second accountant that then "
        "spends); after EVERY step total() = KOV(ctor-given spends + successful spend() calls, slack) to 1e-9 and >= KOV(1-1e-12), "
        "total never decreases, len = number of accepted spends, and the Lean model (C04: refused => unchanged) agrees; "
        "(a3) numeric types: spends, slack and delta ceiling given as np.float32/float16/float64/longdouble/int/np.int64/"
        "np.int32 (quantised first, so the 60-digit reference is computed from the same real numbers), through both entry "
        "points (total(spent_budget=, slack=) and constructor+spend() then total()), in the regimes where narrow accumulation "
        "shows (one large spend then many small ones, many equal spends, small deltas): both within 1e-9 of KOV, >= KOV(1-1e-12), "
        "and agreeing with each other and with the Lean model on the quantised doubles; "
        "(b) (spends, slack) pairs generated from the seed: 0..200 spends, eps log-uniform in [1e-12,1e3] in several styles "
        "(homogeneous small, mixed, wide, tiny, large, boundary values, eps=0 with delta>0), delta in [0,1] incl. 0, tiny, 1, "
        "slack in [0,1] incl. 0, denormal, tiny, near 1 and 1; each is evaluated by the real total(spent_budget=, slack=) "
        "and by the Lean model on doubles; non-trivial when slack > 0 and there are >= 2 spends (the advanced-composition "
        "branches are live); distinct by (n, slack bits, bits of the spends)")

SIG_CANCEL = "C05:eps-vs-kov:cancellation-slack-near-1"
PREC = 60
_ACC = None


def acc():
    global _ACC
    if _ACC is None:
        _ACC = dp.BudgetAccountant(delta=1.0)      # epsilon ceiling inf, delta ceiling 1: every slack in [0,1] allowed
    return _ACC


def impl_total(spends, slack):
    with warnings.catch_warnings():
        warnings.simplefilter("ignore")
        with np.errstate(all="ignore"):
            t = acc().total(spent_budget=[tuple(s) for s in spends], slack=slack)
    return float(t[0]), float(t[1])


# ---------------------------------------------------------------- independent reference (the KOV formula, 60 digits)

def kov_ref(spends, slack):
    """(eps, delta, branch) of the KOV bound; eps as Decimal (60 digits), delta as exact Fraction"""
    prod = 1 - Fraction(float(slack))
    for _, d in spends:
        prod *= 1 - Fraction(float(d))
    delta = 1 - prod
    with localcontext() as c:
        c.prec = PREC
        c.Emax = 999999999
        c.Emin = -999999999
        D = Decimal
        es = [D(float(e)) for e, _ in spends]
        naive = sum(es, D(0))
        if slack == 0:
            return naive, delta, "naive"
        expsum = D(0)
        sq = D(0)
        for e in es:
            ex = (-e).exp()
            expsum += (1 - ex) * e / (1 + ex)
            sq += e * e
        s = D(float(slack))
        drv = expsum + (2 * sq * (1 / s).ln()).sqrt()
        kov = expsum + (2 * sq * (D(1).exp() + sq.sqrt() / s).ln()).sqrt()
        m = min(naive, drv, kov)
        branch = "naive" if m == naive else ("drv" if m == drv else "kov")
        return m, delta, branch


def float_total_eps(spends, slack, careful):
    """the same formulas in doubles; `careful` avoids the two cancellations (1-exp(-e), log(1/slack))"""
    S = E = Q = 0.0
    for e, _ in spends:
        e = float(e)
        S += e
        ex = float(np.exp(-e))                       # the library's own exp, so that `faithful` is bit-faithful
        om = -math.expm1(-e) if careful else 1 - ex
        E += om * e / (1 + ex)
        Q += e ** 2
    if slack == 0:
        return S
    with np.errstate(all="ignore"):
        L = -math.log(slack) if careful else float(np.log(1 / slack))
        drv = E + float(np.sqrt(2 * Q * L))
        kov = E + float(np.sqrt(2 * Q * np.log(np.exp(1) + np.sqrt(Q) / slack)))
    return min(S, drv, kov)


def rel_err(x, ref):
    """(x - ref)/ref as float, exact arithmetic inside; ref Decimal or Fraction; 0 when both are 0"""
    if isinstance(ref, Fraction):
        fx = Fraction(x)
        if ref == 0:
            return 0.0 if fx == 0 else math.inf
        q = (fx - ref) / ref
        try:
            return float(q)
        except OverflowError:                       # a grossly wrong total against a denormal reference
            return math.inf if q > 0 else -math.inf
    with localcontext() as c:
        c.prec = PREC
        if ref == 0:
            return 0.0 if x == 0 else math.inf
        return float((Decimal(x) - ref) / ref)


# ---------------------------------------------------------------- generator

def gen_eps(r, style, base):
    if style == "homog":
        return base
    if style == "homog-jitter":
        return base * r.uniform(0.5, 1.5)
    if style == "mixed":
        return r.loguniform(1e-3, 10.0)
    if style == "wide":
        return r.loguniform(1e-12, 1e3)
    if style == "tiny":
        return r.loguniform(1e-12, 1e-6)
    if style == "large":
        return r.loguniform(1.0, 1e3)
    return r.choice([1e-12, 1e3, 1.0, 0.1, 0.5, 1e-6, 2.0])     # "boundary"


def gen_delta(r):
    m = r.u01()
    if m < 0.45:
        return 0.0
    if m < 0.6:
        return r.loguniform(1e-18, 1e-6)
    if m < 0.75:
        return r.loguniform(1e-6, 1e-2)
    if m < 0.93:
        return r.u01()
    if m < 0.96:
        return 1.0 - r.loguniform(1e-16, 1e-3)
    if m < 0.98:
        return 5e-324
    return 1.0


def gen_slack(r):
    m = r.u01()
    if m < 0.22:
        return 0.0
    if m < 0.30:
        return r.choice([5e-324, 1e-310, 1e-300, 1e-200, 1e-100])
    if m < 0.45:
        return r.loguniform(1e-30, 1e-9)
    if m < 0.75:
        return r.loguniform(1e-9, 1e-1)
    if m < 0.92:
        return r.u01()
    if m < 0.96:
        return 1.0 - r.loguniform(1e-16, 1e-2)
    return 1.0


def gen_spend(r, style, base):
    e = gen_eps(r, style, base)
    d = gen_delta(r)
    if r.chance(0.03):
        e = 0.0
        if d == 0.0:
            d = r.loguniform(1e-12, 0.5)
    return (float(e), float(d))


def gen_case(r):
    m = r.u01()
    if m < 0.03:
        n = 0
    elif m < 0.2:
        n = r.randint(1, 5)
    elif m < 0.6:
        n = r.randint(6, 60)
    else:
        n = r.randint(61, 200)
    style = r.choice(["homog", "homog", "homog-jitter", "mixed", "wide", "tiny", "large", "boundary"])
    base = r.loguniform(1e-5, 0.5)
    spends = [gen_spend(r, style, base) for _ in range(n)]
    return spends, float(gen_slack(r)), style


FIXED = [
    ([], 0.0), ([], 0.5), ([(0.05, 0.0)] * 20, 1e-3),           # the docstring example of the class
    ([(1.0, 0.0), (2.0, 0.5)], 0.1), ([(0.0, 0.25), (0.0, 0.5)], 0.0), ([(0.0, 0.25)], 1e-5),
    ([(1e-12, 0.0)], 5e-324), ([(1e3, 1.0)] * 200, 1.0), ([(0.1, 1e-18)] * 200, 0.0),
    ([(0.01, 0.0)] * 150, 1e-6), ([(0.3, 1e-9)] * 40, 0.3),
]


# ---------------------------------------------------------------- direct checks on the implementation

def check_kov(spends, slack):
    """the pure function total(spent_budget=, slack=) against the reference: (None | (signature, what), info)"""
    te, td = impl_total(spends, slack)
    return judge_kov(te, td, spends, slack)


def judge_kov(te, td, spends, slack, ref=None):
    """a reported total (te, td) against the 60-digit KOV value of (spends, slack)"""
    ke, kd, branch = ref if ref is not None else kov_ref(spends, slack)
    re_, rd = rel_err(te, ke), rel_err(td, kd)
    bad = None
    if not (abs(rd) <= 1e-9):
        bad = ("C05:delta-vs-kov", f"total delta {te!r},{td!r}: delta differs from 1-(1-slack)*prod(1-d_i) = {float(kd)!r} by {rd:.3e} relative")
    elif rd < -1e-12:
        bad = ("C05:delta-below-kov", f"total delta {td!r} is below the KOV delta {float(kd)!r} by {rd:.3e} relative (> 1e-12)")
    elif not (abs(re_) <= 1e-9) or re_ < -1e-12:
        kind = "differs from" if not (abs(re_) <= 1e-9) else "is below"
        sig = f"C05:eps-vs-kov:{branch}" if not (abs(re_) <= 1e-9) else f"C05:eps-below-kov:{branch}"
        # is this the known cancellation (1 - exp(-eps), log(1/slack)) next to slack = 1 ?
        if slack >= 0.999 and branch == "drv":
            faithful = float_total_eps(spends, slack, careful=False)
            careful = float_total_eps(spends, slack, careful=True)
            if gen.rel_close(faithful, te, 1e-12) and abs(rel_err(careful, ke)) <= 1e-12:
                sig = SIG_CANCEL
        bad = (sig, f"total epsilon {te!r} {kind} the KOV value {float(ke)!r} (branch {branch}) by {re_:.3e} relative "
                    f"(allowed: 1e-9 either way, 1e-12 below)")
    if slack == 0 and bad is None and not (abs(re_) <= 1e-12):
        bad = ("C05:basic-composition", f"slack 0: total epsilon {te!r} is not the plain sum {float(ke)!r} ({re_:.3e} relative)")
    return bad, (te, td, branch, re_, rd)


def check_perm(spends, slack, perm):
    a = impl_total(spends, slack)
    b = impl_total([spends[i] for i in perm], slack)
    if not (gen.rel_close(a[0], b[0], 1e-12) and gen.rel_close(a[1], b[1], 1e-12)):
        return ("C05:order-dependent", f"total {a} becomes {b} when the same spends are recorded in another order")
    return None


def check_mono(spends, slack, extra, pos):
    a = impl_total(spends, slack)
    b = impl_total(spends[:pos] + [extra] + spends[pos:], slack)
    # a true decrease is > rounding: allow 1e-13 relative (eps) / 1e-13 relative + 1e-300 (delta)
    if not (b[0] >= a[0] * (1 - 1e-13)):
        return ("C05:decreases:eps", f"total epsilon {a[0]!r} decreases to {b[0]!r} when the spend {extra} is added")
    if not (b[1] >= a[1] * (1 - 1e-13)):
        return ("C05:decreases:delta", f"total delta {a[1]!r} decreases to {b[1]!r} when the spend {extra} is added")
    return None


def direct(ctx, spends, slack, r):
    bad, info = check_kov(spends, slack)
    if bad:
        ctx.violation(bad[0], f"spends={_short(spends)} slack={slack!r}: {bad[1]}",
                      {"kind": "kov", "spends": spends, "slack": slack})
    ctx.count("branch_" + info[2])
    n = len(spends)
    if n >= 2:
        perms = [list(range(n - 1, -1, -1)), r.shuffle(list(range(n))),
                 sorted(range(n), key=lambda i: (-spends[i][1], spends[i][0]))]
        for p in perms:
            v = check_perm(spends, slack, p)
            if v:
                ctx.violation(v[0], f"spends={_short(spends)} slack={slack!r}: {v[1]}",
                              {"kind": "perm", "spends": spends, "slack": slack, "perm": p})
                break
    extras = [gen_spend(r, r.choice(["wide", "tiny", "mixed", "boundary"]), 0.1), (1e-12, 0.0), (0.0, 5e-324)]
    if spends:
        extras.append(spends[r.randint(0, n - 1)])
    for ex in extras:
        pos = n if r.chance(0.6) else r.randint(0, n)
        v = check_mono(spends, slack, ex, pos)
        if v:
            ctx.violation(v[0], f"spends={_short(spends)} slack={slack!r}: {v[1]}",
                          {"kind": "mono", "spends": spends, "slack": slack, "extra": list(ex), "pos": pos})
            break
    return info


def _short(spends):
    if len(spends) <= 6:
        return spends
    return f"{spends[:3]}…(+{len(spends) - 3} more, full list in the replay file)"


# ---------------------------------------------------------------- live accountants (state kept between calls)

SIG_STALE = "C05:total:stale-live-state"
BudgetError = dp.utils.BudgetError


def gen_live(r):
    """(ce, cd, slack0, ops): an operation sequence for ONE long-lived accountant.  Every sequence contains no-argument
    total() calls immediately before and after slack changes with no spend in between, slack moving up and down."""
    if r.chance(0.7):
        ce, cd = float("inf"), 1.0
    else:
        ce, cd = float(r.loguniform(1.0, 100.0)), float(r.uniform(0.3, 1.0))
    top = min(cd, 0.9)

    def a_slack():
        m = r.u01()
        if m < 0.25:
            return 0.0
        if m < 0.35:
            return float(r.choice([5e-324, 1e-300, 1e-30]))
        if m < 0.7:
            return float(r.loguniform(1e-9, 0.1) * top)
        return float(r.uniform(0.0, top))

    base = (1.0 if math.isinf(ce) else ce) * r.loguniform(1e-3, 0.05)
    style = r.choice(["homog", "homog-jitter", "mixed"])

    def a_spend():
        e = gen_eps(r, style, base) if style != "mixed" else r.loguniform(1e-3, 1.0)
        d = r.choice([0.0, 0.0, r.loguniform(1e-12, 1e-4), r.uniform(0, 0.01)])
        if r.chance(0.04):
            e, d = 0.0, r.loguniform(1e-9, 1e-3)
        return float(e), float(d)

    ops = []
    for _ in range(r.randint(0, 25)):                   # a history first, so that the advanced branches are live
        ops.append(["spend", *a_spend()])
    for _ in range(r.randint(4, 14)):
        m = r.u01()
        if m < 0.3:
            ops.append(["spend", *a_spend()])
        elif m < 0.65:
            ops += [["total", r.randint(1, 3)], ["slack", a_slack()], ["total", r.randint(1, 2)]]
            if r.chance(0.5):
                ops += [["slack", a_slack()], ["total", 1]]
        elif m < 0.75:
            ops.append(["check", *a_spend()])
        elif m < 0.85:
            ops.append(["remaining", r.randint(1, 5)])
        else:
            ops.append(["total", r.randint(1, 3)])
    return ce, cd, a_slack() if r.chance(0.5) else 0.0, ops


LIVE_FIXED = [
    (float("inf"), 1.0, 0.0, [["spend", 0.1, 1e-6]] * 50 + [["total", 1], ["slack", 1e-3], ["total", 2], ["spend", 0.1, 1e-6],
                                                           ["slack", 0.0], ["total", 1], ["slack", 0.25], ["total", 1],
                                                           ["spend", 0.0, 1e-4], ["remaining", 2], ["slack", 1e-9], ["total", 1]]),
]


def run_live(seq, with_ref=True):
    """Run one sequence on ONE real accountant.  Returns (records, violation | None);
    records[i] = (kind, len, slack, tot_eps, tot_delta) observed after op i (index 0 = the constructor)."""
    ce, cd, s0, ops = seq
    recs = []
    try:
        live = quiet_new(ce, cd, s0)
    except ValueError as ex:
        return [(("budgetError" if isinstance(ex, BudgetError) else "valueError"), 0, None, None, None)], None
    spent, slack = [], s0
    refs = {}

    def observe(kind, step, reps=1):
        for _ in range(reps):
            with warnings.catch_warnings():
                warnings.simplefilter("ignore")
                with np.errstate(all="ignore"):
                    t = live.total()
            te, td = float(t[0]), float(t[1])
            sb = [(float(e), float(d)) for e, d in live.spent_budget]
            here = f"ceiling=({ce!r},{cd!r}) after step {step} {ops[step] if step >= 0 else 'constructor'} ({len(sb)} spends, slack={live.slack!r})"
            if sb != spent or len(live) != len(spent) or live.slack != slack:
                return ("C05:live:state", f"{here}: spent_budget/len/slack are not what the accepted operations imply "
                                          f"(len={len(live)}, expected {len(spent)}; slack expected {slack!r})")
            pure = impl_total(sb, slack)
            if (te, td) != pure:
                return (SIG_STALE, f"{here}: the live accountant's total() = ({te!r}, {td!r}) but total(spent_budget=its own "
                                   f"spends, slack=its own slack) = {pure}")
            if with_ref:
                key = (len(sb), slack)
                if key not in refs:
                    refs[key] = kov_ref(sb, slack)
                bad, _ = judge_kov(te, td, sb, slack, refs[key])
                if bad:
                    return (bad[0], f"{here}: live total(): {bad[1]}")
        recs.append((kind, len(spent), slack, te, td))
        return None

    v = observe("ok", -1)
    if v:
        return recs, v + (-1,)
    for i, op in enumerate(ops):
        kind, reps = "ok", 1
        try:
            with warnings.catch_warnings():
                warnings.simplefilter("ignore")
                with np.errstate(all="ignore"):
                    if op[0] == "spend":
                        live.spend(op[1], op[2])
                        spent.append((op[1], op[2]))
                    elif op[0] == "slack":
                        live.slack = op[1]
                        slack = op[1]
                    elif op[0] == "check":
                        live.check(op[1], op[2])
                    elif op[0] == "remaining":
                        live.remaining(op[1])
                    else:
                        reps = op[1]
        except BudgetError:
            kind = "budgetError"
        except ValueError:
            kind = "valueError"
        v = observe(kind, i, reps)
        if v:
            return recs, v + (i,)
    return recs, None


def quiet_new(ce, cd, slack):
    with warnings.catch_warnings():
        warnings.simplefilter("ignore")
        return dp.BudgetAccountant(ce, cd, slack)


def live_lines(seq):
    ce, cd, s0, ops = seq
    lines = [f"new {f2b(ce)} {f2b(cd)} {f2b(s0)}"]
    for op in ops:
        if op[0] in ("spend", "check"):
            lines.append(f"{op[0]} {f2b(op[1])} {f2b(op[2])}")
        elif op[0] == "slack":
            lines.append(f"slack {f2b(op[1])}")
        else:
            lines.append("total")           # remaining / total: queries, the state answer is what is compared
    return lines


def live_stream(ctx):
    r = ctx.fork("live")
    seqs = list(LIVE_FIXED) + [gen_live(r) for _ in range(ctx.budget(250, 4000))]
    all_lines, spans, impl = [], [], []
    for seq in seqs:
        recs, viol = run_live(seq)
        if viol:
            ctx.violation(viol[0], viol[1], {"kind": "live", "seq": list(seq), "step": viol[2]})
        n_sl = sum(1 for op in seq[3] if op[0] == "slack")
        ctx.case(("live", f2b(seq[0]), f2b(seq[2]), hash(repr(seq[3]))) if n_sl and len(seq[3]) > n_sl else None)
        impl.append(recs)
        ls = live_lines(seq)
        spans.append((len(all_lines), len(ls)))
        all_lines += ls
    ctx.sample({"live_sequence": {"ceiling": [seqs[1][0], seqs[1][1]], "slack0": seqs[1][2], "ops_tail": seqs[1][3][-8:],
                                  "impl_after_each_op_tail": impl[1][-8:]}})
    if ctx.searching and ctx.violations:
        return
    outs = leanio.run_driver("Accountant", all_lines)
    for seq, recs, (a, ln) in zip(seqs, impl, spans):
        good = True
        for j, (rec, out) in enumerate(zip(recs, outs[a:a + ln])):
            w = out.split()
            kind, n, sl, te, td = rec
            if w[0] == "nostate" and kind != "ok":
                break
            okk = w[0] == kind
            if okk and sl is not None:
                okk = int(w[1]) == n and b2f(int(w[2])) == sl and not w[3].startswith("total-")
                if okk:
                    me, md = b2f(int(w[3])), b2f(int(w[4]))
                    okk = md == td and ((me == te) if sl == 0 else
                                        gen.rel_close(me, te, 1e-12, 4.5e-16 * sum(o[1] for o in seq[3][:j] if o[0] == "spend")))
            if not okk:
                # accept/refuse decisions within rounding of a finite ceiling may legitimately differ when exp/log are involved
                if w[0] != kind and not math.isinf(seq[0]) and te is not None and \
                        (gen.rel_close(te, seq[0], 1e-9) or seq[3][j - 1][0] in ("slack", "spend", "check")) and \
                        _near_ceiling(seq, j - 1):
                    ctx.boundary_skipped += 1
                else:
                    ctx.disagree("accountant.live", {"seq": list(seq), "step": j - 1}, out, list(rec))
                good = False
                break
        if good:
            ctx.trace_ok()
    ctx.count("live_ops_compared", len(all_lines))


def _near_ceiling(seq, upto):
    """is the decision at op `upto` within 1e-11 (relative) of the epsilon ceiling?"""
    ce, cd, s0, ops = seq
    try:
        a = quiet_new(ce, cd, s0)
        for op in ops[:upto]:
            try:
                if op[0] == "spend":
                    a.spend(op[1], op[2])
                elif op[0] == "slack":
                    a.slack = op[1]
            except ValueError:
                pass
        op = ops[upto]
        with warnings.catch_warnings():
            warnings.simplefilter("ignore")
            if op[0] in ("spend", "check"):
                t = a.total(spent_budget=a.spent_budget + [(op[1], op[2])])
            elif op[0] == "slack":
                t = a.total(slack=op[1])
            else:
                return False
        return gen.rel_close(float(t[0]), ce, 1e-11)
    except Exception:  # noqa
        return False


# ---------------------------------------------------------------- the pure function queried on accountants with a state of their own

def _cmp_totalcore(spends, slack, te, td, out):
    """one `totalcore` answer of the driver against an implementation result"""
    w = out.split()
    if w[0] != "ok":
        return False
    me, md = b2f(int(w[1])), b2f(int(w[2]))
    # exp differs by <= 1 ulp between numpy and Lean's libm; in `1 - exp(-eps)` that ulp is an ABSOLUTE 2^-53,
    # i.e. up to 2^-53 * eps/2 per term of the exp-sum: allow 4 of those on top of 1e-12 relative
    return (md == td) and ((me == te) if slack == 0 else
                           gen.rel_close(me, te, 1e-12, 4.5e-16 * sum(e for e, _ in spends)))


def gen_host(r):
    """(ce, cd, own_slack, own_spends): an accountant with a NON-ZERO slack of its own (mostly) and spends of its own"""
    ce = float(r.choice([float("inf"), float("inf"), 1e6, 1e3]))
    cd = float(r.choice([1.0, 1.0, 0.5, 0.1, r.uniform(0.01, 1.0)]))
    own = float(cd * r.choice([r.u01(), r.loguniform(1e-6, 1.0), 0.5, 1e-2, 1e-2])) if r.chance(0.9) else 0.0
    if cd == 1.0 and own > 0.99:
        own = 0.5
    base = r.loguniform(1e-3, 0.2)
    n = r.randint(0, 60)
    spends = []
    for _ in range(n):
        e = base * (r.uniform(0.5, 1.5) if r.chance(0.5) else 1.0)
        d = r.choice([0.0, 0.0, 1e-6, cd * r.loguniform(1e-8, 1e-3)])
        spends.append((float(e), float(d)))
    return ce, cd, own, spends


def make_host(host):
    ce, cd, own, spends = host
    with warnings.catch_warnings():
        warnings.simplefilter("ignore")
        with np.errstate(all="ignore"):
            a = dp.BudgetAccountant(ce, cd, own)
            kept = []
            for e, d in spends:
                try:
                    a.spend(e, d)
                    kept.append((e, d))
                except ValueError:
                    pass
    return a, kept


def host_query(a, kept, own, form, spends, slack):
    """evaluate one call form on the host; returns ((te, td), the spends actually meant, the slack actually meant)"""
    with warnings.catch_warnings():
        warnings.simplefilter("ignore")
        with np.errstate(all="ignore"):
            if form == "both":
                t = a.total(spent_budget=[tuple(x) for x in spends], slack=slack)
                meant = (list(spends), slack)
            elif form == "slack-only":
                t = a.total(slack=slack)
                meant = (list(kept), slack)
            else:                                   # "spends-only"
                t = a.total(spent_budget=[tuple(x) for x in spends])
                meant = (list(spends), own)
    return (float(t[0]), float(t[1])), meant[0], meant[1]


def check_host(host, form, spends, slack):
    """None | (signature, what); plus (te, td, meant_spends, meant_slack)"""
    a, kept = make_host(host)
    (te, td), ms, msl = host_query(a, kept, host[2], form, spends, slack)
    bad, _ = judge_kov(te, td, ms, float(msl))
    call = {"both": f"total(spent_budget=<{len(spends)} spends>, slack={slack!r})", "slack-only": f"total(slack={slack!r})",
            "spends-only": f"total(spent_budget=<{len(spends)} spends>)"}[form]
    where = (f"BudgetAccountant({host[0]!r}, {host[1]!r}, slack={host[2]!r}) with {len(kept)} spends of its own: {call} must be the "
             f"KOV total of ({len(ms)} spends, slack {msl!r})")
    if bad:
        sig = bad[0]
        if sig != SIG_CANCEL and form != "spends-only" and slack == 0:
            sig = "C05:basic-composition:explicit-zero-slack"
        elif sig != SIG_CANCEL:
            sig = sig + ":host-state"
        return (sig, f"{where}: {bad[1]}"), (te, td, ms, msl)
    return None, (te, td, ms, msl)


HOST_FIXED = [
    ((float("inf"), 1.0, 1e-2, [(0.1, 0.0)] * 40 + [(0.05, 1e-6)] * 20), "slack-only", [], 0),
    ((float("inf"), 1.0, 1e-2, [(0.1, 0.0)] * 40 + [(0.05, 1e-6)] * 20), "both", [(0.1, 0.0)] * 40 + [(0.05, 1e-6)] * 20, 0.0),
    ((float("inf"), 0.5, 0.25, [(0.05, 0.0)] * 30), "spends-only", [(0.02, 0.0)] * 50, None),
]


def host_stream(ctx):
    """total(spent_budget=…, slack=s) / total(slack=s) / total(spent_budget=…) on accountants that have a non-zero slack and
    spends of their own: the answer must depend only on the arguments actually meant"""
    r = ctx.fork("host")
    items = list(HOST_FIXED)
    for _ in range(ctx.budget(120, 2500)):
        host = gen_host(r)
        ce, cd, own, _ = host
        for _ in range(4):
            form = r.choice(["both", "both", "slack-only", "slack-only", "spends-only"])
            m = r.u01()
            if m < 0.3:
                sl = r.choice([0, 0.0])                     # explicit zero, int and float
            elif m < 0.45:
                sl = float(r.choice([5e-324, 1e-300, 1e-30, 1e-12]))
            elif m < 0.6:
                sl = own
            else:
                sl = float(min(cd, 0.9) * r.choice([r.u01(), r.loguniform(1e-9, 1.0)]))
            if form == "spends-only":
                sl = None
            spends = []
            if form != "slack-only":
                spends, _, _ = gen_case(r)
                spends = spends[:80]
            items.append((host, form, spends, sl))
    lines, impl = [], []
    for host, form, spends, sl in items:
        bad, (te, td, ms, msl) = check_host(host, form, spends, sl)
        if bad:
            ctx.violation(bad[0], bad[1], {"kind": "host", "host": [host[0], host[1], host[2], host[3]], "form": form,
                                           "spends": spends, "slack": sl})
        ctx.case(("host", form, f2b(host[2]), f2b(msl), hash(tuple(ms)), len(host[3])) if host[2] > 0 and len(ms) >= 2 else None)
        impl.append((ms, float(msl), te, td))
        flat = []
        for e, d in ms:
            flat += [f2b(e), f2b(d)]
        lines.append("totalcore " + " ".join(str(x) for x in [f2b(msl)] + flat))
    h = items[len(HOST_FIXED)]
    ctx.sample({"host_accountant": {"ceiling": [h[0][0], h[0][1]], "own_slack": h[0][2], "own_spends": len(h[0][3])},
                "call_form": h[1], "n_spends_passed": len(h[2]), "slack_passed": h[3], "impl_total": impl[len(HOST_FIXED)][2:]})
    if ctx.searching and ctx.violations:
        return
    outs = leanio.run_driver("Accountant", lines)
    for (host, form, spends, sl), (ms, msl, te, td), out in zip(items, impl, outs):
        if _cmp_totalcore(ms, msl, te, td, out):
            ctx.trace_ok()
        else:
            ctx.disagree("accountant.total.host", {"host": [host[0], host[1], host[2], len(host[3])], "form": form,
                                                   "spends": spends, "slack": sl}, out, [te, td])
    ctx.count("host_queries_compared", len(lines))


# ---------------------------------------------------------------- stateful stratum: the harness keeps its own ledger

BAD_KINDS = ["neg-eps", "delta>1", "delta<0", "both-zero", "nan-eps", "nan-delta", "below-min", "type", "over-budget"]


def bad_args(kind, a, b, ce):
    """arguments of a spend attempt the accountant must refuse (a in (0,1): a size, b in (0,1): a delta)"""
    base = 1.0 if math.isinf(ce) else ce
    if kind == "neg-eps":
        return (-a * base, b * 1e-3 if b < 0.5 else 0.0)
    if kind == "delta>1":
        return (a * base * 0.01, 1.0 + b)
    if kind == "delta<0":
        return (a * base * 0.01, -b)
    if kind == "both-zero":
        return (0.0, 0.0) if b < 0.5 else (0, 0)
    if kind == "nan-eps":
        return (float("nan"), b * 1e-3)
    if kind == "nan-delta":
        return (a * base * 0.01, float("nan"))
    if kind == "below-min":                       # only exists for a finite ceiling (minimum spend = ceiling * 1e-14)
        return (base * 1e-15 * (0.1 + a), b * 1e-6 if b < 0.5 else 0.0)
    if kind == "type":
        return ("0.1", 0.0) if b < 0.5 else (a * base * 0.01, None)
    return (base * (2.0 + 100 * a), 0.0)          # over-budget (finite ceiling), refused with BudgetError


def gen_ledger(r):
    """(ce, cd, slack, prior, ops) for ONE accountant A built from a caller-owned list (plus, on demand, a second
    accountant B built from the very same list object)"""
    if r.chance(0.35):
        ce, cd = float("inf"), float(r.choice([1.0, 0.5]))
    else:
        ce, cd = float(r.choice([1.0, 5.0, r.loguniform(0.1, 100.0)])), float(r.choice([1.0, 0.5, 0.1, r.uniform(0.05, 1.0)]))
    slack = float(r.choice([0.0, 0.0, cd * r.loguniform(1e-6, 0.5), cd * 0.5 * r.u01(), min(cd, 1e-3)]))
    base = 1.0 if math.isinf(ce) else ce
    small = r.chance(0.5)

    def a_spend():
        e = base * (r.uniform(0.002, 0.012) if small else r.loguniform(1e-3, 0.05))
        d = r.choice([0.0, 0.0, cd * r.loguniform(1e-9, 1e-3), 0.0])
        if r.chance(0.05):
            e, d = 0.0, cd * r.loguniform(1e-9, 1e-4)
        return float(e), float(d)

    prior = [a_spend() for _ in range(r.choice([0, 0, 1, 3, 8, r.randint(0, 25)]))]
    ops = []
    for _ in range(r.randint(6, 22)):
        m = r.u01()
        if m < 0.35:
            ops.append(["spend", *a_spend()])
        elif m < 0.65:
            k = r.choice(BAD_KINDS)
            if math.isinf(ce) and k in ("below-min", "over-budget"):
                k = r.choice(["neg-eps", "delta>1", "both-zero"])
            ops.append(["bad", k, float(r.uniform(0.05, 1.0)), float(r.uniform(0.01, 0.99))])
        elif m < 0.88:
            ops.append(["mut", r.choice(["append", "append", "clear", "setitem", "del", "extend", "neg"]), *a_spend()])
        elif m < 0.95:
            ops.append(["reuse", *a_spend()])
        else:
            ops.append(["obs"])
    return ce, cd, slack, prior, ops


LEDGER_FIXED = [
    (1.0, 0.0, 0.0, [(0.1, 0.0)], [["bad", "neg-eps", 0.5, 0.9], ["obs"], ["spend", 0.1, 0.0], ["bad", "delta>1", 0.5, 0.5],
                                   ["bad", "both-zero", 0.5, 0.2], ["bad", "nan-eps", 0.5, 0.2], ["bad", "over-budget", 0.1, 0.1],
                                   ["bad", "type", 0.5, 0.2], ["bad", "below-min", 0.5, 0.2], ["spend", 0.2, 0.0]]),
    (float("inf"), 1.0, 1e-2, [(0.1, 0.0)] * 30, [["mut", "append", 5.0, 0.5], ["obs"], ["mut", "clear", 0.1, 0.0], ["spend", 0.1, 1e-6],
                                                 ["reuse", 0.7, 0.0], ["mut", "setitem", 3.0, 0.0], ["bad", "delta<0", 0.3, 0.3]]),
    (2.0, 0.5, 0.1, [], [["mut", "append", 0.5, 0.0], ["spend", 0.01, 0.0], ["reuse", 1.0, 0.1], ["mut", "extend", 0.3, 0.0], ["obs"]]),
]


def run_ledger(seq):
    """Run one sequence on the real accountant(s).  The reference is the harness's OWN ledger: the spends given to the
    constructor at construction time plus every spend() call that returned normally.  Returns (records, violation|None);
    records[i] = (kind | None, len, tot_eps, tot_delta) of accountant A after op i (index 0 = the constructor)."""
    ce, cd, slack, prior, ops = seq
    recs = []
    lst = [tuple(x) for x in prior]                 # caller-owned; stays reachable and gets mutated below

    def build(ce_, cd_, sl_, the_list):
        with warnings.catch_warnings():
            warnings.simplefilter("ignore")
            with np.errstate(all="ignore"):
                return dp.BudgetAccountant(ce_, cd_, sl_, spent_budget=the_list)
    try:
        A = build(ce, cd, slack, lst)
    except ValueError as ex:
        return [("budgetError" if isinstance(ex, BudgetError) else "valueError", 0, None, None)], None
    accs = [{"name": "A", "acc": A, "ledger": [tuple(x) for x in prior], "slack": slack, "prev": None, "refs": {},
             "ctor": f"BudgetAccountant({ce!r}, {cd!r}, slack={slack!r}, spent_budget=<list of {len(prior)}>)"}]

    def observe(step):
        what = f"step {step} {ops[step] if step >= 0 else 'constructor'}"
        for st in accs:
            a, led = st["acc"], st["ledger"]
            here = f"{st['ctor']} after {what}: harness ledger has {len(led)} accepted spends"
            try:
                with warnings.catch_warnings():
                    warnings.simplefilter("ignore")
                    with np.errstate(all="ignore"):
                        t = a.total()
                        n = len(a)
                        sb = a.spent_budget
                te, td = float(t[0]), float(t[1])
            except Exception as ex:  # noqa
                return ("C05:ledger:total-raises", f"{here}: total()/len()/spent_budget raised {type(ex).__name__}: {str(ex)[:80]}")
            key = len(led)
            if key not in st["refs"]:
                st["refs"][key] = kov_ref(led, st["slack"])
            bad, _ = judge_kov(te, td, led, st["slack"], st["refs"][key])
            if bad:
                sig = bad[0] if bad[0] == SIG_CANCEL else "C05:ledger:total-not-kov-of-accepted"
                return (sig, f"{here}, len()={n}; {bad[1]}")
            if n != len(led):
                return ("C05:ledger:len", f"{here} but len() = {n}")
            if [tuple(x) for x in sb] != led:
                return ("C05:ledger:spent_budget", f"{here} but spent_budget = {_short(list(sb))}")
            if st["prev"] is not None and not (te >= st["prev"][0] * (1 - 1e-13) and td >= st["prev"][1] * (1 - 1e-13)):
                return ("C05:ledger:total-decreased", f"{here}: total() went from {st['prev']} to ({te!r}, {td!r})")
            st["prev"] = (te, td)
        a0 = accs[0]
        recs.append((None, len(a0["ledger"]), a0["prev"][0], a0["prev"][1]))
        return None

    v = observe(-1)
    if v:
        return recs, v + (-1,)
    recs[-1] = ("ok",) + recs[-1][1:]
    for i, op in enumerate(ops):
        kind = None
        A0 = accs[0]
        try:
            with warnings.catch_warnings():
                warnings.simplefilter("ignore")
                with np.errstate(all="ignore"):
                    if op[0] == "spend":
                        kind = "ok"
                        A0["acc"].spend(op[1], op[2])
                        A0["ledger"].append((op[1], op[2]))
                    elif op[0] == "bad":
                        e, d = bad_args(op[1], op[2], op[3], ce)
                        kind = "ok"
                        A0["acc"].spend(e, d)
                        # a spend() that returns normally IS an accepted spend as far as the ledger goes; for the kinds that
                        # can never be valid this is reported outright
                        if op[1] != "over-budget":
                            return recs, ("C05:ledger:invalid-spend-accepted",
                                          f"{A0['ctor']}: spend({e!r}, {d!r}) [{op[1]}] returned normally", i)
                        A0["ledger"].append((e, d))
                    elif op[0] == "mut":
                        item = (op[2], op[3])
                        if op[1] == "append":
                            lst.append(item)
                        elif op[1] == "clear":
                            lst.clear()
                        elif op[1] == "setitem" and lst:
                            lst[len(lst) // 2] = item
                        elif op[1] == "del" and lst:
                            del lst[-1]
                        elif op[1] == "extend":
                            lst.extend([item] * 3)
                        elif op[1] == "neg" and lst:
                            lst[0] = (-abs(op[2]) - 1.0, 0.0)            # a caller may put anything into HIS list
                    elif op[0] == "reuse" and len(accs) < 3:
                        try:
                            B = build(float("inf"), 1.0, slack, lst)
                        except ValueError:
                            B = None                                    # the caller's list may hold junk by now
                        if B is not None:
                            st = {"name": "B", "acc": B, "ledger": [tuple(x) for x in lst], "slack": slack, "prev": None,
                                  "refs": {}, "ctor": f"second accountant BudgetAccountant(slack={slack!r}, spent_budget=<the same list "
                                                      f"object, {len(lst)} items>)"}
                            accs.append(st)
                            B.spend(op[1], op[2])
                            st["ledger"].append((op[1], op[2]))
        except BudgetError:
            kind = "budgetError"
        except ValueError:
            kind = "valueError"
        except TypeError:
            kind = "typeError"
        v = observe(i)
        if v:
            return recs, v + (i,)
        if op[0] in ("spend", "bad") and not (op[0] == "bad" and op[1] == "type"):
            recs[-1] = (kind,) + recs[-1][1:]
    return recs, None


def ledger_lines(seq):
    ce, cd, slack, prior, ops = seq
    flat = []
    for e, d in prior:
        flat += [f2b(e), f2b(d)]
    lines = ["new " + " ".join(str(x) for x in [f2b(ce), f2b(cd), f2b(slack)] + flat)]
    for op in ops:
        if op[0] == "spend":
            lines.append(f"spend {f2b(op[1])} {f2b(op[2])}")
        elif op[0] == "bad" and op[1] != "type":
            e, d = bad_args(op[1], op[2], op[3], ce)
            lines.append(f"spend {f2b(e)} {f2b(d)}")
        else:
            lines.append("total")            # caller-side list mutation, second accountant, type errors: no-ops of the model
    return lines


def ledger_stream(ctx):
    """random sequences of [accepted spends | attempts that must be refused, every error kind | mutation of the list that
    was passed to the constructor, incl. re-use for a second accountant | observations]; after EVERY step
    total() = KOV(spends the harness knows were accepted, slack), total never decreases, len = #accepted"""
    r = ctx.fork("ledger")
    seqs = list(LEDGER_FIXED) + [gen_ledger(r) for _ in range(ctx.budget(220, 3000))]
    all_lines, spans, impl = [], [], []
    for seq in seqs:
        recs, viol = run_ledger(seq)
        if viol:
            ctx.violation(viol[0], viol[1], {"kind": "ledger", "seq": list(seq), "step": viol[2]})
        kinds = tuple(rc[0] for rc in recs)
        nontrivial = "ok" in kinds[1:] and any(k not in ("ok", None) for k in kinds[1:])
        ctx.case(("ledger", f2b(seq[0]), f2b(seq[2]), len(seq[3]), hash(repr(seq[4]))) if nontrivial else None)
        for k in kinds[1:]:
            if k not in ("ok", None):
                ctx.count("ledger_refused_" + k)
        impl.append(recs)
        ls = ledger_lines(seq)
        spans.append((len(all_lines), len(ls)))
        all_lines += ls
    ctx.sample({"ledger_sequence": {"ceiling": [seqs[3][0], seqs[3][1]], "slack": seqs[3][2], "ctor_list_len": len(seqs[3][3]),
                                    "ops": seqs[3][4][:10], "impl_after_each_op": impl[3][:11]}})
    if ctx.searching and ctx.violations:
        return
    outs = leanio.run_driver("Accountant", all_lines)
    for seq, recs, (a, ln) in zip(seqs, impl, spans):
        ce, cd, slack, prior, ops = seq
        good = True
        for j, (rec, out) in enumerate(zip(recs, outs[a:a + ln])):
            w = out.split()
            kind, n, te, td = rec
            if j == 0 and kind != "ok":
                good = w[0] == kind
                if not good:
                    ctx.disagree("accountant.ledger", {"seq": list(seq), "step": -1}, out, list(rec))
                break
            okk = (kind is None or w[0] == kind) and len(w) >= 5 and not w[3].startswith("total-")
            if okk:
                me, md = b2f(int(w[3])), b2f(int(w[4]))
                eps_sum = sum(e for e, _ in prior) + sum(o[1] for o in ops[:j] if o[0] == "spend")
                okk = int(w[1]) == n and md == td and ((me == te) if slack == 0 else
                                                       gen.rel_close(me, te, 1e-12, 4.5e-16 * eps_sum + 1e-300))
            if not okk:
                # an accept/refuse decision within rounding of a finite ceiling may legitimately differ (exp/log, slack > 0)
                if kind is not None and w[0] != kind and slack > 0 and not math.isinf(ce) and j > 0 and \
                        ops[j - 1][0] in ("spend", "bad") and te is not None and gen.rel_close(te, ce, 1e-9):
                    ctx.boundary_skipped += 1
                else:
                    ctx.disagree("accountant.ledger", {"seq": list(seq), "step": j - 1}, out, list(rec))
                good = False
                break
        if good:
            ctx.trace_ok()
    ctx.count("ledger_ops_compared", len(all_lines))


# ---------------------------------------------------------------- numeric-type dimension

WRAPS = {
    "f32": lambda v: np.float32(v), "f16": lambda v: np.float16(v), "f64": lambda v: np.float64(v),
    "ld": lambda v: np.longdouble(v), "pyint": lambda v: int(v), "npint": lambda v: np.int64(int(v)),
    "npint32": lambda v: np.int32(int(v)),
}
FLOAT_WRAPS = ["f32", "f32", "f32", "f16", "f64", "ld"]
INT_WRAPS = ["pyint", "npint", "npint32"]


def q_of(wrap, v):
    """the real number (as a double) that `v` becomes when given in the wrap's type"""
    with np.errstate(all="ignore"):
        if wrap == "f32":
            return float(np.float32(v))
        if wrap == "f16":
            return float(np.float16(v))
        if wrap in INT_WRAPS:
            return float(int(v))
    return float(v)


def quantise_list(wrap, spends, slack):
    """spends and slack rounded to numbers the type represents exactly, invalid (0, 0) pairs and overflows dropped"""
    out = []
    for e, d in spends:
        e, d = q_of(wrap, e), q_of(wrap, d)
        if math.isinf(e) or not (0 <= d <= 1) or (e == 0 and d == 0):
            continue
        out.append((e, d))
    return out, q_of(wrap, slack)


def gen_typed(r):
    """(wrap, spends, slack, split): regimes where accumulation in a narrow type would show"""
    if r.chance(0.2):
        wrap = r.choice(INT_WRAPS)
        m = r.u01()
        n = r.randint(2, 200)
        if m < 0.4:
            spends = [(1000, 0)] + [(1, 0)] * (n - 1)
        elif m < 0.7:
            spends = [(r.randint(1, 40), 0) for _ in range(n)]
        else:
            spends = [(r.randint(0, 3), r.choice([0, 0, 0, 1])) for _ in range(n)]
        slack = r.choice([0, 0, 0, 1])
    else:
        wrap = r.choice(FLOAT_WRAPS)
        m = r.u01()
        n = r.randint(20, 200)
        if m < 0.3:                                   # one large spend followed by many small ones
            big = r.choice([1000.0, 100.0, 512.0, r.loguniform(10, 1e3)])
            sm = r.choice([1e-5, 1e-4, 1e-3, r.loguniform(1e-6, 1e-2)])
            spends = [(big, 0.0)] + [(sm, r.choice([1e-9, 0.0, 1e-7]))] * (n - 1)
            if r.chance(0.3):
                r.shuffle(spends)
        elif m < 0.6:                                 # many equal spends
            e = r.choice([0.1, 0.05, 0.3, 1.0, r.loguniform(1e-3, 2.0)])
            spends = [(e, r.choice([1e-9, 1e-7, 0.0, 1e-5]))] * n
        elif m < 0.75:                                # small deltas
            dl = r.choice([1e-7, 1e-6, 6e-8, 1e-9, r.loguniform(1e-9, 1e-4)])
            spends = [(r.choice([0.0, 0.01, 0.5]), dl) for _ in range(n)]
        else:
            spends, _, _ = gen_case(r)
        slack = r.choice([0.0, 0.0, 1e-6, 1e-3, 1e-2, 0.25, r.loguniform(1e-7, 0.5)])
    spends, slack = quantise_list(wrap, spends, slack)
    return wrap, spends, slack, r.randint(0, len(spends))


TYPED_FIXED = [
    ("f32", [(1000.0, 0.0)] + [(1e-5, 1e-9)] * 199, 0.0, 100), ("f32", [(0.1, 1e-9)] * 200, 0.0, 0),
    ("f32", [(0.1, 1e-9)] * 200, 1e-6, 200), ("f16", [(512.0, 0.0)] + [(0.01, 1e-7)] * 150, 1e-3, 10),
    ("pyint", [(1000, 0)] + [(1, 0)] * 100, 0, 50), ("npint32", [(3, 0), (0, 1), (2, 0)], 1, 1), ("ld", [(0.1, 1e-9)] * 50, 0.25, 25),
]


def check_typed(wrap, spends, slack, split):
    """both entry points with every number given in the wrap's type.  Returns (None | (signature, what), (te, td))"""
    W = WRAPS[wrap]
    typed = [(W(e), W(d)) for e, d in spends]
    ref = kov_ref(spends, slack)
    with warnings.catch_warnings():
        warnings.simplefilter("ignore")
        with np.errstate(all="ignore"):
            t = acc().total(spent_budget=list(typed), slack=W(slack))
            pure = (float(t[0]), float(t[1]))
            a = dp.BudgetAccountant(float("inf"), W(1), W(slack), spent_budget=list(typed[:split]))
            for e, d in typed[split:]:
                a.spend(e, d)
            t = a.total()
            rec = (float(t[0]), float(t[1]))
            n, sb = len(a), [(float(e), float(d)) for e, d in a.spent_budget]
    desc = f"{len(spends)} spends {_short(spends)} and slack {slack!r}, every number given as {wrap}"
    for name, (te, td) in (("total(spent_budget=, slack=)", pure), (f"constructor({split})+spend() then total()", rec)):
        bad, _ = judge_kov(te, td, spends, slack, ref)
        if bad:
            sig = bad[0] if bad[0] == SIG_CANCEL else "C05:numeric-type:" + ("pure" if name.startswith("total(") else "recorded")
            return (sig, f"{desc}: {name}: {bad[1]}"), pure
    if n != len(spends) or sb != [(float(e), float(d)) for e, d in spends]:
        return ("C05:numeric-type:recorded-values", f"{desc}: spent_budget/len after recording do not hold the numbers given"), pure
    if not (gen.rel_close(pure[0], rec[0], 1e-12) and gen.rel_close(pure[1], rec[1], 1e-12)):
        return ("C05:numeric-type:entry-points-disagree", f"{desc}: total(spent_budget=…) = {pure} but recording the same list "
                                                          f"gives total() = {rec}"), pure
    return None, pure


def typed_stream(ctx):
    r = ctx.fork("typed")
    items = list(TYPED_FIXED) + [gen_typed(r) for _ in range(ctx.budget(150, 2500))]
    items = [(w, *quantise_list(w, sp, sl), k) for w, sp, sl, k in items]
    lines, impl = [], []
    for wrap, spends, slack, split in items:
        split = min(split, len(spends))
        bad, (te, td) = check_typed(wrap, spends, slack, split)
        if bad:
            ctx.violation(bad[0], bad[1], {"kind": "typed", "wrap": wrap, "spends": spends, "slack": slack, "split": split})
        ctx.case(("typed", wrap, f2b(slack), hash(tuple(spends))) if len(spends) >= 2 and wrap != "f64" else None)
        ctx.count("typed_" + wrap)
        impl.append((te, td))
        flat = []
        for e, d in spends:
            flat += [f2b(e), f2b(d)]
        lines.append("totalcore " + " ".join(str(x) for x in [f2b(slack)] + flat))
    ctx.sample({"numeric_type": items[1][0], "n_spends": len(items[1][1]), "first_spend": items[1][1][0], "slack": items[1][2],
                "impl_total": impl[1], "kov_60_digits": str(kov_ref(items[1][1], items[1][2])[0])[:25]})
    if ctx.searching and ctx.violations:
        return
    outs = leanio.run_driver("Accountant", lines)
    for (wrap, spends, slack, split), (te, td), out in zip(items, impl, outs):
        if _cmp_totalcore(spends, slack, te, td, out):
            ctx.trace_ok()
        else:
            ctx.disagree("accountant.total.typed", {"wrap": wrap, "spends": spends, "slack": slack}, out, [te, td])
    ctx.count("typed_totals_compared", len(lines))


# ---------------------------------------------------------------- entry points

def check(ctx):
    live_stream(ctx)
    if ctx.searching and ctx.violations:
        return
    host_stream(ctx)
    if ctx.searching and ctx.violations:
        return
    ledger_stream(ctx)
    if ctx.searching and ctx.violations:
        return
    typed_stream(ctx)
    if ctx.searching and ctx.violations:
        return
    r = ctx.fork("cases")
    n = ctx.budget(4000, 40000)
    cases = [(list(s), float(sl), "fixed") for s, sl in FIXED] + [gen_case(r) for _ in range(n)]
    impl = []
    lines = []
    rr = ctx.fork("direct")
    n_direct = ctx.budget(1500, 12000)         # the 60-digit reference is the expensive part
    for i, (spends, slack, style) in enumerate(cases):
        te, td = impl_total(spends, slack)
        impl.append((te, td))
        if i < n_direct + len(FIXED):
            direct(ctx, spends, slack, rr)
        nontrivial = slack > 0 and len(spends) >= 2
        ctx.case((len(spends), f2b(slack), hash(tuple(spends))) if nontrivial else None)
        flat = []
        for e, d in spends:
            flat += [f2b(e), f2b(d)]
        lines.append("totalcore " + " ".join(str(x) for x in [f2b(slack)] + flat))
    s0 = cases[len(FIXED)]
    ctx.sample({"spends": s0[0][:4], "n_spends": len(s0[0]), "slack": s0[1], "impl_total": impl[len(FIXED)]})
    ctx.sample({"spends": FIXED[2][0][:2], "n_spends": 20, "slack": 1e-3, "impl_total": impl[2],
                "kov_60_digits": str(kov_ref(*FIXED[2])[0])[:25]})
    if ctx.searching and ctx.violations:
        return
    outs = leanio.run_driver("Accountant", lines)
    for (spends, slack, style), (te, td), out in zip(cases, impl, outs):
        if _cmp_totalcore(spends, slack, te, td, out):
            ctx.trace_ok()
        else:
            ctx.disagree("accountant.total", {"spends": spends, "slack": slack}, out, [te, td])
    ctx.count("totals_compared", len(lines))


def replay(ctx, data):
    from ..core import unjson_float as u
    d = data["data"]
    if d["kind"] == "live":
        def fix(x):
            return [fix(y) for y in x] if isinstance(x, list) else u(x)
        seq = fix(d["seq"])
        _, viol = run_live((float(seq[0]), float(seq[1]), float(seq[2]), seq[3]))
        return viol is not None
    if d["kind"] == "typed":
        sp = [(float(u(e)), float(u(x))) for e, x in d["spends"]]
        return check_typed(d["wrap"], sp, float(u(d["slack"])), int(d["split"]))[0] is not None
    if d["kind"] == "ledger":
        def fixl(x):
            return [fixl(y) for y in x] if isinstance(x, list) else u(x)
        q = fixl(d["seq"])
        _, viol = run_ledger((float(q[0]), float(q[1]), float(q[2]), [tuple(x) for x in q[3]], q[4]))
        return viol is not None
    if d["kind"] == "host":
        h = d["host"]
        host = (float(u(h[0])), float(u(h[1])), float(u(h[2])), [(float(u(e)), float(u(x))) for e, x in h[3]])
        sp = [(float(u(e)), float(u(x))) for e, x in d["spends"]]
        sl = d["slack"] if d["slack"] is None or isinstance(d["slack"], int) else float(u(d["slack"]))
        return check_host(host, d["form"], sp, sl)[0] is not None
    spends = [(float(u(e)), float(u(dl))) for e, dl in d["spends"]]
    slack = float(u(d["slack"]))
    if d["kind"] == "kov":
        return check_kov(spends, slack)[0] is not None
    if d["kind"] == "perm":
        return check_perm(spends, slack, d["perm"]) is not None
    if d["kind"] == "mono":
        return check_mono(spends, slack, tuple(float(u(x)) for x in d["extra"]), d["pos"]) is not None
    return False


def _witness_cancel(ctx):
    bad, info = check_kov([(1e-12, 0.0)], 1.0)
    return (bad is not None and bad[0] == SIG_CANCEL,
            f"total(spent_budget=[(1e-12, 0)], slack=1.0).epsilon = {info[0]!r}, KOV = 5e-25: relative deviation "
            f"{info[3]:.2e} (cancellation in 1-exp(-eps) and log(1/slack) for slack within ~1e-4 of 1)")


WITNESSES = {SIG_CANCEL: _witness_cancel}


# translator tie: the arithmetic of total()/remaining() is re-read from /repo's AST on every run, translated to Lean
# terms over ℝ and proved equal to what the model computes (DPL/Generated/AccountantFormulas.lean; shared with C04)
from .c04 import generate  # noqa: E402,F401
