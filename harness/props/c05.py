"""C05 — the accountant's total is the Kairouz–Oh–Viswanath composition expression (DESIGN.md §6 C05).

Correspondence: the implementation's public pure function `BudgetAccountant().total(spent_budget=…, slack=…)` against
the Lean model's `totalCore` run on IEEE doubles by the driver (`totalcore` command).
Direct check on the implementation: against an independent 60-digit evaluation of the KOV formula, permutation
invariance, monotonicity under an extra spend, exact basic composition at zero slack.
"""
import math
import warnings
from decimal import Decimal, localcontext
from fractions import Fraction

from ..shim import dp, np
from .. import gen, leanio
from ..gen import f2b, b2f

PROPERTY = "C05"
LEAN_MODULE = "DPL.Properties.C05"
TRUSTED = [
    "modelled, not verified: CPython/numpy float arithmetic = IEEE binary64 = Lean `Float` (+,-,*,/,sqrt bit-exact; "
    "exp/log to 1e-12 relative); `list.sort()` on floats = ascending insertion sort; `epsilon ** 2` = `epsilon * epsilon`",
    "cited, not proved: that the Kairouz-Oh-Viswanath expression is a valid (eps, delta) composition bound "
    "(KOV 2017, Thm 3.5) — the theorems show the code computes that expression",
    "only the arithmetic of total() (`totalCore`) and its validation wrapper (`totalGiven`) are modelled; the "
    "type checks of check_epsilon_delta on non-numeric arguments are C13's business",
]
UNPROVED = [
    "floating-point rounding of total() (|total - KOV| <= 1e-9 relative, total >= KOV(1-1e-12), permutation "
    "invariance to 1e-12, monotonicity in doubles) is checked on every run against 60-digit decimal/fractions, not proved; "
    "the theorems are over the reals",
]
RULE = ("(spends, slack) pairs generated from the seed: 0..200 spends, eps log-uniform in [1e-12,1e3] in several styles "
        "(homogeneous small, mixed, wide, tiny, large, boundary values, eps=0 with delta>0), delta in [0,1] incl. 0, tiny, 1, "
        "slack in [0,1] incl. 0, denormal, tiny, near 1 and 1; each is evaluated by the real total(spent_budget=, slack=) "
        "and by the Lean model on doubles; non-trivial when slack > 0 and there are >= 2 spends (the advanced-composition "
        "branches are live); distinct by (n, slack bits, bits of the spends)")

SIG_CANCEL = "C05:eps-vs-kov:cancellation-slack-near-1"
PREC = 60
_ACC = None


def acc():
    global _ACC
    if _ACC is None:
        _ACC = dp.BudgetAccountant(delta=1.0)      # epsilon ceiling inf, delta ceiling 1: every slack in [0,1] allowed
    return _ACC


def impl_total(spends, slack):
    with warnings.catch_warnings():
        warnings.simplefilter("ignore")
        with np.errstate(all="ignore"):
            t = acc().total(spent_budget=[tuple(s) for s in spends], slack=slack)
    return float(t[0]), float(t[1])


# ---------------------------------------------------------------- independent reference (the KOV formula, 60 digits)

def kov_ref(spends, slack):
    """(eps, delta, branch) of the KOV bound; eps as Decimal (60 digits), delta as exact Fraction"""
    prod = 1 - Fraction(float(slack))
    for _, d in spends:
        prod *= 1 - Fraction(float(d))
    delta = 1 - prod
    with localcontext() as c:
        c.prec = PREC
        c.Emax = 999999999
        c.Emin = -999999999
        D = Decimal
        es = [D(float(e)) for e, _ in spends]
        naive = sum(es, D(0))
        if slack == 0:
            return naive, delta, "naive"
        expsum = D(0)
        sq = D(0)
        for e in es:
            ex = (-e).exp()
            expsum += (1 - ex) * e / (1 + ex)
            sq += e * e
        s = D(float(slack))
        drv = expsum + (2 * sq * (1 / s).ln()).sqrt()
        kov = expsum + (2 * sq * (D(1).exp() + sq.sqrt() / s).ln()).sqrt()
        m = min(naive, drv, kov)
        branch = "naive" if m == naive else ("drv" if m == drv else "kov")
        return m, delta, branch


def float_total_eps(spends, slack, careful):
    """the same formulas in doubles; `careful` avoids the two cancellations (1-exp(-e), log(1/slack))"""
    S = E = Q = 0.0
    for e, _ in spends:
        e = float(e)
        S += e
        ex = float(np.exp(-e))                       # the library's own exp, so that `faithful` is bit-faithful
        om = -math.expm1(-e) if careful else 1 - ex
        E += om * e / (1 + ex)
        Q += e ** 2
    if slack == 0:
        return S
    with np.errstate(all="ignore"):
        L = -math.log(slack) if careful else float(np.log(1 / slack))
        drv = E + float(np.sqrt(2 * Q * L))
        kov = E + float(np.sqrt(2 * Q * np.log(np.exp(1) + np.sqrt(Q) / slack)))
    return min(S, drv, kov)


def rel_err(x, ref):
    """(x - ref)/ref as float, exact arithmetic inside; ref Decimal or Fraction; 0 when both are 0"""
    if isinstance(ref, Fraction):
        fx = Fraction(x)
        if ref == 0:
            return 0.0 if fx == 0 else math.inf
        return float((fx - ref) / ref)
    with localcontext() as c:
        c.prec = PREC
        if ref == 0:
            return 0.0 if x == 0 else math.inf
        return float((Decimal(x) - ref) / ref)


# ---------------------------------------------------------------- generator

def gen_eps(r, style, base):
    if style == "homog":
        return base
    if style == "homog-jitter":
        return base * r.uniform(0.5, 1.5)
    if style == "mixed":
        return r.loguniform(1e-3, 10.0)
    if style == "wide":
        return r.loguniform(1e-12, 1e3)
    if style == "tiny":
        return r.loguniform(1e-12, 1e-6)
    if style == "large":
        return r.loguniform(1.0, 1e3)
    return r.choice([1e-12, 1e3, 1.0, 0.1, 0.5, 1e-6, 2.0])     # "boundary"


def gen_delta(r):
    m = r.u01()
    if m < 0.45:
        return 0.0
    if m < 0.6:
        return r.loguniform(1e-18, 1e-6)
    if m < 0.75:
        return r.loguniform(1e-6, 1e-2)
    if m < 0.93:
        return r.u01()
    if m < 0.96:
        return 1.0 - r.loguniform(1e-16, 1e-3)
    if m < 0.98:
        return 5e-324
    return 1.0


def gen_slack(r):
    m = r.u01()
    if m < 0.22:
        return 0.0
    if m < 0.30:
        return r.choice([5e-324, 1e-310, 1e-300, 1e-200, 1e-100])
    if m < 0.45:
        return r.loguniform(1e-30, 1e-9)
    if m < 0.75:
        return r.loguniform(1e-9, 1e-1)
    if m < 0.92:
        return r.u01()
    if m < 0.96:
        return 1.0 - r.loguniform(1e-16, 1e-2)
    return 1.0


def gen_spend(r, style, base):
    e = gen_eps(r, style, base)
    d = gen_delta(r)
    if r.chance(0.03):
        e = 0.0
        if d == 0.0:
            d = r.loguniform(1e-12, 0.5)
    return (float(e), float(d))


def gen_case(r):
    m = r.u01()
    if m < 0.03:
        n = 0
    elif m < 0.2:
        n = r.randint(1, 5)
    elif m < 0.6:
        n = r.randint(6, 60)
    else:
        n = r.randint(61, 200)
    style = r.choice(["homog", "homog", "homog-jitter", "mixed", "wide", "tiny", "large", "boundary"])
    base = r.loguniform(1e-5, 0.5)
    spends = [gen_spend(r, style, base) for _ in range(n)]
    return spends, float(gen_slack(r)), style


FIXED = [
    ([], 0.0), ([], 0.5), ([(0.05, 0.0)] * 20, 1e-3),           # the docstring example of the class
    ([(1.0, 0.0), (2.0, 0.5)], 0.1), ([(0.0, 0.25), (0.0, 0.5)], 0.0), ([(0.0, 0.25)], 1e-5),
    ([(1e-12, 0.0)], 5e-324), ([(1e3, 1.0)] * 200, 1.0), ([(0.1, 1e-18)] * 200, 0.0),
    ([(0.01, 0.0)] * 150, 1e-6), ([(0.3, 1e-9)] * 40, 0.3),
]


# ---------------------------------------------------------------- direct checks on the implementation

def check_kov(spends, slack):
    """None or (signature, what, detail)"""
    te, td = impl_total(spends, slack)
    ke, kd, branch = kov_ref(spends, slack)
    re_, rd = rel_err(te, ke), rel_err(td, kd)
    bad = None
    if not (abs(rd) <= 1e-9):
        bad = ("C05:delta-vs-kov", f"total delta {te!r},{td!r}: delta differs from 1-(1-slack)*prod(1-d_i) = {float(kd)!r} by {rd:.3e} relative")
    elif rd < -1e-12:
        bad = ("C05:delta-below-kov", f"total delta {td!r} is below the KOV delta {float(kd)!r} by {rd:.3e} relative (> 1e-12)")
    elif not (abs(re_) <= 1e-9) or re_ < -1e-12:
        kind = "differs from" if not (abs(re_) <= 1e-9) else "is below"
        sig = f"C05:eps-vs-kov:{branch}" if not (abs(re_) <= 1e-9) else f"C05:eps-below-kov:{branch}"
        # is this the known cancellation (1 - exp(-eps), log(1/slack)) next to slack = 1 ?
        if slack >= 0.999 and branch == "drv":
            faithful = float_total_eps(spends, slack, careful=False)
            careful = float_total_eps(spends, slack, careful=True)
            if gen.rel_close(faithful, te, 1e-12) and abs(rel_err(careful, ke)) <= 1e-12:
                sig = SIG_CANCEL
        bad = (sig, f"total epsilon {te!r} {kind} the KOV value {float(ke)!r} (branch {branch}) by {re_:.3e} relative "
                    f"(allowed: 1e-9 either way, 1e-12 below)")
    if slack == 0 and bad is None and not (abs(re_) <= 1e-12):
        bad = ("C05:basic-composition", f"slack 0: total epsilon {te!r} is not the plain sum {float(ke)!r} ({re_:.3e} relative)")
    return bad, (te, td, branch, re_, rd)


def check_perm(spends, slack, perm):
    a = impl_total(spends, slack)
    b = impl_total([spends[i] for i in perm], slack)
    if not (gen.rel_close(a[0], b[0], 1e-12) and gen.rel_close(a[1], b[1], 1e-12)):
        return ("C05:order-dependent", f"total {a} becomes {b} when the same spends are recorded in another order")
    return None


def check_mono(spends, slack, extra, pos):
    a = impl_total(spends, slack)
    b = impl_total(spends[:pos] + [extra] + spends[pos:], slack)
    # a true decrease is > rounding: allow 1e-13 relative (eps) / 1e-13 relative + 1e-300 (delta)
    if not (b[0] >= a[0] * (1 - 1e-13)):
        return ("C05:decreases:eps", f"total epsilon {a[0]!r} decreases to {b[0]!r} when the spend {extra} is added")
    if not (b[1] >= a[1] * (1 - 1e-13)):
        return ("C05:decreases:delta", f"total delta {a[1]!r} decreases to {b[1]!r} when the spend {extra} is added")
    return None


def direct(ctx, spends, slack, r):
    bad, info = check_kov(spends, slack)
    if bad:
        ctx.violation(bad[0], f"spends={_short(spends)} slack={slack!r}: {bad[1]}",
                      {"kind": "kov", "spends": spends, "slack": slack})
    ctx.count("branch_" + info[2])
    n = len(spends)
    if n >= 2:
        perms = [list(range(n - 1, -1, -1)), r.shuffle(list(range(n))),
                 sorted(range(n), key=lambda i: (-spends[i][1], spends[i][0]))]
        for p in perms:
            v = check_perm(spends, slack, p)
            if v:
                ctx.violation(v[0], f"spends={_short(spends)} slack={slack!r}: {v[1]}",
                              {"kind": "perm", "spends": spends, "slack": slack, "perm": p})
                break
    extras = [gen_spend(r, r.choice(["wide", "tiny", "mixed", "boundary"]), 0.1), (1e-12, 0.0), (0.0, 5e-324)]
    if spends:
        extras.append(spends[r.randint(0, n - 1)])
    for ex in extras:
        pos = n if r.chance(0.6) else r.randint(0, n)
        v = check_mono(spends, slack, ex, pos)
        if v:
            ctx.violation(v[0], f"spends={_short(spends)} slack={slack!r}: {v[1]}",
                          {"kind": "mono", "spends": spends, "slack": slack, "extra": list(ex), "pos": pos})
            break
    return info


def _short(spends):
    if len(spends) <= 6:
        return spends
    return f"{spends[:3]}…(+{len(spends) - 3} more, full list in the replay file)"


# ---------------------------------------------------------------- entry points

def check(ctx):
    r = ctx.fork("cases")
    n = ctx.budget(4000, 40000)
    cases = [(list(s), float(sl), "fixed") for s, sl in FIXED] + [gen_case(r) for _ in range(n)]
    impl = []
    lines = []
    rr = ctx.fork("direct")
    n_direct = ctx.budget(1500, 12000)         # the 60-digit reference is the expensive part
    for i, (spends, slack, style) in enumerate(cases):
        te, td = impl_total(spends, slack)
        impl.append((te, td))
        if i < n_direct + len(FIXED):
            direct(ctx, spends, slack, rr)
        nontrivial = slack > 0 and len(spends) >= 2
        ctx.case((len(spends), f2b(slack), hash(tuple(spends))) if nontrivial else None)
        flat = []
        for e, d in spends:
            flat += [f2b(e), f2b(d)]
        lines.append("totalcore " + " ".join(str(x) for x in [f2b(slack)] + flat))
    s0 = cases[len(FIXED)]
    ctx.sample({"spends": s0[0][:4], "n_spends": len(s0[0]), "slack": s0[1], "impl_total": impl[len(FIXED)]})
    ctx.sample({"spends": FIXED[2][0][:2], "n_spends": 20, "slack": 1e-3, "impl_total": impl[2],
                "kov_60_digits": str(kov_ref(*FIXED[2])[0])[:25]})
    if ctx.searching and ctx.violations:
        return
    outs = leanio.run_driver("Accountant", lines)
    for (spends, slack, style), (te, td), out in zip(cases, impl, outs):
        w = out.split()
        ok = w[0] == "ok"
        if ok:
            me, md = b2f(int(w[1])), b2f(int(w[2]))
            # exp differs by <= 1 ulp between numpy and Lean's libm; in `1 - exp(-eps)` that ulp is an ABSOLUTE 2^-53,
            # i.e. up to 2^-53 * eps/2 per term of the exp-sum: allow 4 of those on top of 1e-12 relative
            ok = (md == td) and ((me == te) if slack == 0 else
                                 gen.rel_close(me, te, 1e-12, 4.5e-16 * sum(e for e, _ in spends)))
        if ok:
            ctx.trace_ok()
        else:
            ctx.disagree("accountant.total", {"spends": spends, "slack": slack}, out, [te, td])
    ctx.count("totals_compared", len(lines))


def replay(ctx, data):
    from ..core import unjson_float as u
    d = data["data"]
    spends = [(float(u(e)), float(u(dl))) for e, dl in d["spends"]]
    slack = float(u(d["slack"]))
    if d["kind"] == "kov":
        return check_kov(spends, slack)[0] is not None
    if d["kind"] == "perm":
        return check_perm(spends, slack, d["perm"]) is not None
    if d["kind"] == "mono":
        return check_mono(spends, slack, tuple(float(u(x)) for x in d["extra"]), d["pos"]) is not None
    return False


def _witness_cancel(ctx):
    bad, info = check_kov([(1e-12, 0.0)], 1.0)
    return (bad is not None and bad[0] == SIG_CANCEL,
            f"total(spent_budget=[(1e-12, 0)], slack=1.0).epsilon = {info[0]!r}, KOV = 5e-25: relative deviation "
            f"{info[3]:.2e} (cancellation in 1-exp(-eps) and log(1/slack) for slack within ~1e-4 of 1)")


WITNESSES = {SIG_CANCEL: _witness_cancel}
