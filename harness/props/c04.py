"""C04 — budget accountant never lets the recorded spend exceed its ceiling (DESIGN.md §6 C04)."""
import math
from decimal import Decimal, getcontext
from fractions import Fraction

from ..shim import dp, np
from .. import gen, leanio
from ..gen import f2b, b2f

PROPERTY = "C04"
LEAN_MODULE = "DPL.Properties.C04"
TRUSTED = [
    "modelled, not verified: CPython float arithmetic = IEEE binary64 = Lean `Float` (+,-,*,/ bit-exact; exp/log/sqrt/pow "
    "to 1e-12 relative); list.sort on floats = ascending insertion sort",
    "operations on an accountant are: constructor (with prior spends), spend, check, slack setter, total, remaining, "
    "len, spent_budget (copy) — name-mangled private attributes are not 'reachable by a caller'",
    "static control-flow tie of check / spend / slack setter (harness/translate/accountantir.py -> DPL/Generated/"
    "C04Methods.lean): read from the source are the order of statements, every guard (atoms, comparison, connective), the "
    "arguments of total(), what is raised / appended / assigned and where the method returns; taken from the MODEL are "
    "check_epsilon_delta (checkEpsDelta) and the arithmetic of total() (totalCore/mkBudget; its header - which arguments "
    "are validated - is AccIR.totalOf, hand-written). Trusted: Budget(self.epsilon, self.delta) does not raise (ceilings "
    "validated by the constructor), float(x) is the identity on the carrier, a >= b is b <= a, a total() call inside a "
    "single-comparison guard is evaluated before the comparison, the return value of check is not used (only whether it "
    "raises), exceptions map to ValueError/BudgetError/TypeError by class NAME",
]
UNPROVED = [
    "that the exact-arithmetic total of the recorded spends exceeds the ceiling by at most 1e-12 relative is checked on "
    "every run with fractions/decimal. For slack 0 it is proved (sum_fp_bound, sum_fp_bound_binary64: exact sum <= "
    "ceiling * g^(n-1) <= ceiling * (1 + 1e-12) for n <= 9000 spends) RELATIVE TO the standard model of floating-point "
    "addition as an explicit hypothesis on the carrier (FpCarrier: 0 + x exact, a + b <= fl(a + b) * g, comparisons "
    "respect the valuation) — that IEEE binary64 satisfies it is cited, not proved; with slack > 0 (KOV/DRV terms with "
    "exp/log/sqrt) it is validated numerically only",
]
RULE = ("operation sequences (constructor with prior spends, spend, check, slack change, total, remaining, copy mutation, "
        "re-construction) generated from the seed; each is run on the real BudgetAccountant and on the Lean model "
        "(driver, IEEE doubles); a sequence is non-trivial when it contains at least one accepted and one refused "
        "operation; distinct by the tuple of (op, result) pairs")

getcontext().prec = 60
BudgetError = dp.utils.BudgetError


SIG_UNDERFLOW = "C04:over-ceiling-exact:epsilon-squared-underflow"


def _witness_underflow(ctx):
    acc = dp.BudgetAccountant(1e-170, 0.5, slack=0.1)
    n = 0
    try:
        for _ in range(50):
            acc.spend(5e-171, 0)
            n += 1
    except Exception:  # noqa
        pass
    exact = sum(Fraction(float(e)) for e, _ in acc.spent_budget)
    fails = exact > Fraction(1e-170) * (1 + Fraction(1, 10 ** 12))
    return fails, (f"BudgetAccountant(1e-170, 0.5, slack=0.1): {n} spends of (5e-171, 0) accepted, total() reports epsilon = "
                   f"{float(acc.total()[0])!r} while the exact sum of the recorded epsilons is {float(exact)!r} > the ceiling "
                   f"(epsilon**2 underflows for epsilon < ~1e-162, so the DRV/KOV terms evaluate to 0)")


WITNESSES = {SIG_UNDERFLOW: _witness_underflow}


def kind_of(exc):
    if exc is None:
        return "ok"
    if isinstance(exc, BudgetError):
        return "budgetError"
    if isinstance(exc, TypeError):
        return "typeError"
    if isinstance(exc, ValueError):
        return "valueError"
    if isinstance(exc, OverflowError):
        # a finite epsilon above ~1.34e154 makes `epsilon ** 2` raise OverflowError inside total(): the operation is refused
        # (and must be a no-op like any refusal) with a different exception class than the BudgetError the model
        # predicts - counted as an observation (DESIGN 11.5), compared as a refusal
        return "budgetError"
    return "other:" + type(exc).__name__


def exact_total(spent, slack):
    """KOV total in exact / 60-digit arithmetic from the doubles actually recorded"""
    if any(math.isinf(float(e)) for e, _ in spent):
        eps_sum = Fraction(10 ** 400)
    else:
        eps_sum = sum((Fraction(float(e)) for e, _ in spent), Fraction(0))
    prod = Fraction(1) - Fraction(float(slack))
    for _, d in spent:
        prod *= (1 - Fraction(float(d)))
    delta = 1 - prod
    if slack == 0 or eps_sum >= 10 ** 400:
        return eps_sum, delta
    D = Decimal
    exp_sum = D(0)
    sq = D(0)
    for e, _ in spent:
        e = D(float(e))
        if e.is_infinite():
            return Fraction(10 ** 400), delta
        ex = (-e).exp()
        exp_sum += (1 - ex) * e / (1 + ex)
        sq += e * e
    s = D(float(slack))
    naive = D(eps_sum.numerator) / D(eps_sum.denominator)
    drv = exp_sum + (2 * sq * (1 / s).ln()).sqrt()
    kov = exp_sum + (2 * sq * (D(1).exp() + sq.sqrt() / s).ln()).sqrt()
    m = min(naive, drv, kov)
    return Fraction(m), delta


def gen_sequence(r):
    """(ceil_eps, ceil_delta, slack, prior, ops)"""
    ce = r.choice([float("inf"), 1.0, 1.0, 0.5, 3.0, r.loguniform(1e-3, 100.0), r.loguniform(1e-3, 100.0),
                   r.choice([1e-9, 1e-12, 1e-15, 1e-20, 1e6, 1e12])])
    cd = r.choice([1.0, 0.0, 0.0, 1e-5, 0.5, r.uniform(0, 1), r.loguniform(1e-9, 1e-2),
                   # delta ceilings far below machine epsilon (1 - delta rounds to 1): the composition must still count
                   r.choice([1e-15, 1e-16, 1e-17, 1e-20, 2.0 ** -64, 1e-30, 1e-300, r.loguniform(1e-40, 1e-14)])])
    if ce == float("inf") and r.chance(0.5):
        cd = 1.0
    slack = 0.0
    if cd > 0 and r.chance(0.35):
        slack = r.choice([cd, cd / 2, cd * r.u01(), min(cd, 1e-6)])
    n_ops = r.randint(3, 40)
    base = (1.0 if math.isinf(ce) else ce)

    def spend_args():
        m = r.u01()
        if m < 0.25:
            e = base / r.choice([2, 3, 4, 5, 10, 10, 10, 20])      # sits on rounding boundaries
        elif m < 0.8:
            e = base * r.loguniform(1e-3, 0.6)
        elif m < 0.9:
            e = base * r.uniform(0.9, 1.2)
        elif m < 0.95:
            e = 0.0
        else:
            e = r.choice([-1.0, base * 1e-15, base * 1e-14, base * 2e-14, float("inf"), 1e200, 2e154, 1.7e308, 1e160])
        m = r.u01()
        if m < 0.55:
            d = 0.0
        elif m < 0.85:
            d = (cd if cd > 0 else 1e-6) * r.loguniform(1e-4, 0.7)
        elif m < 0.93:
            d = cd
        else:
            d = r.choice([-1e-9, 1.0, 1.0000001, 2.0, 1e-300])
        if r.chance(0.1):
            e = int(e) if not math.isinf(e) and e == int(e) else e
            d = int(d) if not math.isinf(d) and d == int(d) else d
        return e, d

    prior = [spend_args() for _ in range(r.randint(0, 4))] if r.chance(0.3) else []
    ops = []

    def slack_value():
        return r.choice([0.0, cd, cd / 2, cd * r.u01(), -0.1, cd + 0.1, 1e-9 if cd > 1e-9 else cd])
    for _ in range(n_ops):
        m = r.u01()
        if m < 0.08:
            # a cleared check followed — possibly after slack changes / queries — by a spend of the very same pair
            # (the library's own check-then-spend pattern; any 'clearance' remembered by check must not survive)
            a = spend_args()
            ops.append(("check",) + a)
            for _k in range(r.randint(0, 2)):
                ops.append(r.choice([("slack", slack_value()), ("total",), ("remaining", r.randint(1, 3)),
                                     ("slack", 0.0), ("mutate", r.randint(0, 5))]))
            ops.append(("spend",) + a)
            continue
        if m < 0.5:
            ops.append(("spend",) + spend_args())
        elif m < 0.62:
            ops.append(("check",) + spend_args())
        elif m < 0.72:
            ops.append(("slack", slack_value()))
        elif m < 0.8:
            ops.append(("total",))
        elif m < 0.88:
            ops.append(("remaining", r.randint(1, 6)))
        elif m < 0.95:
            ops.append(("mutate", r.randint(0, 5)))
        else:
            ops.append(("rebuild",))
    return ce, cd, slack, prior, ops


def _frac(v):
    return Fraction(v)


# Numeric types in which a caller may hand numbers to the accountant (all are numbers.Real).  A sequence run under a wrap
# is first QUANTISED to values that type represents exactly, so that the model (which receives the double with the same
# value) and the library see the same real numbers; what differs is only the arithmetic the library would do in that
# type if it did not convert (float32 accumulation of the total was a genuine defect, repaired in 88c013f).
WRAPS = {
    "f32": lambda v: np.float32(v),
    "f16": lambda v: np.float16(v),
    "f64": lambda v: np.float64(v),
    "ld": lambda v: np.longdouble(v),
    # fractions.Fraction is numbers.Real too, but numpy's ufuncs refuse it (np.log(1/slack) raises TypeError): a loud
    # failure of an exotic type, outside the model - not generated
}


def quantise(seq, wrap):
    """the same sequence with every number rounded to one the wrap's type represents exactly (None if it cannot be)"""
    if wrap in ("f32", "f16"):
        ty = np.float32 if wrap == "f32" else np.float16
        with np.errstate(all="ignore"):
            ce0 = seq[0]
            lo = 0.0 if math.isinf(ce0) else float(ty(ce0)) * 1e-14

            def q(v):
                v = float(ty(v))
                # `0 < epsilon < ceiling * 1e-14` is evaluated by numpy in the narrow type when epsilon is a float32 (the
                # Python-float threshold is the weak operand) - a razor-edge difference in the minimum-epsilon guard
                # that no property speaks about: keep typed values a factor 4 away from that threshold
                if lo > 0 and lo / 4 < v < lo * 4:
                    v = float(ty(lo * 8))
                return v
            ce, cd, slack, prior, ops = seq[:5]
            ops2 = []
            for op in ops:
                if op[0] in ("spend", "check"):
                    ops2.append((op[0], q(op[1]), q(op[2])))
                elif op[0] == "slack":
                    ops2.append(("slack", q(op[1])))
                else:
                    ops2.append(op)
            return (q(ce), q(cd), q(slack), [(q(e), q(d)) for e, d in prior], ops2, wrap)
    return tuple(seq[:5]) + (wrap,)


def snapshot(acc):
    t = acc.total()
    return (list(acc.spent_budget), acc.slack, (float(t[0]), float(t[1])))


def run_impl(seq, ctx=None, direct=True):
    """Run one sequence on the real accountant.  Returns (records, violation|None).
    records: list of (op-tuple, kind, len, slack, tot_eps, tot_delta, extra)"""
    ce, cd, slack, prior, ops = seq[:5]
    W = WRAPS[seq[5]] if len(seq) > 5 else (lambda v: v)   # numeric type in which every number reaches the library
    recs = []
    prior_list = [(W(e), W(d)) for e, d in prior] if prior else None     # stays reachable by the caller after construction
    try:
        acc = dp.BudgetAccountant(W(ce), W(cd), W(slack), spent_budget=prior_list)
        exc = None
    except Exception as e:  # noqa
        acc, exc = None, e
    recs.append((("new",), kind_of(exc), None))
    if acc is None:
        return recs, None

    def invariant(where):
        t = acc.total()
        if not (t[0] <= acc.epsilon and t[1] <= acc.delta):
            return ("C04:over-ceiling", f"total {tuple(t)} exceeds ceiling ({acc.epsilon},{acc.delta}) after {where}")
        ee, dd = exact_total(acc.spent_budget, acc.slack)
        if not math.isinf(acc.epsilon):
            if ee > Fraction(acc.epsilon) * (1 + Fraction(1, 10 ** 12)):
                sig = "C04:over-ceiling-exact"
                if acc.slack > 0 and all(float(e) < 1e-150 for e, _ in acc.spent_budget):
                    # open known finding: with slack > 0 and every epsilon below ~1e-162 the squares underflow, the
                    # advanced-composition terms come out as 0 and the ceiling is not enforced (SIG_UNDERFLOW)
                    sig = SIG_UNDERFLOW
                return (sig, f"exact epsilon total {float(ee)!r} > ceiling {acc.epsilon}*(1+1e-12) after {where}")
        if dd > Fraction(acc.delta) * (1 + Fraction(1, 10 ** 12)) + Fraction(1, 10 ** 30):
            return ("C04:over-ceiling-exact", f"exact delta total {float(dd)!r} > ceiling {acc.delta}*(1+1e-12) after {where}")
        return None

    if direct:
        v = invariant("construction")
        if v:
            return recs, v + ({"seq": seq, "step": -1},)
    for i, op in enumerate(ops):
        before = snapshot(acc)
        exc = None
        extra = None
        try:
            if op[0] == "spend":
                acc.spend(W(op[1]), W(op[2]))
            elif op[0] == "check":
                acc.check(W(op[1]), W(op[2]))
            elif op[0] == "slack":
                acc.slack = W(op[1])
            elif op[0] == "total":
                acc.total()
            elif op[0] == "remaining":
                rr = acc.remaining(op[1])
                extra = (float(rr[0]), float(rr[1]))
            elif op[0] == "mutate":
                lst = acc.spent_budget
                m = op[1]
                if m == 0:
                    lst.append((0.123, 0.0))
                elif m == 1:
                    lst.clear()
                elif m == 2 and lst:
                    lst[0] = (0.0, 0.0)
                elif m == 3 and lst:
                    del lst[-1]
                elif m == 4 and prior_list is not None:
                    prior_list.append((0.5 * (1.0 if math.isinf(ce) else ce), 0.0))   # the list the ctor was given
                elif m == 5 and prior_list is not None:
                    prior_list.clear()
                for attr, val in (("epsilon", 1e9), ("delta", 1.0), ("spent_budget", [])):
                    try:
                        setattr(acc, attr, val)
                    except AttributeError:
                        pass
            elif op[0] == "rebuild":
                acc2 = dp.BudgetAccountant(acc.epsilon, acc.delta, acc.slack, spent_budget=acc.spent_budget)
                if direct and snapshot(acc2) != before:
                    return recs, ("C04:reconstruct", f"re-construction from spent_budget differs: {snapshot(acc2)} vs {before}",
                                  {"seq": seq, "step": i})
        except Exception as e:  # noqa
            exc = e
        k = kind_of(exc)
        after = snapshot(acc)
        recs.append((op, k, (len(acc), after[1], after[2][0], after[2][1]), extra))
        if not direct:
            continue
        where = f"step {i} {op} -> {k}"
        if k != "ok" and after != before:
            return recs, ("C04:refused-not-noop", f"{where}: state changed from {before} to {after}", {"seq": seq, "step": i})
        if op[0] in ("check", "total", "remaining", "mutate", "rebuild") and after != before:
            return recs, ("C04:query-mutates", f"{where}: state changed from {before} to {after}", {"seq": seq, "step": i})
        if after[0][:len(before[0])] != before[0]:
            return recs, ("C04:not-append-only", f"{where}: recorded spends {before[0]} became {after[0]}", {"seq": seq, "step": i})
        if op[0] == "spend" and k == "ok" and after[0] != before[0] + [(op[1], op[2])]:
            return recs, ("C04:not-append-only", f"{where}: accepted spend not appended exactly", {"seq": seq, "step": i})
        if op[0] == "slack" and k == "ok" and after[1] != op[1]:
            return recs, ("C04:slack", f"{where}: slack is {after[1]}", {"seq": seq, "step": i})
        v = invariant(where)
        if v:
            return recs, v + ({"seq": seq, "step": i},)
    return recs, None


def driver_lines(seq):
    ce, cd, slack, prior, ops = seq[:5]
    flat = []
    for e, d in prior:
        flat += [f2b(e), f2b(d)]
    lines = ["new " + " ".join(str(x) for x in [f2b(ce), f2b(cd), f2b(slack)] + flat)]
    for op in ops:
        if op[0] in ("spend", "check"):
            lines.append(f"{op[0]} {f2b(op[1])} {f2b(op[2])}")
        elif op[0] == "slack":
            lines.append(f"slack {f2b(op[1])}")
        elif op[0] == "remaining":
            lines.append(f"remaining {op[1]}")
        else:
            lines.append("total")
    return lines


def near_boundary(seq, upto):
    """is the decision at step `upto` within rounding of the ceiling? (then model and code may legitimately differ
    when slack > 0, because exp/log differ by an ulp)"""
    ce, cd, slack, prior, ops = seq[:5]
    try:
        acc = dp.BudgetAccountant(ce, cd, slack, spent_budget=list(prior) if prior else None)
    except Exception:
        return False
    for op in ops[:upto]:
        try:
            if op[0] == "spend":
                acc.spend(op[1], op[2])
            elif op[0] == "slack":
                acc.slack = op[1]
        except Exception:
            pass
    op = ops[upto]
    try:
        if op[0] in ("spend", "check"):
            t = acc.total(spent_budget=acc.spent_budget + [(op[1], op[2])])
        elif op[0] == "slack":
            t = acc.total(slack=op[1])
        else:
            return False
    except Exception:
        return False
    return gen.rel_close(float(t[0]), acc.epsilon, 1e-11)


def compare(ctx, seq, recs, outs):
    """model output lines vs implementation records; returns False at the first disagreement"""
    slack_now = seq[2]
    # with slack > 0 the DRV/KOV terms contain (1 - exp(-eps)): numpy's exp (implementation) and libm's exp (Lean driver)
    # may differ by an ulp, which the cancellation amplifies to ~1.1e-16/eps relative - allow for exactly that
    eps_pos = [e for e, _ in seq[3] if 0 < e < math.inf] + [op[1] for op in seq[4] if op[0] in ("spend", "check")
                                                             and isinstance(op[1], float) and 0 < op[1] < math.inf]
    tol_s = 1e-12 + (4e-16 / min(eps_pos) if eps_pos else 0.0)
    for i, (rec, out) in enumerate(zip(recs, outs)):
        op, k, st, extra = rec[0], rec[1], rec[2], rec[3] if len(rec) > 3 else None
        w = out.split()
        if w[0] == "nostate":
            continue
        if w[0] != k:
            if i > 0 and near_boundary(seq, i - 1) and slack_now != 0:
                ctx.boundary_skipped += 1
                return True
            ctx.disagree("accountant.step", {"seq": seq, "step": i - 1, "op": op}, out, [k, st])
            return False
        if st is None:
            continue
        n, sl, te, td = st
        slack_now = sl
        ok = (int(w[1]) == n and b2f(int(w[2])) == sl)
        if ok and w[3].startswith("total-"):
            ok = False
        if ok:
            me, md = b2f(int(w[3])), b2f(int(w[4]))
            if sl == 0:
                ok = (me == te or (me != me and te != te)) and md == td
            else:
                ok = gen.rel_close(me, te, tol_s) and md == td
        if ok and extra is not None and len(w) >= 7:
            re_, rd = b2f(int(w[5])), b2f(int(w[6]))
            if sl == 0:
                ok = (re_ == extra[0]) and gen.rel_close(rd, extra[1], 1e-12, 1e-15)
            else:
                ok = gen.rel_close(re_, extra[0], 1e-9) and gen.rel_close(rd, extra[1], 1e-12, 1e-15)
        if not ok:
            ctx.disagree("accountant.step", {"seq": seq, "step": i - 1, "op": op}, out, [k, st, extra])
            return False
    return True


FIXED_SEQS = [
    # re-construction from a list whose first entry fills the ceiling, followed by 20000 entries below half an ulp of the
    # running sum: the constructor must refuse at the second entry (per-spend minimum / check) — a bulk total of the whole
    # list absorbs them and records an exact sum above ceiling * (1 + 1e-12)   (seeded change C04-14)
    (1.0, 0.0, 0.0, [(1.0, 0.0)] + [(1e-16, 0.0)] * 20000, [("total",)]),
    (1.0, 0.0, 0.0, [(0.5, 0.0), (0.5, 0.0)] + [(4e-17, 0.0)] * 30000, [("total",), ("rebuild",)]),
    (1.0, 0.5, 0.01, [], [("spend", 0.25, 0.1), ("check", 1e200, 0.9), ("total",), ("spend", 1e200, 0.9), ("total",), ("rebuild",)]),
    (float("inf"), 1.0, 0.0, [], [("spend", 1e200, 0.0), ("total",), ("slack", 0.5), ("check", 1e200, 0.0), ("remaining", 2)]),
    (1e-170, 0.5, 0.1, [], [("spend", 5e-171, 0.0)] * 6 + [("total",)]),          # open known finding SIG_UNDERFLOW
    (1.0, 1e-20, 0.0, [], [("spend", 0.1, 1e-17), ("total",), ("spend", 0.1, 1e-21)] + [("spend", 0.01, 2e-21)] * 6),
    (1.0, 1e-15, 0.0, [], [("spend", 0.001, 1e-16)] * 12 + [("remaining", 2)]),
    (1.0, 2.0 ** -64, 0.0, [], [("spend", 0.0, 2.0 ** -66)] * 6 + [("rebuild",)]),
    (1.0, 0.0, 0.0, [], [("spend", 0.1, 0.0)] * 11 + [("remaining", 1)]),
    (1.0, 0.5, 0.25, [(0.1, 0.1)], [("spend", 0.2, 0.1), ("slack", 0.5), ("slack", 0.0), ("spend", 0.7, 0.0),
                                    ("spend", 0.7, 0.0), ("check", 0.1, 0.5), ("rebuild",), ("mutate", 1)]),
    (float("inf"), 1.0, 0.0, [], [("spend", 5.0, 0.5), ("spend", 1.0, 1.0), ("spend", 1.0, 0.1), ("remaining", 2)]),
    (float("inf"), 0.5, 0.0, [], [("spend", 5.0, 0.4), ("spend", 1.0, 0.2), ("remaining", 2), ("slack", 0.1)]),
    (0.97, 1e-3, 1e-3, [], [("spend", 0.05, 0.0)] * 19 + [("check", 0.05, 0.0), ("slack", 0.0), ("spend", 0.05, 0.0), ("total",)]),
    (float("inf"), 1e-5, 0.0, [], [("check", 1.0, 1e-5), ("spend", 1.0, 1e-5), ("spend", 1.0, 1e-5), ("rebuild",)]),
    (1.0, 0.0, 0.0, [(0.25, 0.0), (0.25, 0.0)], [("mutate", 4), ("total",), ("spend", 0.5, 0.0), ("mutate", 5), ("total",),
                                                  ("spend", 0.5, 0.0), ("rebuild",)]),
]


def mutable_number_probe(ctx):
    """Numbers handed to the accountant as MUTABLE objects (0-d / one-element numpy arrays): whatever the accountant
    accepts must be stored by value - a later in-place change of the caller's object (or of the objects inside the list
    the accountant hands out) must alter neither the recorded spends, nor the slack, nor the ceilings, nor the total.
    A refusal (TypeError at HEAD for spends and ceilings) must be a no-op.  Direct check of the property; the model is
    not involved (for it a refused op is a no-op and an accepted number is a value)."""
    r = ctx.fork("mutable-numbers")

    def fsnap(acc):
        t = acc.total()
        return ([(float(e), float(d)) for e, d in acc.spent_budget], float(acc.slack), float(acc.epsilon),
                float(acc.delta), float(t[0]), float(t[1]))

    def mk(v, form):
        return np.array(v) if form == "0d" else np.array([v])

    def scribble(a, r_):
        with np.errstate(all="ignore"):
            how = r_.choice(["fill-small", "fill-big", "iadd", "zero"])
            if how == "fill-small":
                a.fill(1e-9)
            elif how == "fill-big":
                a.fill(0.9)
            elif how == "iadd":
                a += 0.75
            else:
                a.fill(0.0)
        return how

    for trial in range(ctx.budget(60, 600)):
        ce = r.choice([1.0, 2.5, float("inf")])
        cd = r.choice([0.5, 1.0, 0.25])
        form = r.choice(["0d", "0d", "1elem"])
        where = r.choice(["spend-eps", "spend-delta", "spend-both", "slack", "ceiling", "prior", "check"])
        base = min(ce, 1.0)
        objs = []
        desc = f"BudgetAccountant({ce}, {cd})"
        try:
            if where == "ceiling":
                oe, od = mk(ce, form), mk(cd, form)
                objs = [oe, od]
                acc = dp.BudgetAccountant(oe, od)
                desc = f"BudgetAccountant(np.array({ce}), np.array({cd})) [{form}]"
            elif where == "prior":
                oe, od = mk(0.25 * base, form), mk(0.125 * cd, form)
                objs = [oe, od]
                acc = dp.BudgetAccountant(ce, cd, 0.0, spent_budget=[(oe, od), (0.125 * base, 0.0)])
                desc += f" with spent_budget=[(array, array), …] [{form}]"
            else:
                acc = dp.BudgetAccountant(ce, cd)
        except Exception:  # noqa - refused at construction: nothing to alias
            ctx.case(("mutable", where, form, "ctor-refused"))
            ctx.trace_ok()
            continue
        try:
            acc.spend(0.25 * base, 0.0)
        except Exception:  # noqa
            pass
        before = fsnap(acc)
        accepted = True
        try:
            if where in ("spend-eps", "spend-both", "spend-delta", "check"):
                oe = mk(0.25 * base, form) if where != "spend-delta" else 0.25 * base
                od = mk(0.125 * cd, form) if where in ("spend-delta", "spend-both") else 0.0
                objs = [o for o in (oe, od) if isinstance(o, np.ndarray)]
                if where == "check":
                    acc.check(oe, od)
                else:
                    acc.spend(oe, od)
                desc += f".{'check' if where == 'check' else 'spend'}({'array' if isinstance(oe, np.ndarray) else oe}, " \
                        f"{'array' if isinstance(od, np.ndarray) else od}) [{form}]"
            elif where == "slack":
                os_ = mk(0.2 * cd, form)
                objs = [os_]
                acc.slack = os_
                desc += f".slack = np.array({0.2 * cd}) [{form}]"
        except Exception:  # noqa
            accepted = False
        mid = fsnap(acc)
        if not accepted and mid != before:
            ctx.violation("C04:refused-not-noop", f"{desc}: refused, but the state changed from {before} to {mid}",
                          {"kind": "mutable", "trial": trial})
            continue
        hows = [scribble(o, r) for o in objs]
        # ... and the objects inside the list the accountant hands out
        for e, d in acc.spent_budget:
            for o in (e, d):
                if isinstance(o, np.ndarray):
                    hows.append("handed-out:" + scribble(o, r))
        try:
            after = fsnap(acc)
        except Exception as e:  # noqa
            ctx.violation("C04:mutable-number-aliased", f"{desc}: after the caller changed its own array in place "
                          f"({hows}) total() raises {type(e).__name__}: {e}", {"kind": "mutable", "trial": trial})
            continue
        ctx.case(("mutable", where, form, "accepted" if accepted else "refused"))
        if after != mid:
            ctx.violation("C04:mutable-number-aliased",
                          f"{desc}: accepted; the caller then changed its own array in place ({hows}) and the accountant's "
                          f"state (spends, slack, ceiling eps, ceiling delta, total) went from {mid} to {after}",
                          {"kind": "mutable", "trial": trial})
        elif not (after[4] <= after[2] and after[5] <= after[3]):
            ctx.violation("C04:over-ceiling", f"{desc}: total {after[4:]} exceeds ceiling {after[2:4]}",
                          {"kind": "mutable", "trial": trial})
        else:
            ctx.trace_ok()


def check(ctx):
    mutable_number_probe(ctx)
    r = ctx.fork("seqs")
    n = ctx.budget(400, 6000)
    seqs = list(FIXED_SEQS) + [gen_sequence(r) for _ in range(n)]
    # numeric-type stratum: a share of the sequences is run again with every number handed over as numpy float32 /
    # float16 / float64 / longdouble or fractions.Fraction (quantised first, see WRAPS)
    rw = ctx.fork("wraps")
    typed = [quantise(s_, rw.choice(["f32", "f32", "f16", "f64", "ld"]))
             for s_ in (FIXED_SEQS + seqs[len(FIXED_SEQS):len(FIXED_SEQS) + max(40, n // 4)])]
    typed += [(1.0, 0.0, 0.0, [], [("spend", 0.5, 0.0), ("spend", float(np.float32(0.50000003)), 0.0), ("total",)], "f32"),
              (1.0, 0.0, 0.0, [], [("spend", 0.5, 0.0)] + [("spend", float(np.float32(1e-9)), 0.0)] * 30 +
               [("spend", 0.5, 0.0), ("total",)], "f32"),
              (float(np.float32(0.3)), 0.5, 0.0, [(0.125, 0.25)], [("remaining", 3), ("spend", 0.05, 0.125), ("rebuild",)], "f32")]
    seqs += [quantise(t[:5], t[5]) for t in typed]
    all_lines = []
    spans = []
    impl = []
    for seq in seqs:
        with np.errstate(all="ignore"):
            recs, viol = run_impl(seq)
        if viol:
            ctx.violation(viol[0], viol[1], viol[2])
        kinds = tuple((rec[0][0], rec[1]) for rec in recs)
        nontrivial = any(k == "ok" for _, k in kinds[1:]) and any(k != "ok" for _, k in kinds[1:])
        ctx.case(kinds if nontrivial else None)
        impl.append(recs)
        lines = driver_lines(seq)
        spans.append((len(all_lines), len(lines)))
        all_lines += lines
    ctx.sample({"ceiling": [seqs[5][0], seqs[5][1]], "slack": seqs[5][2], "prior": seqs[5][3], "ops": seqs[5][4][:8],
                "impl_results": [rec[1] for rec in impl[5]][:9]})
    outs = leanio.run_driver("Accountant", all_lines)
    for seq, recs, (a, ln) in zip(seqs, impl, spans):
        if compare(ctx, seq, recs, outs[a:a + ln]):
            ctx.trace_ok()
    ctx.count("ops_compared", len(all_lines))


def replay(ctx, data):
    d = data["data"]
    if d.get("kind") == "mutable":
        n0 = len(ctx.violations)
        mutable_number_probe(ctx)
        return len(ctx.violations) > n0
    seq = d["seq"]
    from ..core import unjson_float as u

    def fix(x):
        if isinstance(x, list):
            return tuple(fix(y) for y in x)
        return u(x)
    seq = fix(seq)
    seq = (seq[0], seq[1], seq[2], list(seq[3]), list(seq[4]))
    _, viol = run_impl(seq)
    return viol is not None


# ------------------------------------------------------------------ translator tie: formula anchors of accountant.py
GEN_PATH = __import__("os").path.join(leanio.LEAN, "DPL", "Generated", "AccountantFormulas.lean")


def generate(ctx):
    """The arithmetic of `total()` / `remaining()` is read from /repo's current AST, translated to Lean terms over ℝ and
    proved equal to what the hand-written model computes (lean/DPL/Model/Accountant.lean)."""
    import os
    from ..shim import REPO
    from ..translate.formulas import Anchors
    # control-flow tie (harness/translate/accountantir.py): the bodies of check / spend / the slack setter as IR terms,
    # proved to be the model's `Acc.step` by the scripts of DPL/Proofs/AccountantIR.lean.  A body the translator does not
    # understand is an unavailable static tie (never a violation, never a crash).
    from ..translate import accountantir
    try:
        methods = accountantir.generate(REPO, leanio.LEAN)
    except accountantir.TranslatorError as e:
        methods = {"build": [], "obligations": 0, "unavailable": [str(e)]}
    ctx.count("method_bodies_translated", len(methods.get("bodies", ())))
    A = Anchors(REPO)
    f, q = "diffprivlib/accountant.py", "BudgetAccountant.total"
    e_sum = A.to_lean(A.find(f, q, aug_target="epsilon_sum"), {"epsilon": "e"})
    e_exp = A.to_lean(A.find(f, q, aug_target="epsilon_exp_sum"), {"epsilon": "e"})
    e_sq = A.to_lean(A.find(f, q, aug_target="epsilon_sq_sum"), {"epsilon": "e"})
    env = {"epsilon_exp_sum": "x", "epsilon_sq_sum": "q", "slack": "s", "epsilon_sum": "n"}
    drv = A.to_lean(A.find(f, q, assign_target="total_epsilon_drv"), env)
    kov = A.to_lean(A.find(f, q, assign_target="total_epsilon_kov"), env)
    dstep = A.to_lean(A.find(f, "BudgetAccountant.__total_delta_safe", aug_target="prod"), {"prod": "p", "delta": "d"})
    rem = A.find(f, "BudgetAccountant.remaining", assign_target="delta")
    if not isinstance(rem, ast_IfExp()):
        raise RuntimeError("remaining(): `delta = … if … else …` anchor has a new shape")
    rdelta = A.to_lean(rem.body, {"self.delta": "cd", "spent_delta": "sd", "k": "(k : ℝ)"})
    src = f"""/- GENERATED on every run from /repo/diffprivlib/accountant.py by harness/props/c04.py — do not edit. -/
import DPL.Model.Accountant
import DPL.Proofs.RealCarrier
import Mathlib.Tactic.Ring
import Mathlib.Tactic.FieldSimp
namespace DPL.Gen.Accountant
open DPL

/-- `epsilon_sum += …` -/
noncomputable def sumTerm (e : ℝ) : ℝ := {e_sum}
/-- `epsilon_exp_sum += …` -/
noncomputable def expTerm (e : ℝ) : ℝ := {e_exp}
/-- `epsilon_sq_sum += …` -/
noncomputable def sqTerm (e : ℝ) : ℝ := {e_sq}
/-- `total_epsilon_drv = …` -/
noncomputable def drv (n x q s : ℝ) : ℝ := {drv}
/-- `total_epsilon_kov = …` -/
noncomputable def kov (n x q s : ℝ) : ℝ := {kov}
/-- `prod += …` in `__total_delta_safe` -/
noncomputable def deltaStep (p d : ℝ) : ℝ := p + ({dstep})
/-- `delta = 1 - (…) ** (1 / k)` in `remaining` -/
noncomputable def remDelta (cd sd : ℝ) (k : ℕ) : ℝ := {rdelta}

/-- the loop body of `total()` as coded is the step of the model's `epsSums` -/
theorem epsSums_step (spent : List (Spend ℝ)) (e d : ℝ) :
    (epsSums (spent ++ [⟨e, d⟩])).sum = (epsSums spent).sum + sumTerm e ∧
    (epsSums (spent ++ [⟨e, d⟩])).expSum = (epsSums spent).expSum + expTerm e ∧
    (epsSums (spent ++ [⟨e, d⟩])).sqSum = (epsSums spent).sqSum + sqTerm e := by
  refine ⟨?_, ?_, ?_⟩ <;>
    simp only [epsSums, List.foldl_append, List.foldl_cons, List.foldl_nil, sumTerm, expTerm, sqTerm, transc_exp] <;>
    ring

theorem drv_eq (sm : Sums ℝ) (s : ℝ) : drvEps sm s = drv sm.sum sm.expSum sm.sqSum s := by
  simp only [drvEps, drv, transc_sqrt, transc_log]

theorem kov_eq (sm : Sums ℝ) (s : ℝ) : kovEps sm s = kov sm.sum sm.expSum sm.sqSum s := by
  simp only [kovEps, kov, transc_sqrt, transc_log, transc_exp]

theorem deltaStep_eq (deltas : List ℝ) (slack : ℝ) :
    totalDeltaSafe deltas slack = (sortAsc (slack :: deltas)).foldl deltaStep 0 := by
  have h : (fun p d : ℝ => p + (d - p * d)) = deltaStep := by
    funext p d; unfold deltaStep; ring
  simp only [totalDeltaSafe, h]

/-- the closed form of `remaining`'s delta as coded is the model's -/
theorem remDelta_eq (cd sd : ℝ) (k : ℕ) :
    1 - Transc.pow ((1 - cd) / (1 - sd)) (1 / (k : ℝ)) = remDelta cd sd k := by
  simp only [remDelta, transc_pow]; rfl

end DPL.Gen.Accountant
"""
    os.makedirs(os.path.dirname(GEN_PATH), exist_ok=True)
    old = open(GEN_PATH).read() if os.path.exists(GEN_PATH) else None
    if old != src:
        with open(GEN_PATH, "w") as fh:
            fh.write(src)
    ctx.count("formula_anchors", 7)
    out = {"build": ["DPL.Generated.AccountantFormulas"] + methods["build"], "obligations": 5 + methods["obligations"]}
    if methods["unavailable"]:
        out["unavailable"] = ["accountant method IR: " + u for u in methods["unavailable"]]
    return out


def ast_IfExp():
    import ast
    return ast.IfExp
