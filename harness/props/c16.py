"""C16 — default-accountant scoping is well nested (DESIGN.md §6 C16).

A generated program (nested `with acc:` blocks of distinct accountants, set_default / pop_default / load_default,
library calls with and without an explicit accountant, exceptions that propagate through blocks and are caught) is
  * executed for real on BudgetAccountant objects (which accountant's spends moved, identity of `_default`),
  * run on the faithful Lean machine `runI` and on the Lean stack specification `runS` (driver Scope),
  * run on a stack oracle written here in Python.
real vs oracle differing = the property fails on the code (violation, replayable); real vs runI differing =
correspondence broken; runI vs runS differing on a well-bracketed program would contradict `scope_refines_stack`.
"""
import gc
import warnings
import weakref

from ..shim import dp, np
from .. import leanio, seams

PROPERTY = "C16"
LEAN_MODULE = "DPL.Properties.C16"
TRUSTED = [
    "modelled, not verified: Python's `with` protocol (__enter__, then the body, then __exit__ exactly once on normal "
    "and exceptional exit; a falsy return of __exit__ re-raises), class-attribute vs instance-attribute semantics, "
    "`del` of an absent attribute raises AttributeError",
    "every library entry point obtains its accountant through BudgetAccountant.load_default(accountant) at the moment "
    "the call (tools) or the constructor (models) runs — sampled here over tools and estimators, not proved",
    "static tie (harness/translate/scopeir.py, regenerated on every run): the bodies of __enter__, __exit__, set_default, "
    "pop_default and load_default are translated from the current AST into the IR of DPL/Model/ScopeIR.lean and the "
    "generated obligations prove that its interpreter, run on them, IS enterI / exitI / stepI; trusted there: the "
    "translator's reading of the eight statement and nine expression forms it accepts (anything else makes the tie "
    "unavailable), that the dropped `isinstance` guard of load_default only raises, and that the one other writer of "
    "`_default` (forest.py __sklearn_tags__: save, then restore in `finally`) is an identity on the scope state",
    "a single thread: `_default` is process-wide state; concurrent `with` blocks in several threads are outside the "
    "model and outside the property",
]
UNPROVED = []
RULE = ("well-bracketed programs generated from the seed: nesting depth <= 4 (quick) / 8 (thorough), 3-5 named "
        "accountants plus the lazily created defaults (which may themselves be entered or set later), set_default / "
        "pop_default / load_default / peek interleaved, library calls (tools and estimators) with and without explicit "
        "accountant (drawn from a menu of every tool x axis/keepdims/multi-quantile variant and eight estimators; the whole "
        "menu is also swept deterministically on every run), accountants that are plain or instances of user subclasses, "
        "`raise` propagating through one or more blocks into a `try` or to the top, the exception being a generic "
        "one, a diffprivlib BudgetError raised directly, or a BudgetError provoked for real (an exhausted finite "
        "accountant entered as a block whose body makes a library call; every cheap menu entry swept); never re-entering an "
        "open accountant. Non-trivial: depth >= 2, a default rewrite inside a block and an implicit call; distinct by "
        "the encoded program")

BA = dp.BudgetAccountant
_ARR = np.array([0.2, 0.7, 0.0, 1.0])
_X = np.array([[0.1, 0.2], [0.5, 0.9], [0.3, 0.3], [0.8, 0.1]])
_Y = np.array([0, 1, 0, 1])

_X2 = np.array([[0.1, 0.9], [0.5, 0.3], [0.7, 0.6]])
_ARRN = np.array([0.2, np.nan, 0.0, 1.0])
T = dp.tools


def _menu():
    """every tool x {axis=None, axis reducing every dimension of 1-D / 2-D data, axis=0 on 2-D, keepdims=True,
    multi-quantile}, the histograms, a direct load_default+spend, and a few estimator fits.  Each entry is
    (name, call(eps, accountant), cheap?)."""
    m = []
    shapes = [
        ("1d", lambda a: a[:, 0], {}),
        ("1d:axis=0", lambda a: a[:, 0], {"axis": 0}),
        ("1d:axis=-1", lambda a: a[:, 0], {"axis": -1}),
        ("2d:axis=(0,1)", lambda a: a, {"axis": (0, 1)}),
        ("2d:axis=0", lambda a: a, {"axis": 0}),
        ("2d:axis=1", lambda a: a, {"axis": 1}),
        ("1d:keepdims", lambda a: a[:, 0], {"keepdims": True}),
        ("2d:axis=0:keepdims", lambda a: a, {"axis": 0, "keepdims": True}),
    ]
    for name in ("mean", "var", "std", "sum", "nanmean", "nanvar", "nanstd", "nansum"):
        f = getattr(T, name)
        for sn, sel, kw in shapes:
            m.append((f"{name}:{sn}", lambda e, a, f=f, sel=sel, kw=kw: f(sel(_X2), epsilon=e, bounds=(0, 1), accountant=a, **kw), True))
    for sn, sel, kw in shapes:
        m.append((f"count_nonzero:{sn}", lambda e, a, sel=sel, kw=kw: T.count_nonzero(sel(_X2) > 0.4, epsilon=e, accountant=a, **kw), True))
    for name, q in (("quantile", 0.3), ("percentile", 30), ("median", None)):
        f = getattr(T, name)
        for sn, sel, kw in shapes:
            if q is None:
                m.append((f"{name}:{sn}", lambda e, a, f=f, sel=sel, kw=kw: f(sel(_X2), epsilon=e, bounds=(0, 1), accountant=a, **kw), True))
            else:
                m.append((f"{name}:{sn}", lambda e, a, f=f, q=q, sel=sel, kw=kw: f(sel(_X2), q, epsilon=e, bounds=(0, 1), accountant=a, **kw), True))
    m.append(("quantile:multi", lambda e, a: T.quantile(_ARR, [0.25, 0.75], epsilon=e, bounds=(0, 1), accountant=a), True))
    m.append(("quantile:multi:axis=0", lambda e, a: T.quantile(_ARR, [0.25, 0.75], epsilon=e, bounds=(0, 1), axis=0, accountant=a), True))
    m.append(("percentile:multi", lambda e, a: T.percentile(_ARR, [10, 90], epsilon=e, bounds=(0, 1), accountant=a), True))
    m.append(("nanmean:nan-data", lambda e, a: T.nanmean(_ARRN, epsilon=e, bounds=(0, 1), accountant=a), True))
    m.append(("histogram", lambda e, a: T.histogram(_ARR, epsilon=e, bins=3, range=(0, 1), accountant=a), True))
    m.append(("histogram2d", lambda e, a: T.histogram2d(_X[:, 0], _X[:, 1], epsilon=e, bins=2, range=[(0, 1), (0, 1)], accountant=a), True))
    m.append(("histogramdd", lambda e, a: T.histogramdd(_X, epsilon=e, bins=2, range=[(0, 1), (0, 1)], accountant=a), True))
    m.append(("load+spend", lambda e, a: BA.load_default(a).spend(e, 0), True))
    # estimators resolve the accountant in the constructor; constructed and fitted in place
    MD = dp.models
    m.append(("GaussianNB", lambda e, a: MD.GaussianNB(epsilon=e, bounds=(0, 1), accountant=a).fit(_X, _Y), False))
    m.append(("StandardScaler", lambda e, a: MD.StandardScaler(epsilon=e, bounds=(0, 1), accountant=a).fit(_X), False))
    m.append(("PCA", lambda e, a: MD.PCA(n_components=1, epsilon=e, bounds=(0, 1), data_norm=1.5, centered=True,
                                         accountant=a).fit(_X), False))
    m.append(("KMeans", lambda e, a: MD.KMeans(2, epsilon=e, bounds=(0, 1), accountant=a).fit(_X), False))
    m.append(("LinearRegression", lambda e, a: MD.LinearRegression(epsilon=e, bounds_X=(0, 1), bounds_y=(0, 1),
                                                                   accountant=a).fit(_X, _Y.astype(float)), False))
    m.append(("LogisticRegression", lambda e, a: MD.LogisticRegression(epsilon=e, data_norm=1.5, accountant=a).fit(_X, _Y), False))
    m.append(("DecisionTreeClassifier", lambda e, a: MD.DecisionTreeClassifier(max_depth=2, epsilon=e, bounds=(0, 1),
                                                                               classes=[0, 1], accountant=a).fit(_X, _Y), False))
    m.append(("RandomForestClassifier", lambda e, a: MD.RandomForestClassifier(2, max_depth=2, epsilon=e, bounds=(0, 1),
                                                                               classes=[0, 1], accountant=a).fit(_X, _Y), False))
    return m


TOOLS = _menu()
CHEAP = [i for i, t in enumerate(TOOLS) if t[2]]
FAST = [i for i in CHEAP if "2d:axis=0" not in TOOLS[i][0] and "2d:axis=1" not in TOOLS[i][0]]   # single-cell results
MODELS = [i for i, t in enumerate(TOOLS) if not t[2]]

# accountant kinds: 0 = plain BudgetAccountant, 1 = trivial subclass, 2 = subclass of a subclass, 3 = subclass overriding
# spend to keep an audit trail.  The property (and the model) does not distinguish them.  The classes are created afresh
# for every program, so that nothing a run leaves on a class can leak into the next program (replays are exact).
N_KINDS = 4


def _make_classes():
    class AuditedAccountant(BA):
        pass

    class TeamAccountant(AuditedAccountant):
        pass

    class LoggingAccountant(BA):
        def spend(self, epsilon, delta):
            self.__dict__.setdefault("audit", []).append((epsilon, delta))
            return super().spend(epsilon, delta)
    return [BA, AuditedAccountant, TeamAccountant, LoggingAccountant]


def _kinds(k):
    """FIXED / REENTRANT / old replay records give a count: all plain"""
    return [0] * k if isinstance(k, int) else list(k)


class Boom(Exception):
    pass


BudgetError = dp.utils.BudgetError
# what may propagate through blocks in a real run: the generic exception, or the library's own BudgetError (the model
# does not distinguish exception types: __exit__ must restore for all of them)
LEAVES = (Boom, BudgetError)
# ["raise"] / ["raise", "boom"]: `raise Boom()`;  ["raise", "budget"]: `raise BudgetError(...)` directly;
# ["raise", "refused", tool, kind]: a BudgetError provoked for real: `with z: tool(epsilon=..)` where z is a fresh finite
# accountant (class `kind`) that is already exhausted, so the library call in z's own block is refused.  By the property
# that sub-block is the identity on the default, so all three are the model's `R`.


# ------------------------------------------------------------------ program representation
# items: ["set", id] ["pop"] ["call", id|None, tool] ["load", id|None] ["peek"] ["raise"] ["block", id, items] ["try", items]
# id = "n3" | "f0"

def encode(items, show_gc=False):
    """prefix encoding understood by lean/Drivers/Scope.lean (show_gc: for messages only, `G` is not a model token)"""
    out = []

    def go(its):
        for it in its:
            k = it[0]
            if k == "set":
                out.append("S" + it[1])
            elif k == "pop":
                out.append("P")
            elif k == "call":
                out.append("C" + (it[1] or "-"))
            elif k == "load":
                out.append("L" + (it[1] or "-"))
            elif k == "peek":
                out.append("K")
            elif k == "gc":
                if show_gc:                 # garbage collection is not an event of the model
                    out.append("G")
            elif k == "raise":
                out.append("R")
                return                      # whatever follows a raise in the same list is unreachable and not encoded
            elif k == "block":
                out.append("B" + it[1])
                go(it[2])
            elif k == "try":
                out.append("T")
                go(it[1])
            else:
                raise ValueError(k)
        out.append("N")
    go(items)
    return " ".join(out)


def instrument(items):
    """a peek after every state-touching operation, so that the default is observed after each step"""
    out = []
    for it in items:
        if it[0] == "block":
            out.append(["block", it[1], instrument(it[2])])
        elif it[0] == "try":
            out.append(["try", instrument(it[1])])
        else:
            out.append(it)
            if it[0] in ("set", "pop", "call", "load"):
                out.append(["peek"])
    return out


# ------------------------------------------------------------------ the stack oracle (the property, in Python)

def run_oracle(items):
    """returns (events, meta, flag, final); meta[i] explains event i (used to classify a failure)"""
    stack = [None]
    fresh = [0]
    ev, meta = [], []
    last = ["start"]
    exc_in_flight = [False]

    def resolve():
        if stack[-1] is None:
            stack[-1] = "f%d" % fresh[0]
            fresh[0] += 1
        return stack[-1]

    def emit(e, m):
        ev.append(e)
        meta.append(m)

    def go(its):
        for it in its:
            k = it[0]
            if k in ("set", "call", "load", "block") and it[1] and it[1][0] == "f" and int(it[1][1:]) >= fresh[0]:
                raise ValueError("program names a lazily created default that does not exist yet")
            if k == "gc":
                continue
            if k == "set":
                stack[-1] = it[1]
            elif k == "pop":
                emit("p:" + (stack[-1] or "-"), "pop")
                stack[-1] = None
            elif k == "call":
                emit("c:" + (it[1] if it[1] else resolve()), "explicit" if it[1] else "implicit")
                last[0] = ("call-explicit:" if it[1] else "call-implicit:") + TOOLS[it[2]][0].split(":")[0]
                continue
            elif k == "load":
                emit("l:" + (it[1] if it[1] else resolve()), "explicit" if it[1] else "implicit")
            elif k == "peek":
                emit("k:" + (stack[-1] or "-"), "after-" + last[0])
            elif k == "raise":
                raise Boom()
            elif k == "block":
                stack.append(it[1])
                emit("e:" + it[1], "enter")
                last[0] = "enter"
                try:
                    go(it[2])
                    stack.pop()
                    emit("x:" + (stack[-1] or "-"), "normal")
                except Boom:
                    stack.pop()
                    emit("x:" + (stack[-1] or "-"), "exception")
                    last[0] = "exit"
                    raise
                last[0] = "exit"
                continue
            elif k == "try":
                try:
                    go(it[1])
                    emit("t:ok", "try")
                except Boom:
                    emit("t:boom", "try")
                last[0] = "try"
                continue
            last[0] = k
    try:
        go(items)
        flag = "ok"
    except Boom:
        flag = "boom"
    return ev, meta, flag, stack[-1] or "-"


# ------------------------------------------------------------------ the real thing

def _spec(k):
    """program spec -> dict(kinds, anon, hold_fresh).  Old forms: a count (all plain) or a list of kinds."""
    if isinstance(k, dict):
        return {"kinds": list(k["kinds"]), "anon": list(k.get("anon", [])), "hold_fresh": bool(k.get("hold_fresh", True))}
    return {"kinds": _kinds(k), "anon": [], "hold_fresh": True}


def run_real(items, spec):
    """execute on real BudgetAccountant (or subclass) objects; returns (events, flag, final).

    Lifetime: the harness holds a STRONG reference only to the accountants the program itself would hold in a variable.
    Anonymous accountants (spec["anon"]: created inline by `Cls().set_default()` / `with Cls():`) and — unless
    spec["hold_fresh"] — the defaults the library creates lazily are held by weak reference only and recognised by a
    tag written on the object, so that they live exactly as long as the library keeps them alive."""
    ev = []
    spec = _spec(spec)
    kinds, anon, hold_fresh = spec["kinds"], set(spec["anon"]), spec["hold_fresh"]
    with seams.fresh_default_accountant(), warnings.catch_warnings():
        warnings.simplefilter("ignore")
        classes = _make_classes()
        named = {}                      # index -> strong reference (held accountants only)
        for i, k in enumerate(kinds):
            if i not in anon:
                named[i] = classes[k]()
                named[i].__dict__["_verif_tag"] = "n%d" % i
        weak = []                       # weak references to every tagged accountant the harness does not hold
        strong_fresh = []
        n_fresh = [0]
        n_call = [0]

        def ident(o):
            if o is None:
                return "-"
            for i, a in named.items():
                if a is o:
                    return "n%d" % i
            if isinstance(o, BA):
                tag = o.__dict__.get("_verif_tag")
                if tag is None:             # a lazily created default: identified by creation order
                    tag = "f%d" % n_fresh[0]
                    n_fresh[0] += 1
                    o.__dict__["_verif_tag"] = tag
                    weak.append(weakref.ref(o))
                    if hold_fresh:
                        strong_fresh.append(o)
                elif tag[0] == "n" and int(tag[1:]) in named:
                    return tag + "!copy"    # carries a held accountant's tag but is another object
                return tag
            return "?" + type(o).__name__

        def obj(i):
            if i[0] == "n":
                return named[int(i[1:])]
            for w in weak:
                o = w()
                if o is not None and o.__dict__.get("_verif_tag") == i:
                    return o
            raise LookupError("the program names %s, which no longer exists" % i)

        def make_anon(i):
            o = classes[kinds[int(i[1:])]]()
            o.__dict__["_verif_tag"] = i
            weak.append(weakref.ref(o))
            return o

        def is_anon(i):
            return i[0] == "n" and int(i[1:]) in anon

        def do_call(it):
            """one library call; every reference taken here dies when this function returns"""
            n_call[0] += 1
            eps = 0.001 * n_call[0]
            known = list(named.values()) + [o for o in (w() for w in weak) if o is not None]
            before = [len(a.spent_budget) for a in known]
            TOOLS[it[2]][1](eps, obj(it[1]) if it[1] else None)
            ident(BA._default)                      # registers a default created by this call
            moved = []

            def amount_ok(new):
                # one spend of eps, or (multi-cell results) several spends that add up to eps; never any delta
                return all(d == 0 for _, d in new) and abs(sum(e for e, _ in new) - eps) <= 1e-9 * eps
            for a, b in zip(known, before):
                sb = a.spent_budget
                if len(sb) != b:
                    moved.append(ident(a) + ("" if amount_ok(sb[b:]) else "!amount"))
            seen = {id(a) for a in known}
            for w in list(weak):
                a = w()
                if a is not None and id(a) not in seen and len(a.spent_budget):
                    moved.append(ident(a) + ("" if amount_ok(a.spent_budget) else "!amount"))
            return "c:" + ("+".join(moved) if moved else "nobody")

        def go(its):
            for it in its:
                k = it[0]
                if k == "set":
                    if is_anon(it[1]):
                        make_anon(it[1]).set_default()          # `Cls().set_default()`: nobody keeps the object
                    else:
                        obj(it[1]).set_default()
                elif k == "pop":
                    ev.append("p:" + ident(BA.pop_default()))
                elif k == "gc":
                    gc.collect()
                elif k == "call":
                    ev.append(do_call(it))
                elif k == "load":
                    ev.append("l:" + ident(BA.load_default(obj(it[1]) if it[1] else None)))
                elif k == "peek":
                    ev.append("k:" + ident(BA._default))
                elif k == "raise":
                    how = it[1] if len(it) > 1 else "boom"
                    if how == "budget":
                        raise BudgetError("raised by the program inside the block")
                    if how == "refused":
                        z = classes[it[3] % N_KINDS](epsilon=1e-3, delta=0)
                        z.__dict__["_verif_tag"] = "z"
                        z.spend(1e-3, 0)                        # exhausted before it is entered
                        with z:
                            TOOLS[it[2]][1](0.5, None)          # no accountant: resolves to z, which refuses
                        raise AssertionError("the exhausted accountant z did not refuse the call")
                    raise Boom()
                elif k == "block":
                    entered = [False]
                    try:
                        with (make_anon(it[1]) if is_anon(it[1]) else obj(it[1])):      # `with Cls():` when anonymous
                            entered[0] = True
                            ev.append("e:" + ident(BA._default))
                            go(it[2])
                    finally:
                        if entered[0]:
                            ev.append("x:" + ident(BA._default))
                elif k == "try":
                    try:
                        go(it[1])
                        ev.append("t:ok")
                    except LEAVES:
                        ev.append("t:boom")
                    except AttributeError:
                        ev.append("t:attr")
        try:
            go(items)
            flag = "ok"
        except LEAVES:
            flag = "boom"
        except AttributeError:
            flag = "attr"
        except Exception as e:  # noqa
            flag = "other:" + type(e).__name__
        final = ident(BA._default)
    return ev, flag, final


# ------------------------------------------------------------------ classification of a failure

def classify(ev_o, meta, flag_o, fin_o, ev_r, flag_r, fin_r):
    """None if the real run equals the oracle, else (signature, description, index)"""
    for i, (a, b) in enumerate(zip(ev_o, ev_r)):
        if a == b:
            continue
        m = meta[i]
        if a[0] != b[0]:
            if m == "exception" or a == "t:boom":
                return ("C16:exception-swallowed", f"event {i}: an exception should be propagating here (expected {a}), "
                        f"but execution continued with {b}", i)
            return "C16:trace-shape", f"event {i}: expected {a}, observed {b}", i
        kind = a[0]
        if kind == "x":
            sig = "C16:exit-does-not-restore" if m == "normal" else "C16:exit-by-exception-does-not-restore"
            return sig, f"event {i}: after __exit__ ({m}) the default should be {a[2:]}, it is {b[2:]}", i
        if kind == "c":
            sig = "C16:explicit-not-preferred" if m == "explicit" else "C16:wrong-accountant-charged"
            return sig, f"event {i}: call ({m} accountant) should charge {a[2:]}, charged {b[2:]}", i
        if kind == "l":
            sig = "C16:explicit-not-preferred" if m == "explicit" else "C16:load-default-wrong"
            return sig, f"event {i}: load_default ({m}) should return {a[2:]}, returned {b[2:]}", i
        if kind == "e":
            return "C16:enter-does-not-install", f"event {i}: inside `with {a[2:]}` the default is {b[2:]}", i
        if kind == "p":
            return "C16:pop-default-wrong-result", f"event {i}: pop_default() should return {a[2:]}, returned {b[2:]}", i
        if kind == "k":
            sig = {"after-set": "C16:set-default-ineffective", "after-pop": "C16:pop-default-does-not-clear",
                   "after-load": "C16:load-rewrites-default"}.get(m, "C16:default-drift")
            if m.startswith("after-call-explicit:"):
                sig = "C16:explicit-call-rewrites-default:" + m.split(":", 1)[1]
            elif m.startswith("after-call-implicit:"):
                sig = "C16:call-rewrites-default:" + m.split(":", 1)[1]
            return sig, f"event {i}: {m}: the default should be {a[2:]}, it is {b[2:]}", i
        if kind == "t":
            sig = "C16:exception-swallowed" if a == "t:boom" else "C16:unexpected-exception"
            return sig, f"event {i}: try body should end with {a[2:]}, ended with {b[2:]}", i
        return "C16:trace-shape", f"event {i}: expected {a}, observed {b}", i
    if len(ev_o) != len(ev_r) or flag_o != flag_r:
        sig = "C16:exception-swallowed" if flag_o == "boom" and flag_r == "ok" else "C16:unexpected-exception"
        return sig, (f"propagating exception should be {flag_o}, is {flag_r}; {len(ev_o)} events expected, "
                     f"{len(ev_r)} observed; tail {ev_r[len(ev_o) - 1:len(ev_o) + 2]}"), min(len(ev_o), len(ev_r))
    if fin_o != fin_r:
        return "C16:final-default", f"final default should be {fin_o}, is {fin_r}", len(ev_o)
    return None


# ------------------------------------------------------------------ generator

def gen_program(r, max_depth, thorough):
    n_named = r.randint(3, 5)
    mode = r.u01()
    if mode < 0.3:
        kinds = [0] * n_named                                   # all plain
    elif mode < 0.45:
        kinds = [r.randint(1, N_KINDS - 1)] * n_named           # all of one subclass
    else:
        kinds = [r.randint(0, N_KINDS - 1) for _ in range(n_named)]
    target = r.randint(1, max_depth)
    p_block = r.choice([0.2, 0.3, 0.45])
    p_model = 0.10 if thorough else 0.03

    def tool():
        u = r.u01()
        return r.choice(MODELS) if u < p_model else (r.choice(CHEAP) if u < p_model + 0.2 else r.choice(FAST))
    budget = [r.randint(6, 36)]
    sim = {"stack": [None], "fresh": 0}
    stats = {"depth": 0, "rewrite_in_block": False, "implicit": False, "raise": False, "fresh_entered": False,
             "raise_budget": False}
    # lifetime: accountants nobody but the library references
    anon = r.sample(range(n_named), r.randint(1, 2)) if r.chance(0.5) else []
    hold_fresh = r.chance(0.5)
    anon_unused = ["n%d" % i for i in anon]          # an anonymous accountant can be named once: where it is created
    p_gc = r.choice([0.0, 0.06, 0.15]) if (anon or not hold_fresh) else 0.02

    def ids():
        """accountants the program holds in a variable"""
        return ["n%d" % i for i in range(n_named) if i not in anon] + \
               (["f%d" % i for i in range(sim["fresh"])] if hold_fresh else [])

    def take_anon(p):
        if anon_unused and r.chance(p):
            return anon_unused.pop(r.randint(0, len(anon_unused) - 1))
        return None

    def resolve():
        if sim["stack"][-1] is None:
            sim["stack"][-1] = "f%d" % sim["fresh"]
            sim["fresh"] += 1

    def gen_list(depth, open_ids):
        """returns (items, raised)"""
        items = []
        n = r.randint(0 if depth else 1, 6)
        force_at = r.randint(0, n - 1) if (n and depth < target and r.chance(0.8)) else -1
        for j in range(n):
            if budget[0] <= 0 and j != force_at:
                break
            budget[0] -= 1
            if r.chance(p_gc):
                items.append(["gc"])
            u = r.u01()
            can_block = depth < target and len([i for i in ids() if i not in open_ids]) > 0
            if can_block and (u < p_block or j == force_at):
                cand = [i for i in ids() if i not in open_ids]
                a = take_anon(0.2) or r.choice(cand)
                if a[0] == "f":
                    stats["fresh_entered"] = True
                sim["stack"].append(a)
                stats["depth"] = max(stats["depth"], depth + 1)
                body, raised = gen_list(depth + 1, open_ids + [a])
                sim["stack"].pop()
                items.append(["block", a, body])
                if raised:
                    if r.chance(0.3):
                        items.append(["call", None, 0])      # dead code: must not run
                    return items, True
                continue
            u = r.u01()
            if u < 0.40:
                if r.chance(0.4):
                    items.append(["call", r.choice(ids()), tool()])
                else:
                    resolve()
                    stats["implicit"] = True
                    items.append(["call", None, tool()])
            elif u < 0.50:
                if r.chance(0.3):
                    items.append(["load", r.choice(ids())])
                else:
                    resolve()
                    items.append(["load", None])
            elif u < 0.66:
                sim["stack"][-1] = take_anon(0.45) or r.choice(ids())
                items.append(["set", sim["stack"][-1]])
                stats["rewrite_in_block"] |= depth > 0
            elif u < 0.78:
                sim["stack"][-1] = None
                items.append(["pop"])
                stats["rewrite_in_block"] |= depth > 0
            elif u < 0.88:
                body, _ = gen_list(depth, open_ids)
                items.append(["try", body])
            elif u < 0.94 and depth > 0:
                v = r.u01()
                if v < 0.35:
                    items.append(["raise"])
                elif v < 0.65:
                    items.append(["raise", "budget"])
                    stats["raise_budget"] = True
                else:
                    items.append(["raise", "refused", r.choice(FAST if r.chance(0.8) else CHEAP), r.randint(0, N_KINDS - 1)])
                    stats["raise_budget"] = True
                stats["raise"] = True
                return items, True
            else:
                items.append(["peek"])
        return items, False

    items, _ = gen_list(0, [])
    stats["subclass"] = any(kinds)
    used_anon = [i for i in anon if "n%d" % i not in anon_unused]
    stats["lifetime"] = bool(used_anon) or (not hold_fresh and sim["fresh"] > 0)
    return {"kinds": kinds, "anon": used_anon, "hold_fresh": hold_fresh}, items, stats


FIXED = [
    # the demo program of DPL/Properties/C16.lean
    (3, [["call", None, 0], ["block", "n0", [["call", None, 1], ["try", [["block", "n1", [
        ["pop"], ["call", None, 2], ["block", "n2", [["call", "n1", 0], ["raise"]]], ["call", None, 0]]]]],
        ["call", None, 3]]], ["call", None, 0]]),
    # test_with_statement-like: one level, and an exception through two levels to the top
    (3, [["set", "n2"], ["block", "n0", [["call", None, 0], ["block", "n1", [["call", None, 0], ["raise"]]]]]]),
    # enter the lazily created default itself, rewrite inside, leave
    (3, [["load", None], ["block", "n0", [["block", "f0", [["set", "n1"], ["call", None, 0]]], ["call", None, 0]]],
         ["call", None, 0]]),
    # the saved default is None: after exit a new default is created lazily
    (3, [["block", "n0", [["call", None, 0]]], ["call", None, 0], ["block", "n1", [["pop"], ["call", None, 0]]],
         ["call", None, 0]]),
    # open accountant set as default deeper down (not a re-entry)
    (4, [["block", "n0", [["block", "n1", [["set", "n0"], ["call", None, 0], ["block", "n2", [["set", "n1"], ["raise"]]]]]]]]),
]

REENTRANT = [
    (2, [["set", "n1"], ["block", "n0", [["block", "n0", []]]], ["peek"]]),                   # = reentrant_cex
    (2, [["set", "n1"], ["try", [["block", "n0", [["block", "n0", [["call", None, 0]]], ["call", None, 0]]]]], ["peek"]]),
    (3, [["block", "n0", [["block", "n1", [["block", "n0", [["raise"]]]]]]]]),
]


def split_out(line):
    """driver answer -> (wf, (events, flag, final) for I, same for S)"""
    wf, rest = line.split(" I ", 1)
    i_part, s_part = rest.split(" ;; S ", 1)

    def p(s):
        evs, flag, fin = s.split(" | ")
        return evs.split(), flag.strip(), fin.strip()
    return wf.strip() == "1", p(i_part), p(s_part)


def direct(n_named, items):
    """the property checked directly on the code: real run vs stack oracle"""
    inst = instrument(items)
    ev_o, meta, flag_o, fin_o = run_oracle(inst)
    ev_r, flag_r, fin_r = run_real(inst, n_named)
    bad = classify(ev_o, meta, flag_o, fin_o, ev_r, flag_r, fin_r)
    return inst, (ev_r, flag_r, fin_r), (ev_o, flag_o, fin_o), bad


def report(ctx, n_named, items, shrunk_from=None):
    inst, (ev_r, flag_r, fin_r), (ev_o, flag_o, fin_o), bad = direct(n_named, items)
    sig, what, idx = bad
    spec = _spec(n_named)
    kind_names = ["BudgetAccountant", "subclass", "sub-subclass", "subclass overriding spend"]
    calls = _calls_of(items)
    raises = _raises_of(items)
    life = ""
    if spec["anon"] or not spec["hold_fresh"]:
        life = ("; referenced by the library only (created inline, never stored): "
                + (", ".join("n%d" % i for i in spec["anon"]) or "none of the named ones")
                + ("" if spec["hold_fresh"] else " and every lazily created default f<k>") + "; G = gc.collect()")
    ctx.violation(sig, f"{what}; program `{encode(inst, show_gc=True)}`; accountants n0.. are "
                       f"{[kind_names[k] for k in spec['kinds']]}{life}"
                       + (f"; library calls in order: {calls}" if calls else "")
                       + (f"; the R ops in order: {raises}" if raises else ""),
                  {"n_named": spec, "raises": raises, "items": items, "program": encode(inst, show_gc=True), "calls": calls, "event_index": idx,
                   "expected": ev_o[max(0, idx - 3):idx + 2], "observed": ev_r[max(0, idx - 3):idx + 2],
                   "expected_flag": flag_o, "observed_flag": flag_r, "expected_final": fin_o, "observed_final": fin_r,
                   "shrunk_from": shrunk_from})


def _raises_of(items):
    out = []
    for it in items:
        if it[0] == "raise":
            how = it[1] if len(it) > 1 else "boom"
            out.append({"boom": "raise Boom()", "budget": "raise diffprivlib.utils.BudgetError(..)"}.get(how) or
                       "with z: %s(epsilon=0.5) where z = accountant(epsilon=1e-3, delta=0), already exhausted "
                       "-> BudgetError" % TOOLS[it[2]][0])
            break
        if it[0] == "block":
            out += _raises_of(it[2])
        elif it[0] == "try":
            out += _raises_of(it[1])
    return out


def _calls_of(items):
    out = []
    for it in items:
        if it[0] == "call":
            out.append(TOOLS[it[2]][0] + ("(accountant=%s)" % it[1] if it[1] else "()"))
        elif it[0] == "block":
            out += _calls_of(it[2])
        elif it[0] == "try":
            out += _calls_of(it[1])
    return out


def sweep_programs():
    """deterministic part of every run: every menu entry with an explicit accountant (no default at all; inside a
    block under a set default) and without one; every accountant kind entered with and without a prior default, twice"""
    progs = []
    for t in range(len(TOOLS)):
        k = [(t + j) % N_KINDS for j in range(3)]
        progs.append((k, [["call", "n0", t], ["call", None, t]]))
        progs.append((k, [["set", "n1"], ["block", "n0", [["call", "n2", t], ["call", None, t]]], ["call", None, t]]))
    for kind in range(N_KINDS):
        for other in (0, kind):
            k = [kind, other, kind]
            progs.append((k, [["block", "n0", [["call", None, 0]]], ["call", None, 0]]))
            progs.append((k, [["set", "n1"], ["block", "n0", [["call", None, 0]]], ["block", "n2", [["call", None, 0]]],
                              ["block", "n0", [["block", "n2", [["pop"]]], ["call", None, 0]]], ["call", None, 0]]))
            progs.append((k, [["block", "n1", [["try", [["block", "n0", [["raise"]]]]], ["call", None, 0],
                                               ["block", "n2", [["raise"]]]]]]))
    # blocks left by the library's own BudgetError (raised directly; provoked by an exhausted accountant's own block):
    # one level to a try, two levels to the top, caught in the outer block's body, with and without a prior default
    refused = [["raise", "refused", t, t % N_KINDS] for t in CHEAP]
    for j, rz in enumerate([["raise", "budget"]] + refused):
        k = [j % N_KINDS, (j + 1) % N_KINDS, 0]
        progs.append((k, [["set", "n2"], ["try", [["block", "n0", [["call", None, 0], rz]]]], ["call", None, 0]]))
        progs.append((k, [["block", "n1", [["try", [["block", "n0", [rz]]]], ["call", None, 0]]], ["call", None, 0]]))
        if j < 6:
            progs.append((k, [["try", [rz]], ["call", None, 0], ["try", [["block", "n0", [["pop"], rz]]]], ["peek"]]))
            progs.append((k, [["set", "n2"], ["block", "n0", [["block", "n1", [["set", "n0"], rz]]]]]))
    # lifetime: the displaced default is referenced by nobody but the library (anonymous set_default; the implicit
    # default of an un-accounted call; `with Cls():`), garbage collection inside and after the blocks
    for kind in range(N_KINDS):
        k = [kind, (kind + 1) % N_KINDS, kind]
        an = {"kinds": k, "anon": [2], "hold_fresh": False}
        progs.append((an, [["set", "n2"], ["gc"], ["block", "n0", [["gc"], ["call", None, 0]]], ["gc"], ["call", None, 0]]))
        progs.append((an, [["call", None, 0], ["block", "n0", [["gc"], ["call", None, 0]]], ["gc"], ["call", None, 0]]))
        progs.append((an, [["set", "n2"], ["try", [["block", "n0", [["block", "n1", [["gc"], ["raise"]]]]]]], ["gc"],
                           ["call", None, 0]]))
        progs.append((an, [["call", None, 0], ["block", "n0", [["pop"], ["call", None, 0], ["block", "n1", [["gc"]]],
                                                               ["call", None, 0]]], ["gc"], ["call", None, 0]]))
        progs.append((an, [["set", "n1"], ["block", "n2", [["gc"], ["call", None, 0]]], ["gc"], ["call", None, 0]]))
    return progs


def _variants(items):
    """delete one item, or replace a block / try by its body, at any nesting level"""
    for i, it in enumerate(items):
        yield items[:i] + items[i + 1:]
        if it[0] == "block":
            yield items[:i] + it[2] + items[i + 1:]
            for v in _variants(it[2]):
                yield items[:i] + [["block", it[1], v]] + items[i + 1:]
        elif it[0] == "try":
            yield items[:i] + it[1] + items[i + 1:]
            for v in _variants(it[1]):
                yield items[:i] + [["try", v]] + items[i + 1:]


def shrink(n_named, items, sig, max_runs=400):
    runs = 0
    progress = True
    while progress and runs < max_runs:
        progress = False
        for v in _variants(items):
            runs += 1
            if runs > max_runs:
                break
            try:
                bad = direct(n_named, v)[3]
            except ValueError:
                continue
            if bad and bad[0] == sig:
                items = v
                progress = True
                break
    return items


def check_one(ctx, n_named, items, fails):
    inst, real, orc, bad = direct(n_named, items)
    if bad:
        fails.append((bad[0], n_named, items))
    return inst, real, orc, (bad[0] if bad else None)


def _open_signatures():
    from .. import core
    return {k["signature"] for k in core.load_known().get("open", []) if k.get("property") == PROPERTY}


def _witness_forest(ctx):
    t = next(i for i, x in enumerate(TOOLS) if x[0] == "RandomForestClassifier")
    bad = direct([0], [["call", "n0", t]])[3]
    return (bad is not None and bad[0] == "C16:explicit-call-rewrites-default:RandomForestClassifier",
            "RandomForestClassifier(accountant=a).fit(X, y) with no default in force installs a new process-wide default "
            "accountant (sklearn's __sklearn_tags__ builds a throwaway DecisionTreeClassifier(), whose constructor calls "
            "load_default(None)); `a` is charged correctly, the new default is never charged")


WITNESSES = {"C16:explicit-call-rewrites-default:RandomForestClassifier": _witness_forest}


def generate(ctx):
    """translator tie: the five scoping methods are re-read from /repo's AST, emitted as IR terms and proved to be the
    hand-written machine (7 obligations: five contracts, no other writer of the scoping attributes, `_default = None`)"""
    import os
    from ..translate import scopeir
    try:
        r = scopeir.generate(os.environ.get("VERIF_REPO", "/repo"), leanio.LEAN)
    except scopeir.Untranslatable as e:
        return {"build": [], "obligations": 0, "unavailable": [f"scope IR: {e}"]}
    ctx.count("scope_ir_methods", 5)
    return {"build": r["build"], "obligations": r["obligations"]}


def check(ctx):
    # the programs call gc.collect(): park everything that exists now (numpy, sklearn, the library) in the permanent
    # generation, so that a collection only looks at what the programs themselves allocate
    gc.collect()
    gc.freeze()
    try:
        _check(ctx)
    finally:
        gc.unfreeze()


def _check(ctx):
    r = ctx.fork("programs")
    thorough = ctx.tier == "thorough"
    max_depth = 8 if thorough else 4
    n = ctx.budget(1500, 15000)
    progs = [(k, it, None) for k, it in FIXED] + [(k, it, None) for k, it in sweep_programs()]
    ctx.count("menu_entries", len(TOOLS))
    for _ in range(n):
        progs.append(gen_program(r, max_depth, thorough))
    lines, reals, oracles = [], [], []
    depth_hist = {}
    fails = []
    badsigs = []
    open_sigs = _open_signatures()
    for n_named, items, stats in progs:
        inst, real, orc, badsig = check_one(ctx, n_named, items, fails)
        badsigs.append(badsig)
        lines.append(encode(inst))
        reals.append(real)
        oracles.append(orc)
        nontrivial = stats is None or (stats["depth"] >= 2 and stats["rewrite_in_block"] and stats["implicit"])
        ctx.case(lines[-1] if nontrivial else None)
        if stats:
            depth_hist[stats["depth"]] = depth_hist.get(stats["depth"], 0) + 1
            if stats["raise"]:
                ctx.count("programs_with_raise")
            if stats["raise_budget"]:
                ctx.count("programs_left_by_a_BudgetError")
            if stats["fresh_entered"]:
                ctx.count("programs_entering_lazy_default")
            if stats["subclass"]:
                ctx.count("programs_with_subclass_accountants")
            if stats["lifetime"]:
                ctx.count("programs_with_accountants_only_the_library_references")
    # report failures: one shrunk representative per signature first (the runner prints the first), then the rest
    seen = set()
    for sig, n_named, items in fails:
        if sig not in seen and len(seen) < 6:
            seen.add(sig)
            report(ctx, n_named, shrink(n_named, items, sig), shrunk_from=encode(instrument(items)))
    for sig, n_named, items in fails[:150]:
        report(ctx, n_named, items)
    ctx.note("nesting-depth histogram of generated programs: " + str(dict(sorted(depth_hist.items()))))
    ctx.sample({"program": lines[0], "real_events": reals[0][0], "flag": reals[0][1], "final_default": reals[0][2]})
    if len(lines) > 8:
        ctx.sample({"program": lines[8], "real_events": reals[8][0], "flag": reals[8][1], "final_default": reals[8][2]})

    # the re-entrant probe (outside the property's hypothesis; reported only)
    probe_lines = [encode(instrument(it)) for _, it in REENTRANT]
    outs = leanio.run_driver("Scope", lines + probe_lines)
    for line, real, orc, out, badsig in zip(lines, reals, oracles, outs, badsigs):
        if badsig is not None and badsig in open_sigs:
            ctx.count("programs_failing_only_by_an_open_known_finding")     # reported as KNOWN-FINDING, not compared
            continue
        if out == "bad-op":
            ctx.disagree("scope.encode", line, out, "parse failure")
            continue
        wf, mi, ms = split_out(out)
        ok = True
        if not wf:
            ctx.disagree("scope.generator", line, "wf=0", "the generator produced a re-entrant program")
            ok = False
        if mi != ms:
            ctx.disagree("scope.model-vs-spec", line, {"runI": mi, "runS": ms}, None,
                         "contradicts scope_refines_stack: the model or the driver is broken")
            ok = False
        if (list(mi[0]), mi[1], mi[2]) != (list(real[0]), real[1], real[2]):
            k = next((i for i, (a, b) in enumerate(zip(mi[0], real[0])) if a != b), min(len(mi[0]), len(real[0])))
            ctx.disagree("scope.run", line, {"events": mi[0][max(0, k - 3):k + 2], "flag": mi[1], "final": mi[2]},
                         {"events": real[0][max(0, k - 3):k + 2], "flag": real[1], "final": real[2]},
                         f"first difference at event {k}")
            ok = False
        if (list(ms[0]), ms[1], ms[2]) != (list(orc[0]), orc[1], orc[2]):
            ctx.disagree("scope.oracle-vs-spec", line, ms, orc, "the Python stack oracle and the Lean stack spec differ")
            ok = False
        if ok:
            ctx.trace_ok()
    ctx.count("events_compared", sum(len(x[0]) for x in reals))

    same = 0
    for (n_named, items), out in zip(REENTRANT, outs[len(lines):]):
        wf, mi, ms = split_out(out)
        real = run_real(instrument(items), n_named)
        if (list(mi[0]), mi[1], mi[2]) == (list(real[0]), real[1], real[2]) and not wf:
            same += 1
        else:
            ctx.note(f"re-entrant probe `{encode(instrument(items))}`: implementation {real} no longer behaves as the "
                     f"faithful model {mi} (outside the property's hypothesis; reported only)")
    real0 = run_real(instrument(REENTRANT[0][1]), 2)
    ctx.note(f"re-entrant probe (reported only, outside the hypothesis): {same}/{len(REENTRANT)} re-entrant programs "
             f"behave as the model; `with a: with a: pass` from default n1 ends with default {real0[2]} and "
             f"exception {real0[1]} (reentrant_cex: '-' and 'attr')")
    ctx.count("reentrant_probe_matches_model", same)


def replay(ctx, data):
    d = data["data"]
    inst = instrument(d["items"])
    ev_o, meta, flag_o, fin_o = run_oracle(inst)
    ev_r, flag_r, fin_r = run_real(inst, d["n_named"])
    bad = classify(ev_o, meta, flag_o, fin_o, ev_r, flag_r, fin_r)
    if bad:
        print(f"replay: {bad[0]}: {bad[1]}; program `{encode(inst)}`")
    return bad is not None
