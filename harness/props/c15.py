"""C15 — seeded runs are reproducible and independent of the parallel schedule (DESIGN.md §6 C15).

Direct checks on the real code, for every public entry point that takes an integer `random_state`
(all mechanisms, all tools, all models; several inputs each, derived from the run seed):
  (a) repetition in-process is bit-identical                      signature  C15:<entry>:repeat-in-process
  (b) repetition in a FRESH interpreter is bit-identical                     C15:<entry>:fresh-process
  (c) different seeds give different noise                                   C15:<entry>:seed-insensitive
  (d) RandomForestClassifier / multi-class LogisticRegression with n_jobs in {1,2,4,8}, and with the completion
      order of the workers deliberately perturbed: identical trees / coefficients / predict_proba
                                                  C15:forest:n_jobs, C15:forest:completion-order,
                                                  C15:logreg:shared-rng:n_jobs, C15:logreg:shared-rng:repeat
  (e) with interposition: the per-tree seeds are drawn from the parent generator before any tree is fitted, each
      tree's mechanisms use one generator that no other tree (and not the parent) uses
                                                  C15:forest:seeds-drawn-inside-parallel-section, C15:forest:shared-rng
Correspondence: the rows every tree actually receives vs the Lean model's `subset` (driver Schedule, numpy's `//` on
doubles reproduced bit for bit), plus a sweep of the row -> tree expression taken from forest.py's source.
"""
import ast
import contextlib
import hashlib
import inspect
import json
import os
import subprocess
import sys
import threading
import time
import warnings

from .. import shim
from ..shim import dp, np
from .. import gen, leanio, seams

PROPERTY = "C15"
LEAN_MODULE = "DPL.Properties.C15"
TRUSTED = [
    "static tie (shared with C14, harness/translate/rngsites.py): that the values handed to the joblib-delayed tasks are "
    "integers drawn before dispatch is read off the current AST on every run (obligation external_passes) — trusted there: "
    "the translator's intra-procedural origin tracking and its name-based recognition of generator objects",
    "modelled, not verified: numpy's RandomState(seed) is a deterministic function of the seed and streams for "
    "different seeds differ (MT19937); pickling a RandomState copies its state",
    "runtime facts observed, not proved: the thread/process interleavings joblib actually produces, that joblib returns "
    "results in submission order, that numpy/sklearn/scipy hold no other shared mutable state that influences a fit "
    "(BLAS thread count is fixed by ./check)",
    "the schedule model covers RandomForestClassifier.fit and LogisticRegression.fit (the two estimators with a "
    "parallel section); tasks are modelled as arbitrary small-step machines over task-local state",
    "child interpreters (fresh-process check, loky workers) apply the same third-party shims through "
    "harness/worker_site/sitecustomize.py",
]
UNPROVED = [
    "bit-identical repetition in-process and in a fresh interpreter, for every entry point (sampled inputs and seeds)",
    "different seeds give different noise (a property of the PRNG; observed on >= 2 seed pairs per entry point)",
    "identical forests / coefficients for n_jobs in {1,2,4,8} and under perturbed completion order (sampled)",
    "numpy `//` on IEEE doubles: `subsets_partition` is proved in exact arithmetic; that every row index produced on "
    "doubles is < n_trees is checked on every run (all rows of all cases), disjointness is proved for any carrier",
]
RULE = ("entry points: every mechanism class, every function of diffprivlib.tools and every model, in several "
        "parameter variants that reach different code paths (axis / nan / density / multi-quantile / intercept / "
        "shuffle); inputs and integer seeds derive from the run seed; one case = one (entry point, input, seed) "
        "repetition comparison, or one (estimator, data, n_jobs pair) comparison, or one (n_samples, n_trees) subset "
        "comparison; non-trivial when the outputs carry noise (differ for the second seed); distinct by its key")

M = dp.mechanisms
WORKER_SITE = os.path.join(leanio.VERIF, "harness", "worker_site")


def _child_env():
    env = dict(os.environ)
    env["VERIF_WORKER_SHIM"] = "1"
    env["VERIF_REPO"] = shim.REPO
    env["PYTHONWARNINGS"] = "ignore"
    pp = env.get("PYTHONPATH", "")
    if WORKER_SITE not in pp.split(os.pathsep):
        env["PYTHONPATH"] = WORKER_SITE + (os.pathsep + pp if pp else "")
    return env


def _arm_workers():
    """loky worker processes inherit os.environ: make them apply the shims before they unpickle library functions"""
    os.environ.update({k: v for k, v in _child_env().items() if k in ("VERIF_WORKER_SHIM", "VERIF_REPO", "PYTHONPATH", "PYTHONWARNINGS")})


# ------------------------------------------------------------------ canonical outputs

def _canon(x):
    """one output -> (kind, bytes)"""
    if isinstance(x, str):
        return "s", x.encode()
    if isinstance(x, (list, tuple)) and x and all(isinstance(v, str) for v in x):
        return "s", "\0".join(x).encode()
    a = np.asarray(x)
    if a.dtype.kind in "iub":
        return "i", np.ascontiguousarray(a, dtype=np.int64).tobytes()
    if a.dtype.kind == "f":
        return "f", np.ascontiguousarray(a, dtype=np.float64).tobytes()
    if a.dtype.kind in "US":
        return "s", "\0".join(map(str, a.ravel().tolist())).encode()
    if a.dtype.kind == "O":
        return "s", repr(a.tolist()).encode()
    return "s", repr(x).encode()


def digests(outs):
    return [hashlib.sha256(k.encode() + b) .hexdigest()[:24] for k, b in map(_canon, outs)]


def first_diff(outs_a, outs_b):
    """(output index, element index, a, b) of the first differing bit pattern, or None"""
    if len(outs_a) != len(outs_b):
        return (-1, -1, len(outs_a), len(outs_b))
    for i, (x, y) in enumerate(zip(outs_a, outs_b)):
        kx, bx = _canon(x)
        ky, by = _canon(y)
        if kx == ky and bx == by:
            continue
        if kx == ky and kx in "fi" and len(bx) == len(by):
            ax = np.frombuffer(bx, dtype=np.float64 if kx == "f" else np.int64)
            ay = np.frombuffer(by, dtype=np.float64 if kx == "f" else np.int64)
            j = int(np.flatnonzero(ax.view(np.int64) != ay.view(np.int64))[0])
            return (i, j, ax[j].item(), ay[j].item())
        return (i, -1, repr(x)[:80], repr(y)[:80])
    return None


# ------------------------------------------------------------------ the entry-point catalogue
# every entry: fn(case_seed, rs) -> list of outputs; inputs are a function of case_seed only

def _data(case_seed, n=40, d=3, classes=3, nan=False):
    r = gen.SplitMix64(case_seed * 7919 + 13)
    X = np.array([[r.u01() for _ in range(d)] for _ in range(n)])
    y = np.array([i % classes for i in range(n)])
    if nan:
        X = X.copy()
        for _ in range(max(1, n // 8)):
            X[r.randint(0, n - 1), r.randint(0, d - 1)] = np.nan
    return r, X, y


# seed kinds: what is handed to `random_state=`.  A seed spec is [kind, base, modulus]; sub-call j of an entry gets the
# value (base + 7919 j) % modulus wrapped as the kind says.  A plain int `rs` means ["int", rs, 2**32].
KIND_MOD = {"int": 2 ** 32, "np.int64": 2 ** 32, "np.int32": 2 ** 31, "np.uint8": 256, "RandomState": 2 ** 32,
            "Generator": 2 ** 32, "SeedSequence": 2 ** 32}
KIND_WRAP = {
    "int": int,
    "np.int64": np.int64,
    "np.int32": np.int32,
    "np.uint8": np.uint8,
    "RandomState": lambda v: np.random.RandomState(v),        # a NEW instance for every (sub-)call and every repetition
    "Generator": lambda v: np.random.default_rng(v),
    "SeedSequence": lambda v: np.random.SeedSequence(v),
}
CORE_KINDS = ("np.int64", "np.int32", "np.uint8", "RandomState")   # the unchanged library accepts these everywhere
EQUAL_TO_INT = ("np.int64", "np.int32", "np.uint8", "RandomState")  # …and maps them to RandomState(value), like the int


def _rs(rs, j=0):
    if isinstance(rs, (int, np.integer)):
        rs = ["int", int(rs), 2 ** 32]
    kind, base, mod = rs
    return KIND_WRAP[kind]((int(base) + 7919 * j) % int(mod))


def _mech(make, values, n_calls=48, post=None, make_first=False):
    def fn(case_seed, rs):
        r = gen.SplitMix64(case_seed * 104729 + 7)
        if make_first:                       # region entries: the constructor draws the parameters and leaves the value
            m = make(_rs(rs), r)
            vals = values(r)
        else:
            vals = values(r)
            m = make(_rs(rs), r)
        out = []
        for i in range(n_calls):
            v = vals[i % len(vals)]
            o = m.randomise(v) if v is not _NOARG else m.randomise()
            out.append(post(o) if post else o)
        if out and isinstance(out[0], str):
            return [out]
        return [np.array(out)]
    return fn


_NOARG = object()


def _psd(r):
    a = np.array([[r.uniform(-1, 1) for _ in range(3)] for _ in range(3)])
    return a.T @ a


def _vector_fn(case_seed, rs):
    r = gen.SplitMix64(case_seed * 31 + 1)
    w0 = np.array([r.uniform(-1, 1) for _ in range(3)])
    out = []
    for j in range(4):
        m = M.Vector(epsilon=1.0, function_sensitivity=0.25, data_sensitivity=1.0, dimension=3, alpha=1.0, n=10,
                     random_state=_rs(rs, j))
        f = m.randomise(lambda w, *a: (float(np.dot(w, w)), 2 * w))
        val, grad = f(w0)
        out += [val] + list(grad)
    return [np.array(out, dtype=float)]


def _bneg_fn(case_seed, rs):
    r = gen.SplitMix64(case_seed + 99)
    g = r.uniform(0.1, 2.5)
    rng = np.random.RandomState(_rs(rs if isinstance(rs, (int, np.integer)) else ["int", rs[1], rs[2]]))
    return [np.array([M.base.bernoulli_neg_exp(g, random_state=rng) for _ in range(64)])]


def _bneg_direct_fn(case_seed, rs):
    """the seed given DIRECTLY to the helper, one sub-seed per call"""
    r = gen.SplitMix64(case_seed + 99)
    g = r.uniform(0.1, 2.5)
    return [np.array([M.base.bernoulli_neg_exp(g, random_state=_rs(rs, j)) for j in range(64)])]


def _utils(r, n=6):
    return [round(r.uniform(0, 1), 3) for _ in range(n)]


MECH_ENTRIES = {
    "Binary": _mech(lambda rs, r: M.Binary(epsilon=0.05, value0="a", value1="b", random_state=rs), lambda r: ["a", "b", "a"],
                    n_calls=96),
    "Bingham": _mech(lambda rs, r: M.Bingham(epsilon=0.5, sensitivity=1.0, random_state=rs), lambda r: [_psd(r)], n_calls=4),
    "Exponential": _mech(lambda rs, r: M.Exponential(epsilon=0.1, sensitivity=1, utility=_utils(r), random_state=rs),
                         lambda r: [_NOARG], n_calls=96),
    "Exponential:measure+candidates": _mech(
        lambda rs, r: M.Exponential(epsilon=0.1, sensitivity=1, utility=_utils(r, 4), measure=[1, 2, 1, 1],
                                    candidates=["w", "x", "y", "z"], monotonic=True, random_state=rs),
        lambda r: [_NOARG], n_calls=96),
    "ExponentialCategorical": _mech(
        lambda rs, r: M.ExponentialCategorical(epsilon=0.1, utility_list=[["a", "b", 1], ["a", "c", 2], ["b", "c", 2]],
                                               random_state=rs), lambda r: ["a", "b", "c"], n_calls=96),
    "ExponentialHierarchical": _mech(
        lambda rs, r: M.ExponentialHierarchical(epsilon=0.1, hierarchy=[["a", "b"], ["c", "d"], ["e", "f"]], random_state=rs),
        lambda r: ["a", "d"], n_calls=96),
    "Gaussian": _mech(lambda rs, r: M.Gaussian(epsilon=0.5, delta=0.1, sensitivity=1, random_state=rs),
                      lambda r: [r.uniform(-5, 5)]),
    "GaussianAnalytic": _mech(lambda rs, r: M.GaussianAnalytic(epsilon=0.5, delta=0.1, sensitivity=1, random_state=rs),
                              lambda r: [r.uniform(-5, 5)]),
    "GaussianDiscrete": _mech(lambda rs, r: M.GaussianDiscrete(epsilon=0.3, delta=0.1, sensitivity=1, random_state=rs),
                              lambda r: [r.randint(-5, 5)]),
    "Geometric": _mech(lambda rs, r: M.Geometric(epsilon=0.05, sensitivity=1, random_state=rs), lambda r: [r.randint(-5, 5)]),
    "GeometricFolded": _mech(lambda rs, r: M.GeometricFolded(epsilon=0.05, sensitivity=1, lower=-50, upper=50, random_state=rs),
                             lambda r: [r.randint(-5, 5)]),
    "GeometricFolded:half-integer": _mech(
        lambda rs, r: M.GeometricFolded(epsilon=0.05, sensitivity=1, lower=-50.5, upper=50, random_state=rs),
        lambda r: [r.randint(-5, 5)]),
    "GeometricTruncated": _mech(
        lambda rs, r: M.GeometricTruncated(epsilon=0.05, sensitivity=1, lower=-1000, upper=1000, random_state=rs),
        lambda r: [r.randint(-5, 5)]),
    "Laplace": _mech(lambda rs, r: M.Laplace(epsilon=0.1, sensitivity=1, random_state=rs), lambda r: [r.uniform(-5, 5)]),
    "Laplace:delta": _mech(lambda rs, r: M.Laplace(epsilon=0.1, delta=0.1, sensitivity=1, random_state=rs),
                           lambda r: [r.uniform(-5, 5)]),
    "LaplaceBoundedDomain": _mech(
        lambda rs, r: M.LaplaceBoundedDomain(epsilon=0.1, sensitivity=1, lower=-100, upper=100, random_state=rs),
        lambda r: [r.uniform(-5, 5)]),
    "LaplaceBoundedDomain:delta": _mech(
        lambda rs, r: M.LaplaceBoundedDomain(epsilon=0.1, delta=0.05, sensitivity=1, lower=-100, upper=100, random_state=rs),
        lambda r: [r.uniform(-5, 5)]),
    "LaplaceBoundedNoise": _mech(lambda rs, r: M.LaplaceBoundedNoise(epsilon=0.1, delta=0.1, sensitivity=1, random_state=rs),
                                 lambda r: [r.uniform(-5, 5)]),
    "LaplaceFolded": _mech(lambda rs, r: M.LaplaceFolded(epsilon=0.1, sensitivity=1, lower=-100, upper=100, random_state=rs),
                           lambda r: [r.uniform(-5, 5)]),
    "LaplaceTruncated": _mech(
        lambda rs, r: M.LaplaceTruncated(epsilon=0.1, sensitivity=1, lower=-1000, upper=1000, random_state=rs),
        lambda r: [r.uniform(-5, 5)]),
    "PermuteAndFlip": _mech(lambda rs, r: M.PermuteAndFlip(epsilon=0.1, sensitivity=1, utility=_utils(r), random_state=rs),
                            lambda r: [_NOARG], n_calls=96),
    "PermuteAndFlip:monotonic+candidates": _mech(
        lambda rs, r: M.PermuteAndFlip(epsilon=0.1, sensitivity=1, utility=_utils(r, 4), monotonic=True,
                                       candidates=["w", "x", "y", "z"], random_state=rs), lambda r: [_NOARG], n_calls=96),
    "Snapping": _mech(lambda rs, r: M.Snapping(epsilon=0.5, sensitivity=1, lower=-100, upper=100, random_state=rs),
                      lambda r: [r.uniform(-5, 5)]),
    "Staircase": _mech(lambda rs, r: M.Staircase(epsilon=0.5, sensitivity=1, random_state=rs), lambda r: [r.uniform(-5, 5)]),
    "Staircase:gamma": _mech(lambda rs, r: M.Staircase(epsilon=0.5, sensitivity=1, gamma=0.3, random_state=rs),
                             lambda r: [r.uniform(-5, 5)]),
    "Uniform": _mech(lambda rs, r: M.Uniform(delta=0.1, sensitivity=1, random_state=rs), lambda r: [r.uniform(-5, 5)]),
    "Exponential:bytes-candidates": _mech(
        lambda rs, r: M.Exponential(epsilon=0.1, sensitivity=1, utility=_utils(r, 4), candidates=[b"w", b"x", b"y", b"z"],
                                    random_state=rs), lambda r: [_NOARG], n_calls=96, post=repr),
    "Exponential:mixed-candidates": _mech(
        lambda rs, r: M.Exponential(epsilon=0.1, sensitivity=1, utility=_utils(r, 5), candidates=[1, "x", b"y", (1, "z"), 2.5],
                                    random_state=rs), lambda r: [_NOARG], n_calls=96, post=repr),
    "PermuteAndFlip:mixed-candidates": _mech(
        lambda rs, r: M.PermuteAndFlip(epsilon=0.1, sensitivity=1, utility=_utils(r, 5), candidates=[1, "x", b"y", (1, "z"), 2.5],
                                       random_state=rs), lambda r: [_NOARG], n_calls=96, post=repr),
    "ExponentialHierarchical:deep": _mech(
        lambda rs, r: M.ExponentialHierarchical(epsilon=0.1, hierarchy=[[["ant", "bee"], ["cat", "dog"]], [["eel", "fox"], ["gnu", "hen"]]],
                                                random_state=rs), lambda r: ["ant", "fox"], n_calls=96),
    "Vector": _vector_fn,
    "bernoulli_neg_exp": _bneg_fn,
    "bernoulli_neg_exp:direct-seed": _bneg_direct_fn,
}

# ---- parameter REGIONS (the parameters are a function of the case seed, so every case is another point of the region).
# Criterion for "different seeds must give different outputs": an entry returns >= 48 draws per seed and is compared over
# 8 seeds; the regions below are built so that the law of ONE draw has no atom of mass > 0.78 (continuous laws folded /
# conditioned into a domain holding >= 2^20 doubles; discrete laws with epsilon/sensitivity <= 1 on >= 5 points; clamping
# mechanisms only with the domain >= 40 noise scales wide around the value, clamped mass <= e^-20), hence
# P[8 seeds agree on 48 draws] <= 0.78^(7*48) < 2^-120.  Configurations whose law IS a point mass (sensitivity 0,
# epsilon = inf, zero-width domain) are listed in POINT_MASS: for them only reproducibility is required.

def _float_domain(r, region):
    """(lower, upper, sensitivity, value) with the noise scale comparable to the width (interior and folding both matter)"""
    if region == "narrow-far":            # width / |offset| between 1e-9 and 1e-5
        off = r.choice([1.0, -1.0, 1e3, 1e6, -1e6, 1e9])
        w = abs(off) * r.loguniform(1e-9, 1e-5)
    elif region == "tiny-near-zero":
        w = r.loguniform(1e-12, 1e-8)
        off = r.choice([0.0, -w / 2, w, -3 * w])
    elif region == "moderate":            # width / |offset| between 1e-3 and 1
        off = r.choice([1.0, -7.0, 250.0, 1e4])
        w = abs(off) * r.loguniform(1e-3, 1.0)
    else:                                 # wide
        off = r.uniform(-1e3, 1e3)
        w = r.loguniform(10, 1e5)
    lo, hi = off, off + w
    return lo, hi, w * r.loguniform(0.05, 0.5), lo + w * r.u01()


def _interior_domain(r):
    """(lower, upper, sensitivity, value, epsilon): the value sits >= 40 noise scales inside the domain"""
    sens, eps = r.loguniform(1e-3, 1e3), r.loguniform(0.3, 2.0)
    half = (sens / eps) * r.loguniform(40, 1e4)
    c = r.choice([0.0, 1e6, -1e6, r.uniform(-100, 100)]) * max(1.0, sens)
    return c - half, c + half, sens, c + half * r.uniform(-0.2, 0.2), eps


def _int_domain(r, region):
    if region == "narrow-far":
        lo = r.choice([10 ** 6, -10 ** 6, 10 ** 9, 123456789])
        w = r.randint(5, 10)
    elif region == "near-zero":
        lo, w = r.randint(-4, 0), r.randint(5, 12)
    else:
        lo, w = r.randint(-1000, 1000), r.randint(50, 5000)
    return lo, lo + w, lo + r.randint(0, w)


def _region_entries():
    e = {}
    for region in ("narrow-far", "tiny-near-zero", "moderate", "wide"):
        def mk(cls, region=region):
            def make(rs, r):
                lo, hi, sens, v = _float_domain(r, region)
                r._v = v
                return cls(epsilon=r.loguniform(0.3, 2.0), sensitivity=sens, lower=lo, upper=hi, random_state=rs)
            return _mech(make, lambda r: [r._v], make_first=True)
        e[f"LaplaceFolded:region:{region}"] = mk(M.LaplaceFolded)
        e[f"LaplaceBoundedDomain:region:{region}"] = mk(M.LaplaceBoundedDomain)
    for region in ("narrow-far", "near-zero", "wide"):
        def make(rs, r, region=region):
            lo, hi, v = _int_domain(r, region)
            r._v = v
            return M.GeometricFolded(epsilon=r.loguniform(0.2, 1.0), sensitivity=1, lower=lo, upper=hi, random_state=rs)
        e[f"GeometricFolded:region:{region}"] = _mech(make, lambda r: [r._v], make_first=True)

    def interior(cls, integer=False):
        def make(rs, r):
            lo, hi, sens, v, eps = _interior_domain(r)
            if integer:
                sens = 1
                lo, hi, v = int(lo) - 50, int(hi) + 50, int(v)
                eps = min(eps, 1.0)
            r._v = v
            return cls(epsilon=eps, sensitivity=sens, lower=lo, upper=hi, random_state=rs)
        return _mech(make, lambda r: [r._v], make_first=True)
    e["LaplaceTruncated:region:interior"] = interior(M.LaplaceTruncated)
    e["Snapping:region:interior"] = interior(M.Snapping)
    e["GeometricTruncated:region:interior"] = interior(M.GeometricTruncated, integer=True)

    def scaled(cls, delta=None, integer=False, **extra):
        def make(rs, r):
            sens = r.randint(1, 3) if integer else r.loguniform(1e-6, 1e6)
            kw = dict(extra)
            if delta == "opt":
                kw["delta"] = r.choice([0.0, r.loguniform(1e-6, 0.3)])
            elif delta == "pos":
                kw["delta"] = r.loguniform(1e-6, 0.3)
            r._v = (r.randint(-1000, 1000) if integer else sens * r.uniform(-10, 10))
            return cls(epsilon=r.loguniform(0.05, 1.0), sensitivity=sens, random_state=rs, **kw)
        return _mech(make, lambda r: [r._v], make_first=True)
    e["Laplace:region"] = scaled(M.Laplace, delta="opt")
    e["LaplaceBoundedNoise:region"] = scaled(M.LaplaceBoundedNoise, delta="pos")
    e["Gaussian:region"] = scaled(M.Gaussian, delta="pos")
    e["GaussianAnalytic:region"] = scaled(M.GaussianAnalytic, delta="pos")
    e["GaussianDiscrete:region"] = scaled(M.GaussianDiscrete, delta="pos", integer=True)
    e["Geometric:region"] = scaled(M.Geometric, integer=True)
    # magnitude: integer inputs beyond 2^53 (value + noise must be taken in exact integers, or the seeded noise is rounded away
    # and distinct seeds collapse to one output — seeded change C15-14)
    BIG = [2 ** 53 + 1, 2 ** 57 + 3, 2 ** 60, -(2 ** 62) + 5, 2 ** 70 + 11]

    def big(cls, bounded=False, pool=None):
        def make(rs, r):
            r._v = r.choice(pool or BIG)
            kw = dict(lower=r._v - 1000, upper=r._v + 1000) if bounded else {}
            return cls(epsilon=0.05, sensitivity=1, random_state=rs, **kw)
        return _mech(make, lambda r: [r._v], make_first=True)
    e["Geometric:magnitude"] = big(M.Geometric)
    e["GeometricTruncated:magnitude"] = big(M.GeometricTruncated, bounded=True)
    # GeometricFolded's constructor refuses Python-int bounds with |2 * bound| beyond 2^63 with a TypeError (np.round(2 * lower) has no loop
    # for such ints): nothing is released, so no property is concerned; the pool stays below
    e["GeometricFolded:magnitude"] = big(M.GeometricFolded, bounded=True, pool=BIG[:3] + [-(2 ** 61) + 5])
    e["GaussianDiscrete:magnitude"] = _mech(
        lambda rs, r: (setattr(r, "_v", r.choice(BIG)), M.GaussianDiscrete(epsilon=0.3, delta=0.1, sensitivity=1, random_state=rs))[1],
        lambda r: [r._v], make_first=True)
    e["Staircase:region"] = scaled(M.Staircase)
    e["Uniform:region"] = _mech(lambda rs, r: M.Uniform(delta=r.loguniform(1e-6, 0.5), sensitivity=r.loguniform(1e-6, 1e6),
                                                       random_state=rs), lambda r: [r.uniform(-5, 5)])
    e["Binary:region"] = _mech(lambda rs, r: M.Binary(epsilon=r.loguniform(0.01, 1.0), value0="no", value1="yes", random_state=rs),
                               lambda r: ["no", "yes"], n_calls=96)
    e["Exponential:region"] = _mech(
        lambda rs, r: M.Exponential(epsilon=r.loguniform(0.01, 1.0), sensitivity=1.0, utility=_utils(r, r.randint(3, 9)),
                                    monotonic=r.chance(0.5), random_state=rs), lambda r: [_NOARG], n_calls=96)
    e["PermuteAndFlip:region"] = _mech(
        lambda rs, r: M.PermuteAndFlip(epsilon=r.loguniform(0.01, 1.0), sensitivity=1.0, utility=_utils(r, r.randint(3, 9)),
                                       monotonic=r.chance(0.5), random_state=rs), lambda r: [_NOARG], n_calls=96)
    # legitimately noise-free configurations: only reproducibility is required of them
    e["LaplaceFolded:point:zero-width"] = _mech(lambda rs, r: M.LaplaceFolded(epsilon=1.0, sensitivity=1.0, lower=3.5, upper=3.5,
                                                                              random_state=rs), lambda r: [3.5])
    e["LaplaceTruncated:point:sensitivity-0"] = _mech(
        lambda rs, r: M.LaplaceTruncated(epsilon=1.0, sensitivity=0.0, lower=-1.0, upper=1.0, random_state=rs), lambda r: [0.25])
    e["Laplace:point:epsilon-inf"] = _mech(lambda rs, r: M.Laplace(epsilon=float("inf"), sensitivity=1.0, random_state=rs),
                                           lambda r: [0.25])
    e["GeometricFolded:point:zero-width"] = _mech(lambda rs, r: M.GeometricFolded(epsilon=1.0, sensitivity=1, lower=7, upper=7,
                                                                                  random_state=rs), lambda r: [7])
    return e


MECH_ENTRIES.update(_region_entries())
POINT_MASS = {"mechanisms." + k for k in MECH_ENTRIES if ":point:" in k}

T = dp.tools
EPS_T = 1.0       # continuous tools: noise well above rounding, results rarely clipped to the bounds
EPS_C = 0.05      # counting tools: wide geometric noise on large counts
REPS = 6          # each tool entry makes REPS calls (sub-seeds rs + 7919 j, different inputs): a coincidence of all
                  # outputs for two seeds is astronomically unlikely even where a single output is low-entropy


def _bulk(case_seed, n, d, nan=False):
    r = gen.SplitMix64(case_seed * 7919 + 13)
    rs = np.random.RandomState(r.next() % 2 ** 32)          # bulk data: a deterministic function of the case seed
    X = rs.random_sample((n, d))
    if nan:
        X[rs.randint(0, n, size=max(1, n // 8)), rs.randint(0, d, size=max(1, n // 8))] = np.nan
    return X


def _tool(f, nan=False, n=40, d=3):
    def fn(case_seed, rs):
        X = _bulk(case_seed, n * REPS, d, nan)
        outs = []
        with warnings.catch_warnings():
            warnings.simplefilter("ignore")
            for j in range(REPS):
                out = f(X[j * n:(j + 1) * n], _rs(rs, j))
                outs += list(out) if isinstance(out, (tuple, list)) else [out]
        return outs
    return fn


def _hist(out):
    """(hist, edges) / (hist, xedges, yedges) / (hist, [edges…]) -> flat list"""
    flat = []
    for o in out:
        if isinstance(o, (list, tuple)):
            flat += list(o)
        else:
            flat.append(o)
    return flat


NC = 3000
TOOL_ENTRIES = {}
for _n in ("mean", "var", "std", "sum"):
    TOOL_ENTRIES[_n] = _tool(lambda X, rs, _f=getattr(T, _n): _f(X[:, 0], epsilon=EPS_T, bounds=(0, 1), random_state=rs))
    TOOL_ENTRIES[_n + ":axis0"] = _tool(lambda X, rs, _f=getattr(T, _n): _f(X, epsilon=EPS_T, bounds=(0, 1), axis=0, random_state=rs))
    TOOL_ENTRIES[_n + ":axis1:keepdims"] = _tool(
        lambda X, rs, _f=getattr(T, _n): _f(X.reshape(6, -1), epsilon=EPS_T, bounds=(0, 1), axis=1, keepdims=True, random_state=rs))
    TOOL_ENTRIES["nan" + _n] = _tool(
        lambda X, rs, _f=getattr(T, "nan" + _n): _f(X[:, 0], epsilon=EPS_T, bounds=(0, 1), random_state=rs), nan=True)
    TOOL_ENTRIES["nan" + _n + ":axis0"] = _tool(
        lambda X, rs, _f=getattr(T, "nan" + _n): _f(X, epsilon=EPS_T, bounds=(0, 1), axis=0, random_state=rs), nan=True)
TOOL_ENTRIES.update({
    "mean:array-bounds": _tool(lambda X, rs: T.mean(X, epsilon=EPS_T, bounds=(np.zeros(3), np.ones(3)), axis=0, random_state=rs)),
    "count_nonzero": _tool(lambda X, rs: T.count_nonzero(X[:, 0] > 0.5, epsilon=EPS_C, random_state=rs), n=NC),
    "count_nonzero:axis0": _tool(lambda X, rs: T.count_nonzero(X > 0.5, epsilon=EPS_C, axis=0, random_state=rs), n=NC),
    "histogram": _tool(lambda X, rs: T.histogram(X[:, 0], epsilon=EPS_C, bins=5, range=(0, 1), random_state=rs), n=NC),
    "histogram:density": _tool(lambda X, rs: T.histogram(X[:, 0], epsilon=EPS_C, bins=5, range=(0, 1), density=True,
                                                         random_state=rs), n=NC),
    "histogram2d": _tool(lambda X, rs: T.histogram2d(X[:, 0], X[:, 1], epsilon=EPS_C, bins=3, range=[(0, 1), (0, 1)],
                                                     random_state=rs), n=NC),
    "histogram2d:density": _tool(lambda X, rs: T.histogram2d(X[:, 0], X[:, 1], epsilon=EPS_C, bins=3, range=[(0, 1), (0, 1)],
                                                             density=True, random_state=rs), n=NC),
    "histogramdd": _tool(lambda X, rs: _hist(T.histogramdd(X, epsilon=EPS_C, bins=2, range=[(0, 1)] * 3, random_state=rs)), n=NC),
    "histogramdd:density": _tool(lambda X, rs: _hist(T.histogramdd(X, epsilon=EPS_C, bins=2, range=[(0, 1)] * 3, density=True,
                                                                   random_state=rs)), n=NC),
    "quantile": _tool(lambda X, rs: T.quantile(X[:, 0], 0.3, epsilon=EPS_T, bounds=(0, 1), random_state=rs)),
    "quantile:multi": _tool(lambda X, rs: T.quantile(X[:, 0], [0.25, 0.5, 0.75], epsilon=EPS_T, bounds=(0, 1), random_state=rs)),
    "quantile:axis0": _tool(lambda X, rs: T.quantile(X, 0.6, epsilon=EPS_T, bounds=(0, 1), axis=0, random_state=rs)),
    "median": _tool(lambda X, rs: T.median(X[:, 0], epsilon=EPS_T, bounds=(0, 1), random_state=rs)),
    "median:axis1": _tool(lambda X, rs: T.median(X.reshape(6, -1), epsilon=EPS_T, bounds=(0, 1), axis=1, random_state=rs)),
    "percentile": _tool(lambda X, rs: T.percentile(X[:, 0], 40, epsilon=EPS_T, bounds=(0, 1), random_state=rs)),
    "percentile:multi": _tool(lambda X, rs: T.percentile(X[:, 0], [10, 90], epsilon=EPS_T, bounds=(0, 1), random_state=rs)),
})

MD = dp.models


def tree_arrays(t):
    tr = t.tree_
    return [tr.feature, tr.threshold, tr.children_left, tr.children_right, tr.value]


def forest_outputs(m, Xt):
    out = []
    for t in m.estimators_:
        out += tree_arrays(t)
    out += [m.predict_proba(Xt), m.classes_]
    return out


def _model(f, classes=3, n=60):
    def fn(case_seed, rs):
        r, X, y = _data(case_seed, n=n, classes=classes)
        Xt = X[:7] * 0.9 + 0.05
        with warnings.catch_warnings():
            warnings.simplefilter("ignore")
            return f(X, y, Xt, _rs(rs))
    return fn


def _attrs(m, names):
    return [getattr(m, n) for n in names]


def _lab(kind):
    """class labels of another type.  (bytes labels are rejected by sklearn's target validation, ExponentialCategorical
    accepts only str keys, mixed-type label arrays cannot be sorted: those are not entry points.)"""
    names = {"str": ["ant", "bee", "cat", "dog", "eel"], "bytes": [b"ant", b"bee", b"cat", b"dog", b"eel"]}[kind]
    return lambda y: np.array([names[int(v)] for v in y])


def _spec(make, outs, fit=None, classes=3, labels=None, yfloat=False):
    return {"make": make, "outs": outs, "fit": fit or (lambda m, X, y: m.fit(X, y)), "classes": classes, "labels": labels,
            "yfloat": yfloat}


_LR_OUT = lambda m, Xt: [m.coef_, m.intercept_, m.predict_proba(Xt), m.classes_]          # noqa: E731
_NB_OUT = lambda m, Xt: _attrs(m, ["theta_", "var_", "class_count_", "class_prior_"]) + [m.predict_proba(Xt), m.classes_]  # noqa: E731
_TREE_OUT = lambda m, Xt: tree_arrays(m) + [m.predict_proba(Xt), m.predict(Xt)]         # noqa: E731
_FOREST_OUT = lambda m, Xt: forest_outputs(m, Xt) + [m.predict(Xt)]                     # noqa: E731
_STR3 = ["ant", "bee", "cat"]

# every estimator as (constructor from the seed, fit, observed outputs): the entry point is outs(fit(make(seed))); the
# re-use sequences of check_reuse work on the same three pieces
MODEL_SPECS = {
    "GaussianNB": _spec(lambda rs: MD.GaussianNB(epsilon=1.0, bounds=(0, 1), random_state=rs), _NB_OUT),
    "GaussianNB:priors": _spec(lambda rs: MD.GaussianNB(epsilon=1.0, bounds=(0, 1), priors=[0.2, 0.3, 0.5], random_state=rs),
                               lambda m, Xt: _attrs(m, ["theta_", "var_", "class_count_"])),
    "GaussianNB:str-labels": _spec(lambda rs: MD.GaussianNB(epsilon=1.0, bounds=(0, 1), random_state=rs), _NB_OUT, labels="str"),
    "KMeans": _spec(lambda rs: MD.KMeans(3, epsilon=1.0, bounds=(0, 1), random_state=rs),
                    lambda m, Xt: [m.cluster_centers_, m.predict(Xt)], fit=lambda m, X, y: m.fit(X)),
    "StandardScaler": _spec(lambda rs: MD.StandardScaler(epsilon=1.0, bounds=(0, 1), random_state=rs),
                            lambda m, Xt: _attrs(m, ["mean_", "var_", "scale_"]) + [m.transform(Xt)], fit=lambda m, X, y: m.fit(X)),
    "StandardScaler:no-std": _spec(lambda rs: MD.StandardScaler(epsilon=1.0, bounds=(0, 1), with_std=False, random_state=rs),
                                   lambda m, Xt: [m.mean_], fit=lambda m, X, y: m.fit(X)),
    "LinearRegression": _spec(lambda rs: MD.LinearRegression(epsilon=1.0, bounds_X=(0, 1), bounds_y=(0, 2), random_state=rs),
                              lambda m, Xt: [m.coef_, m.intercept_, m.predict(Xt)], yfloat=True),
    "LinearRegression:no-intercept": _spec(
        lambda rs: MD.LinearRegression(epsilon=1.0, bounds_X=(0, 1), bounds_y=(0, 2), fit_intercept=False, random_state=rs),
        lambda m, Xt: [m.coef_], yfloat=True),
    "LogisticRegression:binary": _spec(lambda rs: MD.LogisticRegression(epsilon=1.0, data_norm=2.0, random_state=rs), _LR_OUT, classes=2),
    "LogisticRegression:multiclass": _spec(lambda rs: MD.LogisticRegression(epsilon=1.0, data_norm=2.0, random_state=rs), _LR_OUT,
                                           classes=4),
    "LogisticRegression:no-intercept": _spec(
        lambda rs: MD.LogisticRegression(epsilon=1.0, data_norm=2.0, fit_intercept=False, random_state=rs),
        lambda m, Xt: [m.coef_]),
    "LogisticRegression:str-labels": _spec(lambda rs: MD.LogisticRegression(epsilon=1.0, data_norm=2.0, random_state=rs), _LR_OUT,
                                           classes=4, labels="str"),
    "LogisticRegression:str-labels:binary": _spec(lambda rs: MD.LogisticRegression(epsilon=1.0, data_norm=2.0, random_state=rs),
                                                  _LR_OUT, classes=2, labels="str"),
    "PCA": _spec(lambda rs: MD.PCA(2, epsilon=1.0, bounds=(0, 1), data_norm=2.0, random_state=rs),
                 lambda m, Xt: _attrs(m, ["components_", "explained_variance_", "mean_"]) + [m.transform(Xt)],
                 fit=lambda m, X, y: m.fit(X)),
    "PCA:centered:all-components": _spec(lambda rs: MD.PCA(epsilon=1.0, data_norm=2.0, centered=True, random_state=rs),
                                         lambda m, Xt: _attrs(m, ["components_", "explained_variance_"]),
                                         fit=lambda m, X, y: m.fit(X - 0.5)),
    "DecisionTreeClassifier": _spec(
        lambda rs: MD.DecisionTreeClassifier(max_depth=3, epsilon=1.0, bounds=(0, 1), classes=[0, 1, 2], random_state=rs), _TREE_OUT),
    "DecisionTreeClassifier:str-labels": _spec(
        lambda rs: MD.DecisionTreeClassifier(max_depth=3, epsilon=1.0, bounds=(0, 1), classes=_STR3, random_state=rs), _TREE_OUT,
        labels="str"),
    "RandomForestClassifier": _spec(
        lambda rs: MD.RandomForestClassifier(5, max_depth=3, epsilon=1.0, bounds=(0, 1), classes=[0, 1, 2], random_state=rs), _FOREST_OUT),
    "RandomForestClassifier:shuffle": _spec(
        lambda rs: MD.RandomForestClassifier(4, max_depth=3, epsilon=1.0, bounds=(0, 1), classes=[0, 1, 2], shuffle=True,
                                             random_state=rs), _FOREST_OUT),
    "RandomForestClassifier:str-labels": _spec(
        lambda rs: MD.RandomForestClassifier(4, max_depth=3, epsilon=1.0, bounds=(0, 1), classes=_STR3, random_state=rs), _FOREST_OUT,
        labels="str"),
}


def model_data(spec, case_seed, n=60):
    r, X, y = _data(case_seed, n=n, classes=spec["classes"])
    Xt = X[:7] * 0.9 + 0.05
    if spec["labels"]:
        y = _lab(spec["labels"])(y)
    elif spec["yfloat"]:
        y = y.astype(float)
    return X, y, Xt


def _model_entry(spec):
    def fn(case_seed, rs):
        X, y, Xt = model_data(spec, case_seed)
        with warnings.catch_warnings():
            warnings.simplefilter("ignore")
            m = spec["make"](_rs(rs))
            spec["fit"](m, X, y)
            return spec["outs"](m, Xt)
    return fn


MODEL_ENTRIES = {k: _model_entry(v) for k, v in MODEL_SPECS.items()}

ENTRIES = {}
ENTRIES.update({"mechanisms." + k: v for k, v in MECH_ENTRIES.items()})
ENTRIES.update({"tools." + k: v for k, v in TOOL_ENTRIES.items()})
ENTRIES.update({"models." + k: v for k, v in MODEL_ENTRIES.items()})


def catalogue_complete():
    """every mechanism class / tool / model of the library has at least one entry"""
    missing = []
    for c in seams.all_mechanism_classes():
        if not any(k.split(":")[0] == "mechanisms." + c.__name__ for k in ENTRIES):
            missing.append("mechanisms." + c.__name__)
    for n in dir(dp.tools):
        f = getattr(dp.tools, n)
        if n.startswith("_") or not callable(f) or inspect.isclass(f) or inspect.ismodule(f):
            continue
        if "random_state" not in inspect.signature(f).parameters:
            continue
        if not any(k.split(":")[0] == "tools." + n for k in ENTRIES):
            missing.append("tools." + n)
    for n in dir(dp.models):
        c = getattr(dp.models, n)
        if inspect.isclass(c) and not any(k.split(":")[0] == "models." + n for k in ENTRIES):
            missing.append("models." + n)
    return missing


def run_entry(name, case_seed, rs):
    # a fresh default accountant per call: the process-wide default would otherwise accumulate every spend of the run
    # (its total() is linear in the number of recorded spends, so the check would slow down quadratically)
    with seams.fresh_default_accountant():
        return ENTRIES[name](case_seed, rs)


# ------------------------------------------------------------------ fresh interpreter

CHILD_CODE = ("import sys, json; sys.path.insert(0, %r); from harness.props import c15; c15.child_main()" % leanio.VERIF)


def child_main():
    jobs = json.load(sys.stdin)
    out = []
    for name, case_seed, rs in jobs:
        try:
            out.append(digests(run_entry(name, case_seed, rs)))
        except Exception as e:  # noqa
            out.append(["EXC " + type(e).__name__ + ": " + str(e)[:100]])
    sys.stdout.write("\n@@RESULT@@" + json.dumps(out) + "\n")


FRESH_HASHSEEDS = (1, 2)


def run_in_fresh_interpreter(jobs, timeout=900, hashseed=1):
    env = _child_env()
    env["PYTHONHASHSEED"] = str(hashseed)        # ./check pins 0 for the parent: a different value in the child exposes
    p = subprocess.run([sys.executable, "-c", CHILD_CODE], input=json.dumps(jobs), capture_output=True, text=True,
                       cwd=leanio.VERIF, env=env, timeout=timeout)   # any dependence on str-hash / set order
    if p.returncode != 0 or "@@RESULT@@" not in p.stdout:
        raise RuntimeError("fresh interpreter failed: " + (p.stderr or p.stdout)[-1500:])
    return json.loads(p.stdout.split("@@RESULT@@", 1)[1])


# ------------------------------------------------------------------ call-history independence

@contextlib.contextmanager
def recording_constructions():
    """every mechanism constructed in the block keeps its (outermost) constructor keywords; yields the list of
    (class name, kwargs without random_state, first value randomised)"""
    import threading
    classes = seams.all_mechanism_classes()
    saved = []
    seen = []

    def wrap(cls, orig):
        def init(self, *a, **k):
            if "_verif_kwargs" not in self.__dict__ and not a:
                self.__dict__["_verif_kwargs"] = (type(self).__name__, {n: v for n, v in k.items() if n != "random_state"})
            return orig(self, *a, **k)
        return init
    for cls in classes:
        if "__init__" in cls.__dict__:
            saved.append((cls, cls.__dict__["__init__"]))
            setattr(cls, "__init__", wrap(cls, cls.__dict__["__init__"]))
    lock = threading.Lock()

    def on_call(call, idx):
        kw = call.obj.__dict__.get("_verif_kwargs")
        if kw is not None and type(call.obj).__name__ == kw[0]:
            with lock:
                if not call.obj.__dict__.get("_verif_seen"):
                    call.obj.__dict__["_verif_seen"] = True
                    seen.append((kw[0], kw[1], call.value))
        return seams.interpose.REAL
    try:
        with seams.interpose(force=on_call):
            yield seen
    finally:
        for cls, orig in saved:
            setattr(cls, "__init__", orig)


@contextlib.contextmanager
def pristine_mechanisms():
    """a freshly executed copy of diffprivlib.mechanisms (+ utils, validation): new class objects, so class-level memos,
    module-level caches and mutable defaults are in the state of 'nothing has been called yet in this process'
    (the construction builder-c03-c17 uses for C03's cross-instance stratum)"""
    import importlib
    import diffprivlib
    names = [k for k in sys.modules if k in ("diffprivlib.utils", "diffprivlib.validation", "diffprivlib.mechanisms")
             or k.startswith("diffprivlib.mechanisms.")]
    saved = {k: sys.modules.pop(k) for k in names}
    try:
        yield importlib.import_module("diffprivlib.mechanisms")
    finally:
        for k in [k for k in sys.modules if k in saved or k.startswith("diffprivlib.mechanisms.")]:
            del sys.modules[k]
        sys.modules.update(saved)
        diffprivlib.mechanisms = saved["diffprivlib.mechanisms"]
        diffprivlib.utils = saved["diffprivlib.utils"]
        diffprivlib.validation = saved["diffprivlib.validation"]


def one_field_variants(cls, kwargs):
    """constructor keywords differing from `kwargs` in exactly one field (also optional numeric fields left at their
    default); not all of them are valid parameter sets — the caller ignores the ones the library refuses"""
    out = []

    def put(k, v):
        kw = dict(kwargs)
        kw[k] = v
        out.append((k, kw))
    for k, v in kwargs.items():
        if isinstance(v, bool):
            put(k, not v)
        elif isinstance(v, (int, np.integer)):
            put(k, int(v) + 1)
            put(k, max(int(v) - 1, 0))
        elif isinstance(v, (float, np.floating)) and np.isfinite(v):
            if k == "delta":
                put(k, 0.0 if v else 0.05)
                put(k, min(0.9, v * 2 + 0.01))
            else:
                put(k, float(v) * 2)
                put(k, float(v) / 2)
                put(k, float(v) + 1.0)
        elif isinstance(v, (list, tuple)) and v and all(isinstance(x, (int, float, np.number)) for x in v):
            w = list(v)
            w[0] = float(w[0]) + 0.5
            put(k, w)
            put(k, list(v)[::-1])
    try:
        for name, prm in inspect.signature(cls.__init__).parameters.items():
            if name in kwargs or name in ("self", "random_state") or prm.default is inspect._empty:
                continue
            if name == "delta":
                put(name, 0.05)
            elif isinstance(prm.default, bool):
                put(name, not prm.default)
            elif isinstance(prm.default, (int, float)):
                put(name, prm.default * 2 + 1)
    except (TypeError, ValueError):
        pass
    return out


def _flat_out(o, kwargs):
    if callable(o):                                        # Vector returns the perturbed objective
        val, grad = o(np.ones(int(kwargs.get("dimension", 1))))
        return [float(val)] + [float(g) for g in np.ravel(grad)]
    return o


def run_construction(P, cname, kwargs, value, seed, n=6):
    m = getattr(P, cname)(random_state=seed, **kwargs)
    return [_flat_out(m.randomise(value) if value is not None else m.randomise(), kwargs) for _ in range(n)]


def history_outcomes(cname, kwargs, value, seed, prefix):
    """(result alone in a pristine package, result after the prefix in another pristine package)"""
    with warnings.catch_warnings():
        warnings.simplefilter("ignore")
        with pristine_mechanisms() as P:
            alone = run_construction(P, cname, kwargs, value, seed)
        with pristine_mechanisms() as P:
            for kw, sd in prefix:
                try:
                    run_construction(P, cname, kw, value, sd, n=2)
                except Exception:  # noqa  (an invalid one-field variant)
                    pass
            after = run_construction(P, cname, kwargs, value, seed)
    return alone, after


def _kw_repr(kwargs):
    return ", ".join(f"{k}={v!r}"[:60] for k, v in kwargs.items())


def describe_mechanisms(name, case_seed, rs):
    """the mechanisms an entry constructs, for messages"""
    try:
        with recording_constructions() as seen:
            run_entry(name, case_seed, rs)
        return "; constructs " + " / ".join(f"{c}({_kw_repr(k)}).randomise({v!r})"[:220] for c, k, v in seen[:2])
    except Exception:  # noqa
        return ""


def _preview(outs):
    return repr(np.asarray(outs[0]).ravel()[:3].tolist())[:80] if outs else ""


def check_history(ctx, per_entry):
    """for the mechanisms every entry point (tools and models included) actually constructs: the seeded result alone in a
    pristine package must equal the result after a prefix of seeded calls of the same class whose parameters differ in
    one field, and after the same call with another seed"""
    r = ctx.fork("history")
    done = set()
    n = 0
    for name in ENTRIES:
        case_seed, rs = r.randint(0, 10 ** 6), r.randint(0, 2 ** 31 - 2)
        try:
            with recording_constructions() as seen:
                run_entry(name, case_seed, rs)
        except Exception as e:  # noqa
            ctx.note(f"history: could not record {name}: {type(e).__name__}")
            continue
        taken = 0
        for cname, kwargs, value in seen:
            key = (cname, repr(sorted(kwargs.items(), key=lambda kv: kv[0]))[:400])
            if key in done or taken >= per_entry:
                continue
            done.add(key)
            taken += 1
            seed = r.randint(0, 2 ** 31 - 2)
            variants = one_field_variants(getattr(M, cname), kwargs)
            r.shuffle(variants)
            delta_first = sorted(variants, key=lambda v: v[0] != "delta")[:2]
            chosen = delta_first + [v for v in variants if v not in delta_first][:5]
            prefix = [(kw, r.randint(0, 2 ** 31 - 2)) for _, kw in chosen] + [(kwargs, seed + 1)]
            try:
                alone, after = history_outcomes(cname, kwargs, value, seed, prefix)
            except Exception as e:  # noqa
                ctx.note(f"history: {cname}({_kw_repr(kwargs)[:120]}) raised {type(e).__name__}")
                continue
            n += 1
            d = first_diff([_c(alone)], [_c(after)])
            ctx.case(("history", cname, key[1][:120]))
            if d:
                fields = [f for f, _ in chosen]
                ctx.violation(f"C15:mechanisms.{cname}:call-history",
                              f"{cname}({_kw_repr(kwargs)}, random_state={seed}).randomise({value!r}) (constructed by {name}) gives "
                              f"{alone[:2]} alone in a pristine package, but {after[:2]} after seeded calls of the same class "
                              f"differing in one of {fields} (and the same call with another seed)",
                              {"kind": "history", "cls": cname, "kwargs": kwargs, "value": value, "seed": seed,
                               "prefix": [[kw, sd] for kw, sd in prefix], "entry": name})
            else:
                ctx.trace_ok()
    ctx.count("call_history_comparisons", n)


def _c(outs):
    """canonical array / string for a list of mechanism outputs"""
    flat = []
    for o in outs:
        if isinstance(o, (str, bytes)) or o is None or isinstance(o, tuple):
            return repr(outs)
        flat += list(np.ravel(np.asarray(o, dtype=float)))
    return np.array(flat)


# ------------------------------------------------------------------ seed kinds

def seed_specs(r):
    """the kinds tried for every entry point: [label, spec]"""
    b = r.randint(1, 2 ** 31 - 2)
    return [("np.int64", ["np.int64", b, KIND_MOD["np.int64"]]),
            ("np.int32", ["np.int32", b, KIND_MOD["np.int32"]]),
            ("np.uint8", ["np.uint8", b, KIND_MOD["np.uint8"]]),
            ("RandomState", ["RandomState", b, KIND_MOD["RandomState"]]),
            ("int:0", ["int", 0, 2 ** 32]),
            ("int:2**32-1", ["int", 2 ** 32 - 1, 2 ** 32]),
            ("Generator", ["Generator", b, KIND_MOD["Generator"]]),
            ("SeedSequence", ["SeedSequence", b, KIND_MOD["SeedSequence"]])]


def check_seed_kinds(ctx, r, jobs):
    """every entry point x every kind of integer seed: an accepted kind must be reproducible (in-process here, in the
    fresh interpreter through `jobs`) and, where the library maps it to RandomState(value), equal to the equal int"""
    accepted = {}
    for name in ENTRIES:
        case_seed = r.randint(0, 10 ** 6)
        for label, spec in seed_specs(r):
            kind = spec[0]
            try:
                a = run_entry(name, case_seed, spec)
            except (TypeError, ValueError) as e:
                accepted.setdefault(label, [0, 0])[1] += 1
                if kind in CORE_KINDS or kind == "int":
                    ctx.disagree("seed-kinds", {"entry": name, "kind": label, "spec": spec}, "accepted",
                                 f"{type(e).__name__}: {str(e)[:120]}", "the library rejects a seed kind it used to accept")
                continue
            accepted.setdefault(label, [0, 0])[0] += 1
            data = {"kind": "entry", "entry": name, "case_seed": case_seed, "seed": spec, "seed_kind": label}
            d = first_diff(a, run_entry(name, case_seed, spec))
            ctx.case(("seed-kind", name, label))
            if d:
                ctx.violation(f"C15:{name}:repeat-in-process:{label}",
                              f"{name} with random_state={_describe(spec)} (input case {case_seed}) called twice in one "
                              f"process: output {d[0]} element {d[1]} is {d[2]!r} the first time and {d[3]!r} the second",
                              dict(data, check="repeat", first_difference=d))
                continue
            if kind in EQUAL_TO_INT:
                ref = run_entry(name, case_seed, ["int", spec[1], spec[2]])
                d = first_diff(ref, a)
                if d:
                    ctx.violation(f"C15:{name}:seed-kind-differs-from-int:{label}",
                                  f"{name} (input case {case_seed}): random_state={_describe(spec)} and the equal Python int "
                                  f"{spec[1] % spec[2]} give different results (output {d[0]} element {d[1]}: {d[3]!r} vs {d[2]!r})",
                                  dict(data, check="equal-int", first_difference=d))
                    continue
            jobs.append((name, case_seed, spec, digests(a)))
    ctx.note("seed kinds accepted by the library (entries accepting / rejecting): " +
             ", ".join(f"{k}: {v[0]}/{v[1]}" for k, v in accepted.items()))
    ctx.count("seed_kind_comparisons", sum(v[0] for v in accepted.values()))


def _describe(spec):
    kind, base, mod = spec
    v = int(base) % int(mod)
    return {"int": f"{v}", "RandomState": f"np.random.RandomState({v})", "Generator": f"np.random.default_rng({v})",
            "SeedSequence": f"np.random.SeedSequence({v})"}.get(kind, f"{kind}({v})")


# ------------------------------------------------------------------ (a) (b) (c) on the catalogue

def check_entries(ctx, n_cases, n_fresh):
    r = ctx.fork("entries")
    jobs = []
    noisy = 0
    for name in ENTRIES:
        for c in range(n_cases):
            case_seed = r.randint(0, 10 ** 6)
            rs1 = r.randint(0, 2 ** 31 - 2)
            rs2 = rs1 + 1 + r.randint(0, 1000)
            a = run_entry(name, case_seed, rs1)
            c2 = run_entry(name, case_seed, rs2)          # the repetition comes AFTER the same call with another seed
            b = run_entry(name, case_seed, rs1)
            d = first_diff(a, b)
            if d:
                ctx.violation(f"C15:{name}:repeat-in-process",
                              f"{name} with random_state={rs1} (input case {case_seed}) called twice in one process: output "
                              f"{d[0]} element {d[1]} is {d[2]!r} the first time and {d[3]!r} the second",
                              {"kind": "entry", "check": "repeat", "entry": name, "case_seed": case_seed, "seed": rs1,
                               "first_difference": d})
            same = first_diff(a, c2) is None
            if name in POINT_MASS:
                same = True                               # the law is a point mass: nothing to require of the seeds
            elif same:
                # astronomically unlikely by construction (see the criterion above the region entries): 8 seeds in all
                more = [run_entry(name, case_seed, rs2 + 17 + k) for k in range(6)]
                if all(first_diff(a, m) is None for m in more):
                    desc = describe_mechanisms(name, case_seed, rs1)
                    ctx.violation(f"C15:{name}:seed-insensitive",
                                  f"{name} (input case {case_seed}{desc}) returns bit-identical outputs "
                                  f"({_preview(a)}) for the 8 seeds random_state={rs1}, {rs2}, {rs2 + 17}..{rs2 + 22}: the seed "
                                  f"does not reach the noise",
                                  {"kind": "entry", "check": "seeds", "entry": name, "case_seed": case_seed, "seed": rs1,
                                   "seed2": rs2, "mechanisms": desc})
            else:
                noisy += 1
            ctx.case((name, case_seed, rs1) if not same else None)
            if c < n_fresh:
                jobs.append((name, case_seed, rs1, digests(a)))
    check_seed_kinds(ctx, r, jobs)
    ctx.count("entry_points", len(ENTRIES))
    ctx.count("repeat_comparisons", len(ENTRIES) * n_cases)
    ctx.count("seed_pairs_with_different_noise", noisy)
    # (b) two fresh interpreters with explicit, different PYTHONHASHSEEDs (the parent runs under ./check's 0) run every
    # entry once more: any dependence on str/bytes hashes or set order shows deterministically
    for hs in FRESH_HASHSEEDS:
        # the second child also runs the jobs in REVERSED order: a result that depends on what was called before it in
        # the process differs between the two orders
        order = list(range(len(jobs))) if hs == FRESH_HASHSEEDS[0] else list(range(len(jobs)))[::-1]
        got = run_in_fresh_interpreter([jobs[i][:3] for i in order], hashseed=hs)
        res = [None] * len(jobs)
        for i, g in zip(order, got):
            res[i] = g
        for (name, case_seed, rs1, dg), child in zip(jobs, res):
            ctx.case(None)
            if child != dg:
                k = next((i for i, (x, y) in enumerate(zip(dg, child)) if x != y), -1)
                lab = "" if isinstance(rs1, int) else ":" + rs1[0]
                ctx.violation(f"C15:{name}:fresh-process{lab}",
                              f"{name} with random_state={rs1 if isinstance(rs1, int) else _describe(rs1)} (input case "
                              f"{case_seed}): output {k} computed in a fresh interpreter (PYTHONHASHSEED={hs}) differs from the "
                              f"one computed in this process (PYTHONHASHSEED={os.environ.get('PYTHONHASHSEED', 'random')}): "
                              f"{child[k] if k >= 0 else child} vs {dg[k] if k >= 0 else dg}",
                              {"kind": "entry", "check": "fresh", "entry": name, "case_seed": case_seed, "seed": rs1,
                               "hashseed": hs, "digest_here": dg, "digest_fresh": child})
            else:
                ctx.trace_ok()
    ctx.count("fresh_interpreter_comparisons", len(jobs) * len(FRESH_HASHSEEDS))


# ------------------------------------------------------------------ re-use of one estimator object

def reuse_sequences(spec, case_seed, seed):
    """name -> outputs; every one of them must equal outputs["fresh"]"""
    from sklearn.base import clone
    X, y, Xt = model_data(spec, case_seed)
    res = {}
    with warnings.catch_warnings(), seams.fresh_default_accountant():
        warnings.simplefilter("ignore")
        def fitted(m):
            spec["fit"](m, X, y)
            return spec["outs"](m, Xt)
        res["fresh"] = fitted(spec["make"](seed))
        m = spec["make"](seed)
        res["fit #1"] = fitted(m)
        res["fit #2 on the same object"] = fitted(m)
        res["fit #3 on the same object"] = fitted(m)
        res["clone of the fitted object"] = fitted(clone(m))
        m.set_params(random_state=seed)
        res["fit after set_params(random_state=same)"] = fitted(m)
        res["clone of an unfitted object"] = fitted(clone(spec["make"](seed)))
        m2 = spec["make"](seed)
        fitted(m2)
        _ = spec["outs"](m2, Xt)                 # predicting / transforming in between must not matter either
        res["fit, predict, fit"] = fitted(m2)
        if hasattr(m, "partial_fit") and spec["labels"] is None and not spec["yfloat"]:
            def batches(mm):
                h = len(X) // 2
                out = []
                for sl in (slice(0, h), slice(h, None), slice(0, h)):
                    if "classes" in inspect.signature(mm.partial_fit).parameters:
                        mm.partial_fit(X[sl], y[sl], classes=np.unique(y))
                    else:
                        mm.partial_fit(X[sl])
                    out += spec["outs"](mm, Xt)
                return out
            res["partial_fit x3 (object A)"] = batches(spec["make"](seed))
            res["partial_fit x3 (object B)"] = batches(spec["make"](seed))
            mm = spec["make"](seed)
            fitted(mm)                            # a previous fit must not influence a fresh sequence after fit()
            res["fit after partial_fit equals fresh"] = (batches(mm), fitted(mm))[1]
    return res


def check_reuse(ctx, n_cases):
    r = ctx.fork("reuse")
    for name, spec in MODEL_SPECS.items():
        for _ in range(n_cases):
            case_seed, seed = r.randint(0, 10 ** 6), r.randint(0, 2 ** 31 - 2)
            res = reuse_sequences(spec, case_seed, seed)
            ref = res["fresh"]
            bad = False
            for seq, outs in res.items():
                if seq.startswith("partial_fit x3"):
                    cmp_to, what = res["partial_fit x3 (object A)"], "the same sequence on another fresh object"
                else:
                    cmp_to, what = ref, "a fresh estimator fitted once"
                d = first_diff(cmp_to, outs)
                if d:
                    bad = True
                    tag = seq.split(" (")[0].replace(" ", "-")
                    ctx.violation(f"C15:models.{name}:reuse:{tag}",
                                  f"models.{name} with random_state={seed} (input case {case_seed}): `{seq}` differs from {what}: "
                                  f"output {d[0]} element {d[1]} is {d[3]!r} vs {d[2]!r}",
                                  {"kind": "reuse", "entry": name, "case_seed": case_seed, "seed": seed, "sequence": seq,
                                   "first_difference": d})
                    break
            ctx.case(("reuse", name, case_seed, seed))
            if not bad:
                ctx.trace_ok()
    ctx.count("reuse_sequences_compared", len(MODEL_SPECS) * n_cases)


# ------------------------------------------------------------------ (d) n_jobs and completion order

N_JOBS = (1, 2, 4, 8)


def forest_case(r):
    n = r.choice([17, 40, 64, 100, 150, 233])
    k = r.choice([2, 3, 5, 6, 8, 12])
    return {"n": n, "k": k, "d": r.randint(2, 4), "depth": r.randint(2, 5), "shuffle": r.chance(0.5),
            "data_seed": r.randint(0, 10 ** 6), "seed": r.randint(0, 2 ** 31 - 2), "eps": r.choice([0.5, 1.0, 5.0])}


def forest_data(c):
    """column 0 carries the row number (exactly representable in float32), so that a tree reveals the rows it got"""
    r = gen.SplitMix64(c["data_seed"])
    n, d = c["n"], c["d"]
    X = np.array([[float(i)] + [r.u01() for _ in range(d)] for i in range(n)])
    y = np.array([r.randint(0, 2) for _ in range(n)])
    bounds = (np.array([0.0] + [0.0] * d), np.array([float(n)] + [1.0] * d))
    Xt = np.array([[r.uniform(0, n)] + [r.u01() for _ in range(d)] for _ in range(9)])
    return X, y, bounds, Xt


def fit_forest(c, n_jobs, random_state=None):
    X, y, bounds, Xt = forest_data(c)
    with warnings.catch_warnings(), seams.fresh_default_accountant():
        warnings.simplefilter("ignore")
        m = MD.RandomForestClassifier(c["k"], max_depth=c["depth"], epsilon=c["eps"], bounds=bounds, classes=[0, 1, 2],
                                      n_jobs=n_jobs, shuffle=c["shuffle"],
                                      random_state=c["seed"] if random_state is None else random_state).fit(X, y)
        return m, forest_outputs(m, Xt)


class _patched:
    """temporarily replace attributes (in-process, public names only); restored on exit"""

    def __init__(self, *triples):
        self.triples = triples

    def __enter__(self):
        self.saved = [(o, n, getattr(o, n)) for o, n, _ in self.triples]
        for o, n, v in self.triples:
            setattr(o, n, v)

    def __exit__(self, *a):
        for o, n, v in self.saved:
            setattr(o, n, v)


def fit_forest_perturbed(c, n_jobs, order_seed):
    """same fit, but every tree task sleeps a (seeded) random time before and after fitting, so that the workers
    start and finish in a scrambled order"""
    F = dp.models.forest
    orig = F._parallel_build_trees
    rr = gen.SplitMix64(order_seed)
    delays = [(rr.uniform(0, 0.02), rr.uniform(0, 0.02)) for _ in range(c["k"])]
    finished = []

    def slow(tree, *a, **kw):
        i = kw.get("tree_idx", 0)
        time.sleep(delays[i][0])
        out = orig(tree, *a, **kw)
        time.sleep(delays[i][1])
        finished.append(i)
        return out
    with _patched((F, "_parallel_build_trees", slow)):
        m, outs = fit_forest(c, n_jobs)
    return outs, finished


def describe_forest_diff(d, k):
    names = ["feature", "threshold", "children_left", "children_right", "value"]
    i = d[0]
    if 0 <= i < 5 * k:
        return f"tree {i // 5} attribute tree_.{names[i % 5]}[{d[1]}]: {d[2]!r} vs {d[3]!r}"
    if i == 5 * k:
        return f"predict_proba element {d[1]}: {d[2]!r} vs {d[3]!r}"
    return f"output {i}: {d[2]!r} vs {d[3]!r}"


def check_forest_njobs(ctx, c):
    ref = fit_forest(c, 1)[1]
    for nj in N_JOBS[1:]:
        outs = fit_forest(c, nj)[1]
        d = first_diff(ref, outs)
        ctx.case(("forest-njobs", c["n"], c["k"], c["shuffle"], nj, c["seed"]))
        if d:
            ctx.violation("C15:forest:n_jobs",
                          f"RandomForestClassifier(n_estimators={c['k']}, random_state={c['seed']}, shuffle={c['shuffle']}) on "
                          f"{c['n']} rows: n_jobs=1 and n_jobs={nj} differ at {describe_forest_diff(d, c['k'])}",
                          {"kind": "forest-njobs", "case": c, "n_jobs": [1, nj], "first_difference": d})
            return False
    outs, finished = fit_forest_perturbed(c, 4, c["seed"] + 5)
    d = first_diff(ref, outs)
    ctx.case(("forest-order", c["n"], c["k"], tuple(finished)))
    if finished != sorted(finished):
        ctx.count("forest_fits_with_scrambled_completion_order")
    if d:
        ctx.violation("C15:forest:completion-order",
                      f"RandomForestClassifier(n_estimators={c['k']}, random_state={c['seed']}) with n_jobs=4 and tree tasks "
                      f"finishing in order {finished} differs from the sequential fit at {describe_forest_diff(d, c['k'])}",
                      {"kind": "forest-order", "case": c, "n_jobs": [1, 4], "finished": finished, "first_difference": d})
        return False
    ctx.trace_ok()
    return True


def logreg_case(r, many=False):
    return {"n": r.choice([120, 200]) if not many else 480, "d": r.randint(2, 4),
            "classes": r.choice([3, 4, 5]) if not many else 24, "data_seed": r.randint(0, 10 ** 6),
            "seed": r.randint(0, 2 ** 31 - 2), "intercept": r.chance(0.7), "max_iter": 100 if not many else 5}


def fit_logreg(c, n_jobs):
    r = gen.SplitMix64(c["data_seed"])
    X = np.array([[r.uniform(-1, 1) for _ in range(c["d"])] for _ in range(c["n"])])
    y = np.arange(c["n"]) % c["classes"]
    Xt = X[:6] * 0.5
    with warnings.catch_warnings(), seams.fresh_default_accountant():
        warnings.simplefilter("ignore")
        m = MD.LogisticRegression(epsilon=1.0, data_norm=2.0, n_jobs=n_jobs, fit_intercept=c["intercept"],
                                  max_iter=c["max_iter"], random_state=c["seed"]).fit(X, y)
        return [m.coef_, m.intercept_, m.predict_proba(Xt)]


def _numerically_equal(a, b, rel=1e-6):
    return all(np.shape(x) == np.shape(y) and np.allclose(x, y, rtol=rel, atol=rel * max(1.0, float(np.max(np.abs(x)))))
               for x, y in zip(a, b))


def describe_logreg_diff(d):
    return f"{['coef_', 'intercept_', 'predict_proba'][d[0]] if 0 <= d[0] < 3 else d[0]} element {d[1]}: {d[2]!r} vs {d[3]!r}"


def check_logreg(ctx, cases):
    _arm_workers()
    refs = [fit_logreg(c, 1) for c in cases]
    ok = [True] * len(cases)
    for nj in N_JOBS[1:]:                       # outer loop over n_jobs: the loky pool is resized only three times
        for i, c in enumerate(cases):
            if not ok[i]:
                continue
            outs = fit_logreg(c, nj)
            d = first_diff(refs[i], outs)
            ctx.case(("logreg-njobs", c["n"], c["classes"], nj, c["seed"]))
            if d and _numerically_equal(refs[i], outs):
                # not a seeding difference: the optimiser ran in another process (other BLAS threading) and its result
                # moved in the last digits; wrong / reused noise moves coefficients by O(1)
                ctx.boundary_skipped += 1
                ctx.count("logreg_njobs_equal_up_to_1e-6_only")
                continue
            if d:
                ok[i] = False
                ctx.violation("C15:logreg:shared-rng:n_jobs",
                              f"LogisticRegression(random_state={c['seed']}, fit_intercept={c['intercept']}) on {c['n']} rows, "
                              f"{c['classes']} classes: n_jobs=1 and n_jobs={nj} differ at {describe_logreg_diff(d)}",
                              {"kind": "logreg-njobs", "case": c, "n_jobs": [1, nj], "first_difference": d})
    # the same under the threading backend (`prefer='processes'` is only a hint: a caller's joblib context overrides it)
    import joblib
    for i, c in enumerate(cases):
        if not ok[i]:
            continue
        with joblib.parallel_config(backend="threading"):
            outs = fit_logreg(c, 4)
        d = first_diff(refs[i], outs)
        ctx.case(("logreg-njobs-threads", c["n"], c["classes"], c["seed"]))
        if d and not _numerically_equal(refs[i], outs):
            ok[i] = False
            ctx.violation("C15:logreg:shared-rng:n_jobs",
                          f"LogisticRegression(random_state={c['seed']}, fit_intercept={c['intercept']}) on {c['n']} rows, "
                          f"{c['classes']} classes: n_jobs=1 and n_jobs=4 (threading backend) differ at {describe_logreg_diff(d)}",
                          {"kind": "logreg-njobs", "case": c, "n_jobs": [1, 4], "backend": "threading", "first_difference": d})
    for i in range(len(cases)):
        if ok[i]:
            ctx.trace_ok()


def check_logreg_repeat(ctx, c, reps=3):
    _arm_workers()
    ref = fit_logreg(c, 2)
    for k in range(reps):
        outs = fit_logreg(c, 2)
        d = first_diff(ref, outs)
        ctx.case(("logreg-repeat", c["classes"], c["seed"], k))
        if d and _numerically_equal(ref, outs):
            ctx.boundary_skipped += 1
            ctx.count("logreg_njobs_equal_up_to_1e-6_only")
            continue
        if d:
            ctx.violation("C15:logreg:shared-rng:repeat",
                          f"LogisticRegression(random_state={c['seed']}, n_jobs=2) on {c['n']} rows, {c['classes']} classes: "
                          f"repetition {k + 2} differs from the first fit at {describe_logreg_diff(d)}",
                          {"kind": "logreg-repeat", "case": c, "n_jobs": [2, 2], "first_difference": d})
            return
    ctx.trace_ok()


# ------------------------------------------------------------------ (e) interposition: the discipline itself

class LoggingRandomState(np.random.RandomState):
    """the parent generator, passed through the public `random_state=` argument; logs every draw made from it"""

    def __init__(self, seed, log):
        super().__init__(seed)
        self._vlog = log

    def _logged(name, keep):
        def method(self, *a, **k):
            v = getattr(np.random.RandomState, name)(self, *a, **k)
            self._vlog.append(("parent." + name, threading.get_ident(), np.array(v).ravel().tolist() if keep else None))
            return v
        method.__name__ = name
        return method

    randint = _logged("randint", True)
    permutation = _logged("permutation", True)
    # every other way of drawing from the parent is logged too (`random` delegates to `random_sample` inside numpy)
    for _m in ("random_sample", "uniform", "rand", "randn", "normal", "standard_normal", "choice", "shuffle", "bytes",
               "random_integers", "tomaxint", "exponential", "laplace", "geometric", "binomial"):
        locals()[_m] = _logged(_m, False)
    del _m, _logged


def observe_forest(c, n_jobs):
    """fit with a logging parent generator, the task function wrapped, and every mechanism call interposed.
    Returns dict(log, seeds, rows, mech_rngs, perm, outs, parent)."""
    F = dp.models.forest
    log = []
    parent = LoggingRandomState(c["seed"], log)
    orig = F._parallel_build_trees
    tl = threading.local()
    rows, seeds, tree_rs = {}, {}, {}
    mech = []

    def task(tree, *a, **kw):
        i = kw["tree_idx"]
        X = kw["X"]
        rows[i] = np.asarray(X)[:, 0].astype(int).tolist()
        seeds[i] = tree.random_state
        log.append(("task.start", threading.get_ident(), i))
        tl.idx = i
        try:
            return orig(tree, *a, **kw)
        finally:
            tl.idx = None
            log.append(("task.end", threading.get_ident(), i))

    def on_call(call, idx):
        mech.append((getattr(tl, "idx", None), call.cls, call.obj._rng))
        return seams.interpose.REAL

    orig_ft_init = F._FittingTree.__init__

    def ft_init(self, *a, **kw):
        orig_ft_init(self, *a, **kw)
        tree_rs.setdefault(getattr(tl, "idx", None), []).append(self.random_state)

    with _patched((F, "_parallel_build_trees", task), (F._FittingTree, "__init__", ft_init)), \
            seams.interpose(force=on_call):
        m, outs = fit_forest(c, n_jobs, random_state=parent)
    perm = next((e[2] for e in log if e[0] == "parent.permutation"), None)
    return {"log": log, "seeds": seeds, "rows": rows, "mech": mech, "tree_rs": tree_rs, "perm": perm, "outs": outs,
            "parent": parent}


def _subsequence(xs, ys):
    it = iter(ys)
    return all(any(x == y for y in it) for x in xs)


def check_discipline(ctx, c, n_jobs, lean_lines, lean_expect):
    """direct checks on one instrumented fit; queues the subset correspondence for the Lean driver"""
    o = observe_forest(c, n_jobs)
    k, n = c["k"], c["n"]
    data = {"kind": "forest-discipline", "case": c, "n_jobs": [n_jobs, n_jobs]}
    log = o["log"]
    first_task = next((i for i, e in enumerate(log) if e[0] == "task.start"), len(log))
    late = [e for e in log[first_task:] if e[0].startswith("parent.")]
    drawn = [v for e in log[:first_task] if e[0] == "parent.randint" for v in e[2]]
    ok = True
    if late:
        ctx.violation("C15:forest:seeds-drawn-inside-parallel-section",
                      f"RandomForestClassifier(n_estimators={k}, n_jobs={n_jobs}, random_state={c['seed']}): the parent "
                      f"generator is used after the first tree task has started ({len(late)} draws: {late[0][0]} …), so the "
                      f"streams depend on the schedule", dict(data, late_draws=[e[0] for e in late[:5]]))
        ok = False
    got = [o["seeds"].get(i) for i in range(k)]
    if ok and (not all(isinstance(s, (int, np.integer)) for s in got) or not _subsequence([int(s) for s in got], drawn)):
        ctx.violation("C15:forest:seeds-not-from-parent-in-order",
                      f"RandomForestClassifier(n_estimators={k}, random_state={c['seed']}): the trees' random_state values "
                      f"{[repr(s)[:24] for s in got][:4]}… are not (in order) among the integers drawn from the parent before "
                      f"the parallel section ({drawn[:4]}…, {len(drawn)} drawn)", dict(data, seeds=[repr(s)[:40] for s in got], drawn=drawn[:k + 2]))
        ok = False
    # generators: one per tree, none shared, none is the parent
    per_tree = {}
    for idx, cls, rng in o["mech"]:
        per_tree.setdefault(idx, []).append(rng)
    for idx, lst in o["tree_rs"].items():
        per_tree.setdefault(idx, []).extend(lst)
    owners = {}
    shared = None
    for idx, rngs in per_tree.items():
        for g in rngs:
            if g is o["parent"] or (id(g) in owners and owners[id(g)] != idx) or not isinstance(g, np.random.RandomState):
                shared = (idx, owners.get(id(g)), type(g).__name__, g is o["parent"])
            owners.setdefault(id(g), idx)
        if len({id(g) for g in rngs}) != 1:
            shared = shared or (idx, idx, "several generators inside one tree", False)
    if shared and ok:
        ctx.violation("C15:forest:shared-rng",
                      f"RandomForestClassifier(n_estimators={k}, n_jobs={n_jobs}, random_state={c['seed']}): tree {shared[0]} draws "
                      f"from a generator that is {'the parent generator' if shared[3] else 'also used by tree ' + str(shared[1])} "
                      f"({shared[2]})", dict(data, detail=[str(x) for x in shared]))
        ok = False
    ctx.count("mechanism_calls_interposed", len(o["mech"]))
    # the instrumented fit equals the plain integer-seeded fit
    plain = fit_forest(c, 1)[1]
    d = first_diff(plain, o["outs"])
    if d and ok:
        ctx.violation("C15:forest:n_jobs" if n_jobs > 1 else "C15:forest:repeat",
                      f"RandomForestClassifier(n_estimators={k}, random_state={c['seed']}): the fit with n_jobs={n_jobs} (parent "
                      f"generator passed as RandomState({c['seed']})) differs from the n_jobs=1 fit at {describe_forest_diff(d, k)}",
                      dict(data, n_jobs=[1, n_jobs], first_difference=d))
        ok = False
    # subsets: direct property (partition) and correspondence with the Lean model
    rows = [o["rows"].get(i, None) for i in range(k)]
    allrows = sorted(x for rws in rows if rws is not None for x in rws)
    if any(rws is None for rws in rows) or allrows != list(range(n)):
        ctx.violation("C15:forest:subsets-not-partition",
                      f"RandomForestClassifier(n_estimators={k}) on {n} rows (shuffle={c['shuffle']}): the rows handed to the trees "
                      f"are not a partition of the data (sizes {[len(x) if x is not None else None for x in rows]})",
                      dict(data, sizes=[len(x) if x is not None else None for x in rows]))
        ok = False
    else:
        tree_of = [None] * n
        for i, rws in enumerate(rows):
            for x in rws:
                tree_of[x] = i
        if c["shuffle"] and o["perm"] is not None:
            lean_lines.append("subsetsp %d %s" % (k, " ".join(map(str, o["perm"]))))
        else:
            lean_lines.append("subsets %d %d" % (n, k))
        lean_expect.append((("forest.subsets", {"n": n, "k": k, "shuffle": c["shuffle"], "seed": c["seed"]}), tree_of))
    ctx.case(("discipline", n, k, c["shuffle"], n_jobs, c["seed"]))
    return ok


def source_expression():
    """the row -> tree expression as it stands in forest.py (static tie; None if the code shape changed)"""
    try:
        src = inspect.getsource(MD.RandomForestClassifier.fit)
        tree = ast.parse("class _:\n" + src if src.startswith("    ") else src)
        for node in ast.walk(tree):
            if isinstance(node, ast.Assign) and len(node.targets) == 1 and isinstance(node.targets[0], ast.Name) \
                    and node.targets[0].id == "tree_idxs" and "//" in ast.unparse(node.value):
                return ast.unparse(node.value)
    except Exception:  # noqa
        return None
    return None


def check_subset_sweep(ctx, n_pairs, lean_lines, lean_expect):
    expr = source_expression()
    if expr is None:
        ctx.note("static tie unavailable: the assignment `tree_idxs = … // …` was not found in RandomForestClassifier.fit; "
                 "the row -> tree arithmetic is compared on instrumented fits only")
        return
    ctx.note("row -> tree expression taken from forest.py: " + expr)
    code = compile(expr, "<forest.py>", "eval")
    r = ctx.fork("sweep")
    pairs = [(10, 6), (14, 12), (15, 9), (25, 15), (1, 1), (7, 7), (3, 8), (1000, 7)]
    while len(pairs) < n_pairs:
        n = r.choice([r.randint(1, 60), r.randint(1, 400), r.randint(1, 3000)])
        k = r.choice([r.randint(1, 12), r.randint(1, 64), r.randint(1, max(1, n))])
        pairs.append((n, k))
    for n, k in pairs:
        got = eval(code, {"np": np, "tree_idxs": np.arange(n), "n_samples": n, "n_more_estimators": k, "int": int})
        got = np.asarray(got).tolist()
        if got and (min(got) < 0 or max(got) >= k):
            ctx.violation("C15:forest:subsets-not-partition",
                          f"`{expr}` with n_samples={n}, n_more_estimators={k} sends a row to tree {max(got)} (only {k} trees): "
                          f"that row would be dropped", {"kind": "subset-expr", "n": n, "k": k, "expr": expr})
        lean_lines.append("subsets %d %d" % (n, k))
        lean_expect.append((("forest.tree_idxs-expression", {"n": n, "k": k}), got))
        exact = [(i * k) // n for i in range(n)]
        if exact != got:
            ctx.count("pairs_where_double_floor_divide_differs_from_exact")
        ctx.case(("subset-expr", n, k) if exact != got else None)


# ------------------------------------------------------------------ the check

def generate(ctx):
    """translator tie (shared with C14): the table of `random_state` hand-overs is re-read from /repo's AST on every run;
    `DPL.Gen.C14.external_passes` proves that what reaches the joblib-delayed tasks and sklearn's `_make_estimator` is exactly
    the hand table `RngSites.externalPasses`, about which C15.lean proves `parallel_tasks_get_seeds`"""
    from ..translate import rngsites
    from ..shim import REPO
    try:
        rngsites.generate(REPO, leanio.LEAN)
    except rngsites.TranslatorError as e:
        return {"unavailable": [f"C14Sites (hand-overs to parallel tasks): {e}"]}
    return {"build": ["DPL.Generated.C14Sites"], "obligations": 1}


def check(ctx):
    t_phase = [time.time()]

    def phase(name):
        now = time.time()
        ctx.count("seconds:" + name, round(now - t_phase[0], 1))
        t_phase[0] = now
    miss = catalogue_complete()
    if miss:
        ctx.disagree("catalogue", miss, "every public entry point has an entry", "no entry for " + ", ".join(miss),
                     "a new entry point with random_state= is not covered by the C15 catalogue")
    # (a)(b)(c)
    check_entries(ctx, n_cases=ctx.budget(3, 100), n_fresh=ctx.budget(1, 10))
    phase("entries (a)(b)(c)")
    check_history(ctx, per_entry=2)
    phase("call history")
    check_reuse(ctx, ctx.budget(2, 30))
    phase("estimator re-use")
    # (d) forest
    r = ctx.fork("parallel")
    fcases = [forest_case(r) for _ in range(ctx.budget(8, 500))]
    for c in fcases:
        check_forest_njobs(ctx, c)
    phase("forest n_jobs (d)")
    # (e) discipline + subsets
    lean_lines, lean_expect = [], []
    for i, c in enumerate(fcases[:ctx.budget(8, 250)]):
        check_discipline(ctx, c, N_JOBS[i % 4], lean_lines, lean_expect)
    phase("forest discipline (e)")
    check_subset_sweep(ctx, ctx.budget(200, 10000), lean_lines, lean_expect)
    outs = leanio.run_driver("Schedule", lean_lines)
    for (unit, inp), impl, out in zip((e[0] for e in lean_expect), (e[1] for e in lean_expect), outs):
        model = [int(x) for x in out.split()] if out != "bad-op" and out else []
        if model != list(impl):
            j = next((i for i, (a, b) in enumerate(zip(model, impl)) if a != b), min(len(model), len(impl)))
            ctx.disagree(unit, inp, {"row": j, "tree": model[j] if j < len(model) else None},
                         {"row": j, "tree": impl[j] if j < len(impl) else None}, "row -> tree index")
        else:
            ctx.trace_ok()
    ctx.count("subset_vectors_compared", len(lean_lines))
    # the toy instance of the schedule model: owned generators are schedule independent, a shared one is not
    toy = leanio.run_driver("Schedule", ["sched 3 42 ; 2 1 2 ; 2 0 1 2 0", "sched 2 1 ; 1 1 ; 1 0"])
    for line in toy:
        parts = line.split(" ;; ")
        if len(parts) != 4 or parts[0] != parts[1] or parts[2] == parts[3]:
            ctx.disagree("schedule.toy", "sched", line, "owned: equal, shared: different")
    phase("subset sweep + Lean driver")
    # (d) logistic regression (process workers)
    lcases = [logreg_case(r) for _ in range(ctx.budget(4, 80))]
    check_logreg(ctx, lcases)
    check_logreg_repeat(ctx, logreg_case(r, many=True), reps=ctx.budget(3, 8))
    phase("logistic regression n_jobs (d)")
    ctx.sample({"entry": "models.RandomForestClassifier", "case": fcases[0], "n_jobs_compared": list(N_JOBS),
                "lean_subset_line": lean_lines[0], "model_answer": outs[0][:60]})
    ctx.sample({"entry_points": sorted(ENTRIES)[:12] + ["…"], "total": len(ENTRIES)})


# ------------------------------------------------------------------ replay

def replay(ctx, data):
    d = data["data"]
    kind = d.get("kind")

    class _C:
        boundary_skipped = 0

        def __init__(self):
            self.v = []

        def violation(self, *a):
            self.v.append(a)

        def case(self, *a, **k):
            pass

        def count(self, *a, **k):
            pass

        def trace_ok(self, *a):
            pass

        def note(self, *a):
            pass

        def disagree(self, *a, **k):
            pass
    c = _C()
    if kind == "entry":
        name, cs, rs = d["entry"], d["case_seed"], d["seed"]
        a = run_entry(name, cs, rs)
        if d["check"] == "repeat":
            return first_diff(a, run_entry(name, cs, rs)) is not None
        if d["check"] == "fresh":
            return any(run_in_fresh_interpreter([(name, cs, rs)], hashseed=hs)[0] != digests(a) for hs in FRESH_HASHSEEDS)
        if d["check"] == "equal-int":
            return first_diff(a, run_entry(name, cs, ["int", rs[1], rs[2]])) is not None
        return all(first_diff(a, run_entry(name, cs, s)) is None for s in [d["seed2"]] + [d["seed2"] + 17 + k for k in range(6)])
    if kind in ("forest-njobs", "forest-order"):
        check_forest_njobs(c, d["case"])
    elif kind == "forest-discipline":
        check_discipline(c, d["case"], d["n_jobs"][1], [], [])
    elif kind == "logreg-njobs":
        check_logreg(c, [d["case"]])
    elif kind == "logreg-repeat":
        check_logreg_repeat(c, d["case"], reps=6)
    elif kind == "history":
        from ..core import unjson_float as u

        def fix(x):
            if isinstance(x, list):
                return [fix(y) for y in x]
            if isinstance(x, dict):
                return {k: fix(v) for k, v in x.items()}
            return u(x)
        kwargs, value = fix(d["kwargs"]), fix(d["value"])
        if d["cls"] == "Bingham":
            value = np.array(value)
        alone, after = history_outcomes(d["cls"], kwargs, value, d["seed"], [(fix(kw), sd) for kw, sd in d["prefix"]])
        return first_diff([_c(alone)], [_c(after)]) is not None
    elif kind == "reuse":
        res = reuse_sequences(MODEL_SPECS[d["entry"]], d["case_seed"], d["seed"])
        cmp_to = res["partial_fit x3 (object A)"] if d["sequence"].startswith("partial_fit x3") else res["fresh"]
        return first_diff(cmp_to, res[d["sequence"]]) is not None
    elif kind == "subset-expr":
        expr = source_expression()
        got = np.asarray(eval(expr, {"np": np, "tree_idxs": np.arange(d["n"]), "n_samples": d["n"],
                                     "n_more_estimators": d["k"], "int": int})).tolist()
        return bool(got) and (min(got) < 0 or max(got) >= d["k"])
    for v in c.v:
        print("replay:", v[0], v[1][:300])
    return bool(c.v)
