"""C09 — a query or fit charges exactly its epsilon, once, to the right accountant (DESIGN.md §6 C09).

For each entry point (every tool incl. axis / keepdims / multi-quantile configurations with 1..400 output cells, all 8
estimators) x accountant state (unlimited; finite with remaining budget <, = (exactly), > epsilon; with slack) x
resolution mode (explicit argument / `with acc:` / set_default; estimators: the accountant in force AT CONSTRUCTION,
the default is switched to a decoy before `fit`):
  * direct check on the implementation: recorded spends of ALL live accountants (target, previous default, decoys)
    before/after, number of mechanism invocations (seams.interpose), fitted state on error;
  * correspondence: the same scenario through the Lean charged-query model + accountant machine (Drivers/Tools.lean,
    `charge` lines): result kind, spends appended per accountant, totals.
"""
import copy
import math
import pickle
import warnings

from ..shim import dp, np
from .. import gen, leanio, seams
from ..gen import f2b, b2f
from ..core import unjson_float
from . import c07 as T

PROPERTY = "C09"
LEAN_MODULE = "DPL.Properties.C09"
TRUSTED = [
    "modelled, not verified: `BudgetAccountant.load_default` / `with` / `set_default` resolve to an index into the list "
    "of live accountants (C16 proves the scope discipline); the estimator bodies between check and spend are abstracted "
    "to 'n mechanism invocations + sub-queries on throw-away accountants' (the harness observes the real ones)",
    "whether epsilon 'fits the remaining budget' is the accountant's own `check(epsilon, 0)` (C04/C05/C18 are about it)",
    "RandomForestClassifier: the trees are fitted with a throw-away unlimited accountant of their own (since c39fc2b; "
    "before, sklearn's clone() deep-copied the constructor-time DEFAULT accountant into every tree, so an exhausted "
    "default refused a forest whose own accountant had budget — kept as regression scenario FOREST_WITNESS)",
    "static tie (harness/translate/charges.py -> DPL/Generated/C09Charges.lean, checker proved sound in "
    "DPL/Proofs/ChargeIR.lean): trusted = the translator's reading of the AST. It is INTRA-procedural (each entry point "
    "on its own; a delegating tool is tied to its callee only by 'one call handing on accountant= and epsilon='; "
    "`_check_cells`, `BudgetAccountant.check/spend/load_default` are primitives by NAME), recognises the own accountant "
    "(`accountant` / `self.accountant` / `kwargs.get('accountant')`), throw-away accountants (`BudgetAccountant()`), "
    "mechanisms (classes exported by diffprivlib.mechanisms, `.randomise(`, library helpers that transitively contain "
    "one; sklearn's `_parallel_build_trees` by name) by NAME, and 'same epsilon' is equality of the unparsed source "
    "expressions of check and spend (no evaluation, no aliasing of locals); `return self` after a check with no noise "
    "drawn is accepted as 'nothing released'; loop trip counts are not related to `n_cells`",
]
UNPROVED = [
    "multi_cell_charge / multi_quantile_charge are proved over the reals (the recorded spends sum to eps; the accountant "
    "total is monotone in its spends, any slack); for IEEE doubles the ★ versions (…_gen) reduce them to ONE hypothesis "
    "— a fitting history still fits without its last spend — which holds when float addition of non-negative numbers, "
    "sqrt and log are monotone; it is validated on exactly fitting budgets, not proved for doubles",
    "the estimators' bodies are not modelled statement by statement here (C08 does the plans): model_charge_once is about "
    "the generic fit shape check-first / sub-queries on throw-away accountants / spend-last, tied by observing totals of all "
    "live accountants and the interposed mechanism invocations around the real fit",
]
RULE = ("scenarios = entry point (15 tools x scalar/axis/keepdims/multi-quantile layouts with 1..400 cells, 8 estimators) x "
        "epsilon x accountant state (unlimited / remaining <,=,> epsilon / slack) x prior spends x resolution mode x decoy "
        "default state, from the seed; non-trivial = finite accountant; distinct by (entry, layout, cells, state, mode, "
        "decoy state, outcome)")

BudgetError = dp.utils.BudgetError
BA = dp.BudgetAccountant
REL = 1e-12
STATES = ["unlimited", "less", "equal", "more", "slack-less", "slack-equal", "slack-more", "tiny-less"]
MODES = ["explicit", "with", "set_default"]
MODELS = ["GaussianNB", "KMeans", "StandardScaler", "LinearRegression", "PCA", "RandomForestClassifier",
          "DecisionTreeClassifier", "LogisticRegression"]


class TaggedAccountant(BA):
    """a user subclass with its own constructor signature and extra attributes"""

    def __init__(self, epsilon=float("inf"), delta=1.0, slack=0.0, spent_budget=None, tag="tagged"):
        self.tag = tag
        self.notes = {}
        super().__init__(epsilon, delta, slack, spent_budget)


class AuditingAccountant(BA):
    """a user subclass that overrides spend() (calling super) and keeps its own audit trail"""

    def __init__(self, *a, **k):
        self.audit = []
        super().__init__(*a, **k)

    def spend(self, epsilon, delta):
        out = super().spend(epsilon, delta)
        self.audit.append((epsilon, delta))
        return out


ACC_KINDS = {"plain": BA, "subclass": TaggedAccountant, "auditing": AuditingAccountant}
STATE_OK_ATTRS = {"n_features_in_", "feature_names_in_", "_fit_svd_solver"}   # input-shape metadata set by sklearn's validation


# ----------------------------------------------------------------------------------------------- scenarios

def gen_scenario(r, max_cells, entry=None):
    sc = {}
    entry = entry or r.choice(T.STAT_TOOLS + T.HIST_TOOLS + T.QUANT_TOOLS + MODELS + T.STAT_TOOLS + T.QUANT_TOOLS)
    sc["entry"] = entry
    sc["eps"] = r.choice([1.0, 0.1, 0.3, 0.7, 1.0 / 3, 2.0, r.loguniform(1e-2, 10.0), r.loguniform(1e-2, 10.0)])
    sc["state"] = r.choice(STATES)
    sc["mode"] = r.choice(MODES)
    sc["decoy"] = r.choice(["unlimited", "exhausted", "finite"])
    sc["prior"] = [r.choice([0.1, 0.2, r.loguniform(1e-3, 2.0)]) for _ in range(r.choice([0, 0, 1, 2, 5]))]
    sc["seed"] = r.randint(0, 10 ** 6)
    # a nested `with other:` block entered and left between installing the target as default and the call: the default
    # in force afterwards must again be the target (also when the target has no recorded spend yet, i.e. is "falsy")
    sc["nested_with"] = sc["mode"] != "explicit" and r.chance(0.4)
    # the nested block is left by an exception (caught outside it) in half of the cases: __exit__ must still restore the default
    sc["nested_raises"] = bool(sc["nested_with"] and r.chance(0.5))
    # the accountant in force may be an instance of a user SUBCLASS of BudgetAccountant (own constructor / attributes,
    # or an auditing spend() override); so may the previous default
    # undefined / non-finite data: a NaN or an infinity anywhere, NaN in one entry of one output cell's slice, an
    # all-NaN slice, an all-NaN array.  A tool that returns normally on such data has answered (the answer is
    # data-dependent) and must have charged its epsilon like on any other data; estimators refuse NaN before any charge
    sc["bad_data"] = r.choice([None, None, None, "nan-one", "inf-one", "nan-cell-entry", "nan-slice", "all-nan"])
    sc["acc_kind"] = r.choice(["plain", "plain", "subclass", "auditing"])
    sc["decoy_kind"] = r.choice(["plain", "plain", "subclass"])
    if entry in MODELS:
        sc["kind"] = "fit"
        sc["bad_data"] = None
        sc["n_features"] = r.randint(1, 5)
        sc["switch_default"] = r.chance(0.7)
        sc["config"] = gen_model_config(r, entry, sc["n_features"])
        return sc
    if entry in T.HIST_TOOLS:
        sc["kind"] = "scalar"
        sc["bins"] = r.randint(1, 6)
        sc["weights"] = r.chance(0.2)
        sc["density"] = r.choice([None, None, True, False])
        return sc
    sc["dtype"] = r.choice([None, None, "float"]) if entry in ("mean", "var", "std", "sum", "nanmean", "nanvar", "nanstd", "nansum") else None
    # 100- and 400-cell queries cost seconds each (the library re-totals the whole ledger at every cell, and so does the
    # interpreted Lean model): they stay in every run, but rarer than the small layouts
    cells = r.choice([1, 2, 3, 4, 7, 9, 10, 13, 27, 50] * 3 + [100, 100, 400])
    cells = min(cells, max_cells)
    layout = r.choice(["scalar", "scalar", "axis0", "axis0", "axis1", "keepdims", "3d", "keepdims-all", "axis-scalar"])
    if entry in T.QUANT_TOOLS and entry != "median":
        m = r.choice([1, 1, 2, 3, 5])
        sc["quants"] = m
        # the LIST of quantiles may repeat an entry, be unsorted or hold nearly equal entries: every entry is a sub-query
        sc["qform"] = r.choice(["distinct", "repeated", "repeated", "all-equal", "unsorted", "near-equal"])
        sc["nan_data"] = r.chance(0.1)
    else:
        sc["quants"] = 1
        sc["nan_data"] = entry == "median" and r.chance(0.1)
    sc["layout"] = layout
    nrec = r.randint(2, 5)
    if layout == "scalar":
        shape, axis, keep, ncell = (r.randint(1, 12),), None, False, 1
    elif layout == "axis0":
        shape, axis, keep, ncell = (nrec, cells), 0, False, cells
    elif layout == "axis1":
        shape, axis, keep, ncell = (cells, nrec), -1, False, cells
    elif layout == "keepdims":
        shape, axis, keep, ncell = (nrec, cells), 0, True, cells
    elif layout == "3d":
        a = max(1, int(round(cells ** 0.5)))
        b = max(1, cells // a)
        shape, axis, keep, ncell = (a, nrec, b), 1, r.chance(0.3), a * b
    elif layout == "keepdims-all":
        shape, axis, keep, ncell = (nrec, 3), None, True, 1
    else:
        shape, axis, keep, ncell = (nrec + 3,), 0, False, 1      # axis given but the output is a scalar
    sc["shape"], sc["axis"], sc["keepdims"], sc["cells"] = list(shape), axis, keep, ncell
    multi_cell = layout not in ("scalar", "axis-scalar")
    if sc["quants"] > 1:
        sc["kind"] = "multiq"
    elif multi_cell:
        sc["kind"] = "cells"
    else:
        sc["kind"] = "scalar"
    return sc


def gen_model_config(r, entry, d):
    """keyword configuration + entry method of an estimator: every boolean switch and the rarer forms of the structural
    parameters are enumerated — a normal return must charge epsilon exactly once whatever the configuration"""
    b = lambda: r.chance(0.5)  # noqa: E731
    if entry == "GaussianNB":
        return {"method": r.choice(["fit", "fit", "partial_fit"]), "kw": {"priors": r.choice([None, None, [0.5, 0.5], [0.3, 0.7]]),
                                                                          "var_smoothing": r.choice([1e-9, 1e-3])}}
    if entry == "KMeans":
        return {"method": r.choice(["fit", "fit", "fit_predict", "fit_transform"]), "kw": {"n_clusters": r.randint(1, 3)}}
    if entry == "StandardScaler":
        return {"method": r.choice(["fit", "partial_fit", "fit_transform"]),
                "kw": {"with_mean": b(), "with_std": b(), "copy": b()}}
    if entry == "LinearRegression":
        return {"method": "fit", "kw": {"fit_intercept": b(), "copy_X": b()}, "targets": r.choice([1, 1, 2])}
    if entry == "PCA":
        return {"method": r.choice(["fit", "fit", "fit_transform"]),
                "kw": {"n_components": r.choice([None, 1, min(2, d), d, 0.8]), "centered": b(), "whiten": b(), "copy": b()}}
    if entry == "RandomForestClassifier":
        return {"method": "fit", "kw": {"n_estimators": r.randint(1, 4), "max_depth": r.randint(1, 4), "shuffle": b()},
                "classes": r.choice([2, 2, 3])}
    if entry == "DecisionTreeClassifier":
        return {"method": "fit", "kw": {"max_depth": r.randint(1, 5)}, "classes": r.choice([2, 2, 3])}
    return {"method": "fit", "kw": {"fit_intercept": b(), "C": r.choice([1.0, 0.1, 10.0]), "warm_start": b(),
                                     "tol": r.choice([1e-4, 1e-2])}, "classes": r.choice([2, 2, 3])}


def config_grid(entry, d):
    """every combination of the boolean switches x entry methods of an estimator (the rarer structural forms once each):
    run at every budget with a comfortably fitting accountant, so that 'returned normally but charged nothing' in ONE
    configuration cannot be missed by sampling"""
    import itertools
    out = []
    if entry == "StandardScaler":
        for m, wm, ws in itertools.product(["fit", "partial_fit", "fit_transform"], [True, False], [True, False]):
            out.append({"method": m, "kw": {"with_mean": wm, "with_std": ws, "copy": True}})
    elif entry == "LinearRegression":
        for fi, cp, t in itertools.product([True, False], [True, False], [1, 2]):
            out.append({"method": "fit", "kw": {"fit_intercept": fi, "copy_X": cp}, "targets": t})
    elif entry == "PCA":
        for m, c, w in itertools.product(["fit", "fit_transform"], [True, False], [True, False]):
            out.append({"method": m, "kw": {"n_components": min(2, d), "centered": c, "whiten": w, "copy": True}})
        for nc in (None, 1, d, 0.8):
            out.append({"method": "fit", "kw": {"n_components": nc, "centered": True, "whiten": False, "copy": False}})
    elif entry == "LogisticRegression":
        for fi, ws, k in itertools.product([True, False], [True, False], [2, 3]):
            out.append({"method": "fit", "kw": {"fit_intercept": fi, "warm_start": ws, "C": 1.0, "tol": 1e-4}, "classes": k})
    elif entry == "GaussianNB":
        for m, pr in itertools.product(["fit", "partial_fit"], [None, [0.5, 0.5]]):
            out.append({"method": m, "kw": {"priors": pr, "var_smoothing": 1e-9}})
    elif entry == "KMeans":
        for m, k in itertools.product(["fit", "fit_predict", "fit_transform"], [1, 2, 3]):
            out.append({"method": m, "kw": {"n_clusters": k}})
    elif entry == "RandomForestClassifier":
        for sh, k, ne in itertools.product([True, False], [2, 3], [1, 3]):
            out.append({"method": "fit", "kw": {"n_estimators": ne, "max_depth": 2, "shuffle": sh}, "classes": k})
    else:
        for md, k in itertools.product([1, 3], [2, 3]):
            out.append({"method": "fit", "kw": {"max_depth": md}, "classes": k})
    return out


def n_spends(sc):
    if sc["kind"] in ("scalar", "fit"):
        return 1
    axis_cells = sc["cells"] if sc["layout"] not in ("scalar", "axis-scalar") else 1
    return sc.get("quants", 1) * axis_cells


def make_accountants(sc):
    """target (index 0), decoy default (1), decoy (2)"""
    eps = sc["eps"]
    prior = [(p, 0) for p in sc["prior"]]       # the CALLER's list: the target is restored from this very object
    sc["_caller_list"] = prior
    st = sc["state"]
    TA = ACC_KINDS[sc.get("acc_kind", "plain")]
    DA = ACC_KINDS[sc.get("decoy_kind", "plain")]
    if st == "unlimited":
        target = TA(spent_budget=prior)
    else:
        slack = 0.0
        delta = 0.0
        if st.startswith("slack"):
            delta = 0.1
            slack = 0.05
        probe = BA(float("inf"), delta if delta else 1.0)
        if slack:
            probe = BA(float("inf"), delta, slack)
        c_eq = float(probe.total(spent_budget=prior + [(eps, 0)])[0])
        if st.endswith("equal"):
            ceil = c_eq
        elif st == "tiny-less":
            ceil = math.nextafter(c_eq, 0.0)
        elif st.endswith("less"):
            c_prior = float(probe.total(spent_budget=prior)[0]) if prior else 0.0
            ceil = c_prior + (c_eq - c_prior) * gen.SplitMix64(sc["seed"]).choice([0.999, 0.75, 0.5, 0.1])
        else:
            ceil = c_eq * gen.SplitMix64(sc["seed"]).choice([1.0000001, 1.5, 4.0]) + (0.0 if prior else 0.0)
        try:
            target = TA(ceil, delta, slack, spent_budget=prior)
        except Exception:
            # the prior spends alone do not fit this ceiling (slack composition is not monotone in the list order)
            del prior[:]
            target = TA(ceil, delta, slack, spent_budget=prior)
            sc["prior"] = []
    dk = sc["decoy"]
    if dk == "unlimited":
        decoy_default = DA()
    elif dk == "exhausted":
        decoy_default = DA(eps * 0.5 + 0.2, 0, spent_budget=[(0.2, 0)])     # remaining 0.5 eps: refuses this query
    else:
        decoy_default = DA(eps * 10 + 1.0, 0, spent_budget=[(0.3, 0)])
    decoy2 = BA(eps * 3, 0)
    return [target, decoy_default, decoy2]


def relatives(target, caller_list):
    """accountants that share provenance with the target without being it: restored from the same caller-owned list
    object, from the target's spent_budget, deep copy, pickle round trip (must never move when the target is charged),
    and a shallow copy.copy (Python's shallow-copy semantics share the ledger: observed and counted, no verdict)"""
    rel = {"same-list": BA(spent_budget=caller_list),
           "from-spent_budget": BA(spent_budget=target.spent_budget),
           "deepcopy": copy.deepcopy(target),
           "pickle": pickle.loads(pickle.dumps(target))}
    return rel, copy.copy(target)


def snapshot(accs):
    return [(list(a.spent_budget), a.slack, a.epsilon, a.delta) for a in accs]


def model_args(sc):
    """(constructor taking the accountant keyword dict, method name, positional arguments)"""
    rr = np.random.RandomState(sc["seed"] % (2 ** 31))
    d = sc["n_features"]
    cfg = sc.get("config") or {"method": "fit", "kw": {}}
    kw = dict(cfg.get("kw", {}))
    X = rr.rand(30, d)
    ncls = cfg.get("classes", 2)
    y = np.minimum((X[:, 0] * ncls).astype(int), ncls - 1)
    y[:ncls] = np.arange(ncls)
    yr = X @ np.arange(1, d + 1, dtype=float)
    if cfg.get("targets", 1) == 2:
        yr = np.stack([yr, X.sum(axis=1)], axis=1)
    b = (np.zeros(d), np.ones(d))
    M = dp.models
    name = sc["entry"]
    eps = sc["eps"]
    seed = sc["seed"] % 1000
    method = cfg.get("method", "fit")
    classes = list(range(ncls))
    if name == "GaussianNB":
        if kw.get("priors") is not None and ncls != 2:
            kw["priors"] = None
        args = (X, y, classes) if method == "partial_fit" else (X, y)
        return (lambda acc: M.GaussianNB(epsilon=eps, bounds=b, random_state=seed, **kw, **acc)), method, args
    if name == "KMeans":
        kw.setdefault("n_clusters", 2)
        return (lambda acc: M.KMeans(epsilon=eps, bounds=b, random_state=seed, **kw, **acc)), method, (X,)
    if name == "StandardScaler":
        return (lambda acc: M.StandardScaler(epsilon=eps, bounds=b, random_state=seed, **kw, **acc)), method, (X,)
    if name == "LinearRegression":
        by = (0, float(d * (d + 1) / 2)) if cfg.get("targets", 1) == 1 else (np.zeros(2), np.array([d * (d + 1) / 2, float(d)]))
        return (lambda acc: M.LinearRegression(epsilon=eps, bounds_X=b, bounds_y=by, random_state=seed, **kw, **acc)), method, (X, yr)
    if name == "PCA":
        nc = kw.pop("n_components", min(2, d))
        if isinstance(nc, int) and nc > d:
            nc = d
        return (lambda acc: M.PCA(n_components=nc, epsilon=eps, bounds=b, data_norm=float(d) ** 0.5, random_state=seed,
                                  **kw, **acc)), method, (X,)
    if name == "RandomForestClassifier":
        kw.setdefault("n_estimators", 3)
        kw.setdefault("max_depth", 3)
        return (lambda acc: M.RandomForestClassifier(epsilon=eps, bounds=b, classes=classes, random_state=seed, **kw, **acc)), method, (X, y)
    if name == "DecisionTreeClassifier":
        kw.setdefault("max_depth", 3)
        return (lambda acc: M.DecisionTreeClassifier(epsilon=eps, bounds=b, classes=classes, random_state=seed, **kw, **acc)), method, (X, y)
    return (lambda acc: M.LogisticRegression(epsilon=eps, data_norm=float(d) ** 0.5, random_state=seed, **kw, **acc)), method, (X, y)


def state_repr(obj):
    out = {}
    for k, v in vars(obj).items():
        if k == "accountant":
            continue
        try:
            out[k] = repr(np.asarray(v).tolist()) if isinstance(v, np.ndarray) else repr(v)
        except Exception:
            out[k] = str(type(v))
    return out


def spoil(sc, arr, rr):
    """put the scenario's non-finite values into the data (in place)"""
    bad = sc.get("bad_data")
    if not bad or arr.size == 0:
        return arr
    flat = arr.reshape(-1)
    if bad == "nan-one":
        flat[rr.randint(flat.size)] = np.nan
    elif bad == "inf-one":
        flat[rr.randint(flat.size)] = np.inf if rr.rand() < 0.5 else -np.inf
    elif bad == "all-nan":
        flat[:] = np.nan
    else:
        # one output cell's slice (the slice is taken along the reduced axes); whole array when the output is scalar
        axis = sc.get("axis")
        if arr.ndim < 2 or axis is None:
            sl = flat
        else:
            red = T.reduced_axes(arr.ndim, tuple(axis) if isinstance(axis, list) else axis)
            idx = tuple(slice(None) if ax in red else rr.randint(arr.shape[ax]) for ax in range(arr.ndim))
            sl = arr[idx]
        if bad == "nan-slice":
            sl[...] = np.nan
        else:
            sl.flat[rr.randint(sl.size)] = np.nan
    return arr


def quantile_list(sc):
    m = sc["quants"]
    if m <= 1:
        return 0.5
    form = sc.get("qform", "distinct")
    base = [0.5, 0.1, 0.9, 0.3, 0.7][:m]
    if form == "repeated":
        base = ([0.25, 0.5, 0.5, 0.9, 0.5] if m > 2 else [0.5, 0.5])[:m]
    elif form == "all-equal":
        base = [0.5] * m
    elif form == "unsorted":
        base = sorted(base, reverse=True)
    elif form == "near-equal":
        base = ([0.5, 0.5 + 1e-12, 0.5 - 1e-12, 0.25, 0.25 + 1e-12])[:m]
    return base


def tool_call(sc, acc_kw):
    entry = sc["entry"]
    eps = sc["eps"]
    fn = getattr(dp.tools, entry)
    rr = np.random.RandomState(sc["seed"] % (2 ** 31))
    rs = seams.ScriptedRandomState(uniforms=[0.5] * 4096)
    if entry in T.HIST_TOOLS:
        n = 12
        w = rr.rand(n) if sc.get("weights") else None
        if entry == "histogram":
            return lambda: fn(spoil(sc, rr.rand(n), rr), epsilon=eps, bins=sc["bins"], range=(0, 1), weights=w, density=sc.get("density"),
                              random_state=rs, **acc_kw)
        if entry == "histogram2d":
            return lambda: fn(spoil(sc, rr.rand(n), rr), rr.rand(n), epsilon=eps, bins=sc["bins"], range=[(0, 1), (0, 1)], weights=w,
                              density=sc.get("density"), random_state=rs, **acc_kw)
        return lambda: fn(spoil(sc, rr.rand(n, 2), rr), epsilon=eps, bins=sc["bins"], range=[(0, 1), (0, 1)], weights=w,
                          density=sc.get("density"), random_state=rs, **acc_kw)
    arr = rr.rand(*sc["shape"])
    if sc.get("nan_data"):
        arr.ravel()[0] = np.nan
    spoil(sc, arr, rr)
    kw = dict(epsilon=eps, axis=sc["axis"], keepdims=sc["keepdims"], random_state=rs, **acc_kw)
    if entry != "count_nonzero":
        kw["bounds"] = (0.0, 1.0)
    if sc.get("dtype"):
        kw["dtype"] = float
    if entry in ("quantile", "percentile"):
        q = quantile_list(sc)
        if entry == "percentile":
            q = [x * 100 for x in q] if isinstance(q, list) else q * 100
        return lambda: fn(arr, q, **kw)
    return lambda: fn(arr, **kw)


# ----------------------------------------------------------------------------------------------- run + verdict

class _Boom(Exception):
    pass


def _nested_block(sc, decoy2):
    """a complete `with decoy2:` block before the call — left normally, or by an exception that is caught outside it"""
    if sc.get("nested_raises"):
        try:
            with decoy2:
                raise _Boom()
        except _Boom:
            pass
    else:
        with decoy2:
            pass


def run_scenario(sc):
    """returns dict(result kind, mech calls, snapshots, verdict)"""
    old_default = BA._default
    try:
        accs = make_accountants(sc)
        target, decoy_default, decoy2 = accs
        caller_list = sc.pop("_caller_list")
        caller_before = list(caller_list)
        rel, shallow = relatives(target, caller_list)
        rel_before = snapshot(list(rel.values()))
        shallow_before = snapshot([shallow])
        decoy_default.set_default()
        eps = sc["eps"]
        # oracle: does epsilon fit the target's remaining budget?
        try:
            target.check(eps, 0)
            fits = True
        except BudgetError:
            fits = False
        before = snapshot(accs)
        audit0 = len(target.audit) if hasattr(target, "audit") else None
        if sc["kind"] in ("cells", "multiq") and math.isfinite(before[0][2]):
            # a multi-cell query is charged as its cell spends: "fits" = that very sequence fits (what `_check_cells` tests;
            # it can differ from the single-spend check by one rounding, in either direction)
            fits = whole_sequence_fits(sc, before[0])
        mode = sc["mode"]
        forced = T.Forced(sc["seed"])
        model = None
        state_before = None
        exc = None
        n_calls = 0
        dflt_construct = 1
        dflt_fit = 1
        with warnings.catch_warnings():
            warnings.simplefilter("ignore")
            with np.errstate(all="ignore"):
                if sc["kind"] == "fit":
                    mk, method, args = model_args(sc)
                    if mode == "explicit":
                        model = mk({"accountant": target})
                    elif mode == "with":
                        with target:
                            if sc.get("nested_with"):
                                _nested_block(sc, decoy2)
                            model = mk({})
                        dflt_construct = 0
                    else:
                        target.set_default()
                        if sc.get("nested_with"):
                            _nested_block(sc, decoy2)
                        model = mk({})
                        dflt_construct = 0
                        dflt_fit = 0
                    if sc.get("switch_default"):
                        decoy2.set_default()
                        dflt_fit = 2
                    state_before = state_repr(model)
                    with seams.interpose() as calls:
                        try:
                            getattr(model, method)(*args)
                        except Exception as e:  # noqa
                            exc = e
                    n_calls = len(calls)
                else:
                    with seams.interpose(force=forced) as calls:
                        try:
                            if mode == "explicit":
                                tool_call(sc, {"accountant": target})()
                            elif mode == "with":
                                dflt_construct = dflt_fit = 0
                                with target:
                                    if sc.get("nested_with"):
                                        _nested_block(sc, decoy2)
                                    tool_call(sc, {})()
                            else:
                                dflt_construct = dflt_fit = 0
                                target.set_default()
                                if sc.get("nested_with"):
                                    _nested_block(sc, decoy2)
                                tool_call(sc, {})()
                        except Exception as e:  # noqa
                            exc = e
                    n_calls = len(calls)
        after = snapshot(accs)
        kind = "ok" if exc is None else ("budgetError" if isinstance(exc, BudgetError) else "other:" + type(exc).__name__)
        res = {"kind": kind, "calls": n_calls, "before": before, "after": after, "fits": fits, "dflt_construct": dflt_construct,
               "dflt_fit": dflt_fit, "exc": repr(exc)[:200] if exc else None}
        res["audit_new"] = [(float(e), float(d)) for e, d in target.audit[audit0:]] if audit0 is not None else None
        rel_after = snapshot(list(rel.values()))
        res["relatives_changed"] = [f"{k}: {b[0][len(a[0]) - 0:] if b[0][:len(a[0])] == a[0] else b[0]}"
                                    for k, a, b in zip(rel, rel_before, rel_after) if a != b]
        res["caller_list_changed"] = None if caller_list == caller_before else [caller_before, list(caller_list)]
        res["shallow_copy_moved"] = snapshot([shallow]) != shallow_before
        res["state_changed"] = []
        if model is not None and exc is not None:
            sa = state_repr(model)
            res["state_changed"] = sorted(k for k in sa if k not in STATE_OK_ATTRS and sa.get(k) != state_before.get(k))
        res["verdict"] = verdict(sc, res)
        return res
    finally:
        BA._default = old_default


def whole_sequence_fits(sc, snap):
    """would the complete sequence of per-cell spends of a multi-cell query fit the target's ceiling?
    (the cell epsilon exactly as the code charges it: eps / n_cells, resp. (eps / len(quant)) / n_cells)"""
    spent, slack, ceil_e, ceil_d = snap
    m = sc.get("quants", 1)
    n = sc["cells"] if sc.get("layout") not in ("scalar", "axis-scalar") else 1
    cell = sc["eps"] / m / n if sc["kind"] == "multiq" else sc["eps"] / n
    acc = BA(float("inf"), ceil_d if slack else 1.0, slack) if slack else BA(float("inf"), 1.0)
    t = acc.total(spent_budget=[(float(e), float(d)) for e, d in spent] + [(cell, 0)] * (m * n))
    return bool(t[0] <= ceil_e and t[1] <= ceil_d)


def verdict(sc, res):
    """(signature, what) or None"""
    entry = sc["entry"]
    eps = sc["eps"]
    before, after = res["before"], res["after"]
    names = ["target", "previous default", "decoy"]
    changed_other = [names[i] for i in (1, 2) if after[i] != before[i]]
    tb, ta = before[0][0], after[0][0]
    appended = ta[len(tb):] if ta[:len(tb)] == tb else None
    desc = f"{entry} ({sc['kind']}, {sc.get('layout', '')} cells={sc.get('cells', 1)} quants={sc.get('quants', 1)}) eps={eps!r} " \
           f"state={sc['state']} mode={sc['mode']}{'+nested-with-block' if sc.get('nested_with') else ''}{'-left-by-exception' if sc.get('nested_raises') else ''} " \
           f"decoy-default={sc['decoy']} prior={sc['prior']} accountant={sc.get('acc_kind', 'plain')}" \
           f"{' data=' + sc['bad_data'] if sc.get('bad_data') else ''}" \
           f"{' quantile-list=' + str(quantile_list(sc)) if sc.get('quants', 1) > 1 else ''}" \
           f"{' config=' + str(sc['config']) if sc.get('config') else ''}"
    if res.get("caller_list_changed"):
        return (f"C09:{entry}:caller-list-modified", f"{desc}: the list the target was restored from (spent_budget=lst) was "
                f"{res['caller_list_changed'][0]} and is now {res['caller_list_changed'][1]}")
    if res.get("relatives_changed"):
        return (f"C09:{entry}:shared-ledger", f"{desc}: accountants that only share provenance with the accountant in force "
                f"were charged too: {res['relatives_changed']}")
    if res["kind"].startswith("other"):
        return (f"C09:{entry}:unexpected-exception", f"{desc}: raised {res['exc']}")
    if appended is None or before[0][1:] != after[0][1:]:
        return (f"C09:{entry}:history-rewritten", f"{desc}: the target's recorded spends were rewritten")
    if changed_other:
        return (f"C09:{entry}:wrong-accountant", f"{desc}: {', '.join(changed_other)} changed: "
                f"{[after[i][0][len(before[i][0]):] for i in (1, 2)]} (target got {appended})")
    charged = sum(float(e) for e, _ in appended)
    if res.get("audit_new") is not None and res["audit_new"] != [(float(e), float(d)) for e, d in appended]:
        return (f"C09:{entry}:spend-bypassed", f"{desc}: the accountant's own spend() saw {res['audit_new'][:4]} but "
                f"{appended[:4]} was recorded")
    if res["kind"] == "ok":
        if any(d != 0 for _, d in appended):
            return (f"C09:{entry}:delta-charged", f"{desc}: non-zero delta recorded: {appended[:4]}")
        if not appended:
            return (f"C09:{entry}:not-charged", f"{desc}: returned normally, target charged nothing (fits={res['fits']})")
        if charged > eps * (1 + REL):
            return (f"C09:{entry}:double-charge", f"{desc}: returned normally, target charged {charged!r} in {len(appended)} spend(s) "
                    f"(first {appended[:3]})")
        if charged < eps * (1 - REL):
            return (f"C09:{entry}:partial-charge", f"{desc}: returned normally, target charged only {charged!r} in {len(appended)} spend(s)")
        if sc["kind"] in ("scalar", "fit") and (len(appended) != 1 or float(appended[0][0]) != eps):
            return (f"C09:{entry}:double-charge", f"{desc}: charged as {appended[:4]} instead of one spend of ({eps}, 0)")
        if len(appended) != n_spends(sc):
            return (f"C09:{entry}:spend-count", f"{desc}: {len(appended)} spends recorded, expected {n_spends(sc)} (one per output cell)")
        if not res["fits"]:
            return (f"C09:{entry}:overspend-accepted", f"{desc}: check(eps, 0) on the target refuses, yet the call returned and charged {charged!r}")
        return None
    # budget error
    if res["calls"] > 0:
        if sc["kind"] == "multiq" and sc.get("layout") not in ("scalar", "axis-scalar") and whole_sequence_fits(sc, before[0]):
            # every cell spend of the query fits (the up-front exact check was right), yet a later quantile's own
            # check(eps / len(quant), 0) refuses: one spend of eps/m against n spends of eps/m/n, by rounding
            return (f"C09:{entry}:nested-check-refuses-fitting-sequence",
                    f"{desc}: BudgetError after {res['calls']} mechanism invocation(s) although all {n_spends(sc)} cell spends fit; "
                    f"target charged {len(appended)} x {appended[0] if appended else None}")
        return (f"C09:{entry}:mechanism-before-refusal", f"{desc}: BudgetError after {res['calls']} mechanism invocation(s); "
                f"target charged {appended[:4]}")
    if appended:
        return (f"C09:{entry}:partial-charge", f"{desc}: BudgetError, but {len(appended)} spend(s) totalling {charged!r} were recorded")
    if res["fits"]:
        return (f"C09:{entry}:refused-although-fits", f"{desc}: check(eps, 0) on the target accepts, but the call raised BudgetError "
                f"(no mechanism ran, nothing charged; state set before the refusal: {res['state_changed']}): {res['exc']}")
    if res["state_changed"]:
        return (f"C09:{entry}:state-before-refusal", f"{desc}: BudgetError, but fitted state was set/changed: {res['state_changed']}")
    return None


# ----------------------------------------------------------------------------------------------- correspondence

def acc_tokens(snap):
    spent, slack, ceil_e, ceil_d = snap
    t = [f2b(ceil_e), f2b(ceil_d), f2b(slack), len(spent)]
    for e, d in spent:
        t += [f2b(e), f2b(d)]
    return " ".join(str(x) for x in t)


def lean_line(sc, res):
    world = f"{res['dflt_construct']} 3 " + " ".join(acc_tokens(s) for s in res["before"])
    ex = "0" if sc["mode"] == "explicit" else "-"
    eps = f2b(sc["eps"])
    if sc["kind"] == "scalar":
        return f"charge {world} scalar {ex} {eps} {res['calls'] if res['kind'] == 'ok' else 1}"
    if sc["kind"] == "fit":
        return f"charge {world} fit {ex} {res['dflt_fit']} {eps} {res['calls'] if res['kind'] == 'ok' else 1}"
    axis_cells = sc["cells"] if sc["layout"] not in ("scalar", "axis-scalar") else 1
    if sc["kind"] == "cells":
        return f"charge {world} cells {ex} {eps} {axis_cells} 1"
    axis = 0 if sc["layout"] in ("scalar", "axis-scalar") else 1
    return f"charge {world} multiq {ex} {eps} {axis} {sc['quants']} {axis_cells} 1"


def compare(ctx, sc, res, ans):
    w = ans.split()
    if w[0] in ("bad-op",):
        ctx.disagree("charged.driver", {"scenario": sc}, ans, "driver could not run the line")
        return False
    mk, mcalls = w[0], int(w[1])
    rest = w[2:]
    model_acc = [(int(rest[2 * i]), b2f(int(rest[2 * i + 1]))) for i in range(3)]
    impl_acc = [(len(s[0]), sum_eps(s)) for s in res["after"]]
    slack = sc["state"].startswith("slack")
    if mk != res["kind"]:
        if (slack and sc["state"].endswith("equal")) or (sc["kind"] in ("cells", "multiq") and sc["state"] in ("equal", "slack-equal") and slack):
            ctx.boundary_skipped += 1
            return True
        ctx.disagree("charged.result", {"scenario": sc}, ans[:120], [res["kind"], res["calls"], impl_acc])
        return False
    if res["kind"] != "ok" and mcalls != res["calls"]:
        ctx.disagree("charged.mech-calls", {"scenario": sc}, mcalls, res["calls"])
        return False
    for i in range(3):
        if model_acc[i][0] != impl_acc[i][0]:
            ctx.disagree("charged.spends", {"scenario": sc, "accountant": i}, model_acc, impl_acc)
            return False
    # totals: the model prints total().eps of each accountant
    for i in range(3):
        spent, slk = res["after"][i][0], res["after"][i][1]
        t = float(BA(float("inf"), 1.0).total(spent_budget=[(float(e), float(d)) for e, d in spent])[0]) if slk == 0 \
            else float(BA(float("inf"), res["after"][i][3], slk).total(spent_budget=[(float(e), float(d)) for e, d in spent])[0])
        if not gen.rel_close(model_acc[i][1], t, 1e-12 if slk == 0 else 1e-9, 1e-300):
            ctx.disagree("charged.total", {"scenario": sc, "accountant": i}, model_acc[i][1], t)
            return False
    return True


def sum_eps(snap):
    return sum(float(e) for e, _ in snap[0])


# ----------------------------------------------------------------------------------------------- check

def key_of(sc, res):
    return (sc["entry"], sc["kind"], sc.get("layout"), sc.get("cells"), sc.get("quants"), sc["state"], sc["mode"], sc["decoy"],
            res["kind"], len(sc["prior"]) > 0, bool(sc.get("nested_with")), sc.get("acc_kind"), str(sc.get("config")), sc.get("bad_data"), sc.get("qform"))


FOREST_WITNESS = {"entry": "RandomForestClassifier", "kind": "fit", "eps": 1.0, "state": "more", "mode": "explicit",
                  "decoy": "exhausted", "prior": [], "seed": 1, "n_features": 3, "switch_default": False}


def witness_forest(ctx):
    res = run_scenario(dict(FOREST_WITNESS))
    v = res["verdict"]
    if v and v[0] == "C09:RandomForestClassifier:refused-although-fits":
        return True, v[1]
    return False, "witness no longer fails" + (f" with this signature (got {v[0]})" if v else "")


def witness_nested(entry):
    """regression witness (repaired in /repo 7bc0345): multi-quantile over an axis at an exactly fitting budget,
    quantile(X(4x7), [0.5, 0.1], epsilon=0.3, axis=0) on BudgetAccountant(0.3, 0) — the second quantile's own
    check(0.15, 0) used to see 7 x 0.3/2/7 + 0.15 > 0.3 by rounding and refuse part-way"""
    def run(ctx):
        sc = {"entry": entry, "kind": "multiq", "eps": 0.3, "state": "equal", "mode": "explicit", "decoy": "unlimited",
              "prior": [], "seed": 0, "quants": 2, "nan_data": False, "layout": "axis0", "shape": [4, 7], "axis": 0,
              "keepdims": False, "cells": 7}
        res = run_scenario(sc)
        v = res["verdict"]
        if v and v[0] == f"C09:{entry}:nested-check-refuses-fitting-sequence":
            return True, v[1]
        return False, "witness no longer fails" + (f" with this signature (got {v[0]})" if v else "")
    return run


WITNESSES = {"C09:RandomForestClassifier:refused-although-fits": witness_forest,
             "C09:quantile:nested-check-refuses-fitting-sequence": witness_nested("quantile"),
             "C09:percentile:nested-check-refuses-fitting-sequence": witness_nested("percentile")}


def generate(ctx):
    """static translator tie: the charge skeleton (resolve / check / noise / spend / delegation, with control flow) of
    every public tool and every estimator method touching `self.accountant` is re-extracted from /repo's CURRENT AST and
    `wellCharged sk = true` is decided in Lean (DPL.C09.static_skeleton_sound says what that means for every path).
    An entry point the translator cannot follow is reported as unavailable (not as a failed obligation)."""
    import os
    from ..translate import charges
    repo = os.environ.get("VERIF_REPO", "/repo")
    try:
        info = charges.generate(repo, leanio.LEAN)
    except (charges.TranslatorError, SyntaxError, OSError) as e:
        ctx.note(f"charge-skeleton translator unavailable: {type(e).__name__}: {e}")
        return {"build": [], "obligations": 0, "unavailable": [f"charges: {type(e).__name__}: {e}"[:300]]}
    ctx.count("charge_skeletons", info["obligations"])
    ctx.sample({"charge_skeleton_entries": info["entries"]})
    out = {"build": ["DPL.Generated.C09Charges"], "obligations": info["obligations"]}
    if info["unavailable"]:
        out["unavailable"] = ["charges: " + u[:200] for u in info["unavailable"]]
    return out


def check(ctx):
    r = ctx.fork("scenarios")
    max_cells = 400
    n = ctx.budget(1250, 15000)
    if ctx.searching:
        n = min(n, 5000 if ctx.tier == "quick" else 30000)     # keep the failing-input search within the tier's time limit
    entries = T.STAT_TOOLS + T.HIST_TOOLS + T.QUANT_TOOLS + MODELS
    scs = [dict(FOREST_WITNESS)]
    for i in range(n):
        scs.append(gen_scenario(r, max_cells, entries[i % len(entries)] if i % 2 == 0 else None))
    # stratum: the full grid of boolean / method configurations of every estimator, once each, comfortably fitting budget
    if not ctx.searching:
        for entry in MODELS:
            for k, cfg in enumerate(config_grid(entry, 3)):
                scs.append({"entry": entry, "kind": "fit", "eps": 1.0, "state": ["more", "unlimited", "equal"][k % 3],
                            "mode": MODES[k % 3], "decoy": "finite", "prior": [0.1] if k % 2 else [], "seed": 100 + k,
                            "nested_with": False, "acc_kind": "plain", "decoy_kind": "plain", "n_features": 3,
                            "switch_default": bool(k % 2), "config": cfg})
    # stratum: lists of quantiles over an axis against an EXACTLY fitting budget (where an up-front check that is not
    # computed from the very spends that will be recorded shows as a part-way refusal)
    r2 = ctx.fork("multiq-exact")
    for i in range(ctx.budget(160, 1200) if not ctx.searching else ctx.budget(60, 300)):
        sc = gen_scenario(r2, 13, r2.choice(["quantile", "percentile"]))
        sc["quants"] = r2.randint(2, 5)
        sc["nan_data"] = False
        cells = r2.choice([2, 3, 5, 7, 9, 11, 13])
        sc["layout"], sc["shape"], sc["axis"], sc["keepdims"], sc["cells"] = "axis0", [3, cells], 0, r2.chance(0.2), cells
        if sc["keepdims"]:
            sc["layout"] = "keepdims"
        sc["kind"] = "multiq"
        sc["state"] = r2.choice(["equal", "equal", "equal", "slack-equal"])
        sc["eps"] = r2.choice([2.5, 2.9, 4.5, 5.0, 0.3, 0.7, 1.0, r2.loguniform(0.05, 10.0), round(r2.uniform(0.1, 9.9), 1)])
        sc["prior"] = [] if r2.chance(0.6) else sc["prior"]
        scs.append(sc)
    lines, keep = [], []
    for sc in scs:
        res = run_scenario(sc)
        ctx.case(key_of(sc, res) if sc["state"] != "unlimited" else None)
        ctx.count("result:" + res["kind"])
        ctx.count("mechanism_invocations", res["calls"])
        if res.get("shallow_copy_moved"):
            ctx.count("copy.copy_of_the_accountant_shares_its_ledger")
        if res["verdict"]:
            T.report(ctx, res["verdict"][0], res["verdict"][1],
                     {"scenario": sc, "result": {k: res[k] for k in ("kind", "calls", "fits", "exc")}})
        if not res["kind"].startswith("other"):
            lines.append(lean_line(sc, res))
            keep.append((sc, res))
    outs = leanio.run_driver("Tools", lines) if lines else []
    for (sc, res), ans in zip(keep, outs):
        # the forest's deep-copied default accountant is outside the model: the recorded defect is not a correspondence matter
        if res["verdict"] and res["verdict"][0] == "C09:RandomForestClassifier:refused-although-fits":
            continue
        if compare(ctx, sc, res, ans):
            ctx.trace_ok()
    ctx.count("driver_lines", len(lines))
    if keep:
        ctx.sample({"scenario": keep[1][0] if len(keep) > 1 else keep[0][0], "impl": {k: keep[-1][1][k] for k in ("kind", "calls", "fits")},
                    "model": outs[1] if len(outs) > 1 else None})


def replay(ctx, data):
    sc = data["data"]["scenario"]
    sc = {k: (unjson_float(v) if isinstance(v, str) and k in ("eps",) else v) for k, v in sc.items()}
    res = run_scenario(sc)
    return res["verdict"] is not None
