"""C13 — invalid privacy parameters are refused before anything is released (DESIGN.md §6 C13)."""
import math
import os
import warnings
from fractions import Fraction
from numbers import Real

from ..shim import dp, np
from .. import leanio, seams

PROPERTY = "C13"
LEAN_MODULE = "DPL.Properties.C13"
TRUSTED = [
    "modelled, not verified: Python's comparison semantics as transcribed in DPL/Model/Validation.lean (`Pred.eval`): "
    "NaN compares False, ordering a non-number raises TypeError, `x == 0` is False for non-numbers, bool is the integer "
    "it is; np.isclose / np.round / int() on rationals with the default tolerances as exact rationals; numpy's "
    "astype(float) on check_bounds arguments (numeric strings are converted, complex loses its imaginary part)",
    "the validation chains the theorems are about are re-extracted from /repo's sources on every run "
    "(harness/translate/chains.py: every `_check_*` method of every mechanism class, flattened along the real MRO, as "
    "(test, exception) lists; the order of the blocks in `_check_all` and `__init__`) and proved equal to the "
    "hand-written tables; the extractor and the table of test texts -> `Pred` are trusted",
    "structured arguments (Binary labels, Exponential utility/measure/candidates, the value to randomise, Vector n) "
    "are abstracted to one flag per test; float(10**400)-style OverflowError of int->float conversion and numpy ufuncs on "
    "Python ints beyond 64 bits (GeometricFolded's np.round: TypeError) are not modelled",
    "`Valid` states the documented ranges; it is deliberately silent about NaN in parameters the property does not "
    "list (Vector alpha, clip_to_norm's clip, bounds): `alpha <= 0`, `clip <= 0`, `lower > upper` are False for NaN "
    "and the code accepts them — reported as notes by every run, not as violations",
    "for tools / estimators the model covers check_bounds + accountant.check (their first privacy-relevant "
    "statements); that no mechanism runs before them is observed at run time (interposition), not proved",
]
UNPROVED = [
    "that tools and estimators perform check_bounds / accountant.check before any mechanism call and record no spend on "
    "refusal is observed on every run (interposition on every mechanism's randomise, accountant totals before/after), "
    "not proved",
    "the accountant is modelled in its slack-free fragment over exact rationals; the full accountant is C04/C05",
]
RULE = ("every mechanism class x every constructor parameter / attribute x catalogue value (valid values and the invalid "
        "ones of the property: -1, -5e-324, nan, +-inf, 1+1e-9, '1', 1j, None, bool) at construction AND by attribute "
        "assignment before randomise; (epsilon, delta) and (lower, upper) pair grids; random full tuples; "
        "validation.check_epsilon_delta / check_bounds / clip_to_norm / Budget; BudgetAccountant ctor / check / spend / "
        "slack / remaining(k); 15 tools and 8 estimators x epsilon and bounds catalogue with a finite accountant and "
        "mechanism interposition; every tool with axis=/keepdims (13 variants incl. multi-quantile) x 5 data layouts "
        "with a 1-dimensional result x 5 accountants (infinite, with prior spends, finite, finite with room for exactly "
        "two such queries, the default) with per-feature ARRAY bounds that are inverted only at feature(s) of index > 0 "
        "(swept, then random: 2-6 features, 10 inversion sizes, 5 epsilons): refused, 0 mechanism invocations, ledger "
        "unchanged.  A case is non-trivial when the entry point refuses; distinct by (entry, stage, "
        "parameter assignment)")

M = dp.mechanisms
BudgetError = dp.utils.BudgetError
NAN, INF = float("nan"), float("inf")


# ------------------------------------------------------------------------------------------------ values

def kind_of(exc):
    if exc is None:
        return "ok"
    if isinstance(exc, BudgetError):
        return "budgetError"
    if isinstance(exc, TypeError):
        return "typeError"
    if isinstance(exc, ValueError):
        return "valueError"
    if isinstance(exc, OverflowError):
        return "overflowError"
    return "other:" + type(exc).__name__


def ext_tok(x):
    x = float(x) if not isinstance(x, int) else x
    if isinstance(x, float):
        if x != x:
            return "nan"
        if x == INF:
            return "inf"
        if x == -INF:
            return "-inf"
    f = Fraction(x)
    return f"{f.numerator}/{f.denominator}"


def tok(v):
    if v is None:
        return "none"
    if isinstance(v, str):
        try:
            return "str:" + ext_tok(float(v))
        except ValueError:
            return "str:x"
    if isinstance(v, complex):
        return "cplx:" + ext_tok(v.real)
    if isinstance(v, (bool, np.bool_)):
        return "bool:1" if v else "bool:0"
    if isinstance(v, (int, np.integer)):
        return f"int:{int(v)}"
    return "flt:" + ext_tok(float(v))


def tag(v):
    """short stable name of a catalogue value (used in signatures)"""
    if v is None:
        return "none"
    if isinstance(v, str):
        return "string"
    if isinstance(v, complex):
        return "complex"
    if isinstance(v, bool):
        return "bool"
    if isinstance(v, float) and v != v:
        return "nan"
    if v == INF:
        return "inf"
    if v == -INF:
        return "neg-inf"
    if v == -5e-324:
        return "tiny-negative"
    if isinstance(v, float) and v == 0 and math.copysign(1, v) < 0:
        return "-0.0"
    if v < 0:
        return "negative"
    return repr(v)


def enc(v):
    return repr(v)


def dec(s):
    return eval(s, {"__builtins__": {}, "nan": NAN, "inf": INF, "np": np})  # noqa: S307 - our own replay files


INVALID_CAT = [-1.0, -5e-324, NAN, INF, -INF, 1 + 1e-9, "1", 1j, None]
VALID_CAT = [True, False, 0.0, 0, 1.0, 1, 0.5, 0.25, 0.3, 5e-324, 2 ** -52, 1.5, 2.0, 3, 0.1, 0.49, 0.6, 1e-9]
# the doubles next to every threshold a guard compares with (0, 1, 1/2, 2^-52): tolerance-prone rewrites of a guard
# (`isclose`, `<` for `<=`, rounding) change the verdict exactly there
NEIGHBOURS = [-0.0, -1e-300, 1 + 2 ** -52, 1 - 2 ** -53, 0.5 + 2 ** -53, 0.5 - 2 ** -54, 2 ** -52 + 2 ** -104,
              2 ** -52 - 2 ** -105, 2 ** -51, 1e-12, -1e-12]
VALID_CAT = VALID_CAT + NEIGHBOURS
CAT = INVALID_CAT + VALID_CAT


def is_real(v):
    return isinstance(v, Real)


def mixed_type_bounds():
    """(lower, upper) pairs whose ORDER is only visible to an exact comparison: Python ints beyond 2^53 against floats (the
    float difference rounds to 0), fixed-width numpy integers at their extremes (a difference wraps around), inversions
    smaller than one double spacing; inverted and correctly ordered ones"""
    i64, i32 = np.int64, np.int32
    inv = [(10 ** 17 + 5, 1e17), (2 ** 53 + 1, float(2 ** 53)), (10 ** 30 + 1, 1e30), (-(10 ** 17), -1e17 - 32),
           (i64(2 ** 63 - 1), i64(-2)), (i64(2 ** 62), i64(-2 ** 62 - 1)), (i32(2 ** 31 - 1), i32(-2)), (i64(5), i64(3)),
           (i64(2 ** 63 - 1), -1.0), (2 ** 63, i64(2 ** 63 - 1)), (np.float32(1.0000001), np.float32(1.0)),
           (np.float64(1e17) + 16, 10 ** 17 + 1), (2 ** 60 + 1, i64(2 ** 60))]
    ordered = [(b, a) for a, b in inv] + [(i64(0), i64(10)), (float(2 ** 53), 2 ** 53), (i32(-5), 3.5)]
    return inv + ordered


def near_inversions():
    """(lower, upper) with lower > upper by a RELATIVE amount 1e-12 … 1e-3 (and by one ulp) at magnitudes 1e-9 … 1e12:
    inverted bounds that a tolerance-based comparison would wave through"""
    out = []
    for mag in (1e-9, 1e-3, 1.0, 100.0, 1.6e9, 1e12, -1.0, -1.6e9):
        for rel in (1e-12, 1e-9, 1e-6, 5e-6, 1e-3):
            lo = mag + abs(mag) * rel
            if lo > mag:
                out.append((lo, mag))
        out.append((math.nextafter(mag, INF), mag))
    out += [(100.0005, 100.0), (1600005000.0, 1600000000.0), (5e-324, 0.0), (0.0, -5e-324), (1e-9, 0.0), (0.0, -0.0)]
    return out


# ------------------------------------------------------------------------------------------------ mechanisms

VAR = {"epsilon": "epsilon", "delta": "delta", "sensitivity": "sensitivity", "function_sensitivity": "sensitivity",
       "data_sensitivity": "data_sensitivity", "lower": "lower", "upper": "upper", "gamma": "gamma", "alpha": "alpha",
       "dimension": "dimension"}
UL = [("a", "b", 1), ("a", "c", 1), ("b", "c", 1)]
PURE = {"Binary", "Bingham", "Exponential", "PermuteAndFlip", "ExponentialCategorical", "ExponentialHierarchical",
        "Geometric", "GeometricTruncated", "GeometricFolded", "Snapping", "Staircase", "Vector"}
INT_SENS = {"GaussianDiscrete", "Geometric", "GeometricTruncated", "GeometricFolded"}

# kw: a valid constructor call; value: a valid argument of randomise; vtok: how the model sees that value
SPEC = {
    "Binary": dict(kw=dict(epsilon=1.0, value0="a", value1="b"), value="a", vtok=None),
    "Bingham": dict(kw=dict(epsilon=1.0, sensitivity=1.0), value=np.array([[2.0, 0.5], [0.5, 1.0]]), vtok=None),
    "Exponential": dict(kw=dict(epsilon=1.0, sensitivity=1.0, utility=[0.0, 1.0, 2.0]), value=None, vtok=None),
    "PermuteAndFlip": dict(kw=dict(epsilon=1.0, sensitivity=1.0, utility=[0.0, 1.0, 2.0]), value=None, vtok=None),
    "ExponentialCategorical": dict(kw=dict(epsilon=1.0, utility_list=UL), value="a", vtok=None),
    "ExponentialHierarchical": dict(kw=dict(epsilon=1.0, hierarchy=[["a", "b"], ["c", "d"]]), value="a", vtok=None),
    "Gaussian": dict(kw=dict(epsilon=0.5, delta=0.1, sensitivity=1.0), value=0.0, vtok="flt:0/1"),
    "GaussianAnalytic": dict(kw=dict(epsilon=0.5, delta=0.1, sensitivity=1.0), value=0.0, vtok="flt:0/1"),
    "GaussianDiscrete": dict(kw=dict(epsilon=0.5, delta=0.1, sensitivity=1), value=0, vtok="int:0"),
    "Geometric": dict(kw=dict(epsilon=1.0, sensitivity=1), value=0, vtok="int:0"),
    "GeometricTruncated": dict(kw=dict(epsilon=1.0, sensitivity=1, lower=0, upper=10), value=3, vtok="int:3"),
    "GeometricFolded": dict(kw=dict(epsilon=1.0, sensitivity=1, lower=0, upper=10), value=3, vtok="int:3"),
    "Laplace": dict(kw=dict(epsilon=1.0, delta=0.0, sensitivity=1.0), value=0.0, vtok="flt:0/1"),
    "LaplaceTruncated": dict(kw=dict(epsilon=1.0, delta=0.0, sensitivity=1.0, lower=0.0, upper=10.0), value=3.0, vtok="flt:3/1"),
    "LaplaceFolded": dict(kw=dict(epsilon=1.0, delta=0.0, sensitivity=1.0, lower=0.0, upper=10.0), value=3.0, vtok="flt:3/1"),
    "LaplaceBoundedDomain": dict(kw=dict(epsilon=1.0, delta=0.0, sensitivity=1.0, lower=0.0, upper=10.0), value=3.0,
                                 vtok="flt:3/1"),
    "LaplaceBoundedNoise": dict(kw=dict(epsilon=1.0, delta=0.1, sensitivity=1.0), value=0.0, vtok="flt:0/1"),
    "Snapping": dict(kw=dict(epsilon=1.0, sensitivity=1.0, lower=0.0, upper=10.0), value=3.0, vtok="flt:3/1"),
    "Staircase": dict(kw=dict(epsilon=1.0, sensitivity=1.0, gamma=0.3), value=0.0, vtok="flt:0/1"),
    "Uniform": dict(kw=dict(delta=0.1, sensitivity=1.0), value=0.0, vtok="flt:0/1"),
    "Vector": dict(kw=dict(epsilon=1.0, function_sensitivity=1.0, data_sensitivity=1.0, dimension=3, alpha=0.01),
                   value=(lambda x: 0.0), vtok=None),
}
NUMERIC_ATTRS = list(VAR)


def ctor_params(cls):
    return [p for p in SPEC[cls]["kw"] if p in VAR]


def attrs_of(cls):
    """numeric attributes that exist on an instance (epsilon and delta always do)"""
    a = ["epsilon", "delta"] + [p for p in SPEC[cls]["kw"] if p in VAR and p not in ("epsilon", "delta")]
    return a


def make(cls, overrides=None, scripted=False):
    kw = dict(SPEC[cls]["kw"])
    kw.update(overrides or {})
    if scripted:
        # validation is the FIRST statement of randomise; an exhausted script stops the sampler at its first draw, so
        # that extreme-but-valid parameters (tiny epsilon: rejection loops, C12's business) cannot stall the sweep
        kw["random_state"] = (seams.ScriptedRandomState() if cls in ("Staircase", "Bingham")
                              else seams.ScriptedSystemRandom())
    return getattr(M, cls)(**kw)


class _Timeout(BaseException):
    pass


def _alarm(*a):
    raise _Timeout()


def with_timeout(f, seconds=2.0):
    """-> (result, timed_out)"""
    import signal
    old = signal.signal(signal.SIGALRM, _alarm)
    signal.setitimer(signal.ITIMER_REAL, seconds)
    try:
        return f(), False
    except _Timeout:
        return None, True
    finally:
        signal.setitimer(signal.ITIMER_REAL, 0)
        signal.signal(signal.SIGALRM, old)


def in_validation(exc):
    """was the exception raised inside one of the `_check_*` methods (as opposed to the computations that follow)?"""
    import traceback
    return any(fr.name.startswith("_check") for fr in traceback.extract_tb(exc.__traceback__))


def run_ctor(cls, overrides):
    """-> (kind, kind of the validation part alone)"""
    try:
        with warnings.catch_warnings():
            warnings.simplefilter("ignore")
            with np.errstate(all="ignore"):
                make(cls, overrides)
        return "ok", "ok"
    except Exception as e:  # noqa
        return kind_of(e), (kind_of(e) if in_validation(e) else "ok")


def run_check_all(cls, assign):
    """the validation unit of the randomise stage: `_check_all(value)` on an instance with reassigned attributes"""
    try:
        m = make(cls, scripted=True)
        for a, v in assign.items():
            setattr(m, a, v)
    except Exception as e:  # noqa
        return "base-construction-failed:" + kind_of(e)
    try:
        with warnings.catch_warnings():
            warnings.simplefilter("ignore")
            with np.errstate(all="ignore"):
                m._check_all(SPEC[cls]["value"])
        return "ok"
    except Exception as e:  # noqa
        return kind_of(e)


def run_rand(cls, assign, scripted=True):
    """construct validly, assign attributes, randomise -> (kind, what came back)"""
    try:
        m = make(cls, scripted=scripted)
        for a, v in assign.items():
            setattr(m, a, v)
    except Exception as e:  # noqa - the VALID base construction failed: a library defect, reported by the caller
        return "base-construction-failed:" + kind_of(e), None

    def go():
        try:
            with warnings.catch_warnings():
                warnings.simplefilter("ignore")
                with np.errstate(all="ignore"):
                    return "ok", m.randomise(SPEC[cls]["value"])
        except seams.ScriptExhausted:
            return "ok", "<validation passed; sampler reached>"
        except Exception as e:  # noqa
            return kind_of(e), None
    res, timed_out = with_timeout(go)
    if timed_out:
        return "ok", "<validation passed; randomise did not return within 2 s>"
    return res


def run_seq(cls, assign, scripted=True):
    """construct -> one successful randomise (+ bias / variance / mse / effective_epsilon where they exist) -> assign ->
    randomise again.  Guards against any 'validated once, then cached' pattern."""
    try:
        m = make(cls)
    except Exception as e:  # noqa
        return "first-randomise-failed:construction:" + kind_of(e), None
    value = SPEC[cls]["value"]

    def first():
        with warnings.catch_warnings():
            warnings.simplefilter("ignore")
            with np.errstate(all="ignore"):
                m.randomise(value)
                for fn in ("bias", "variance", "mse", "effective_epsilon"):
                    f = getattr(m, fn, None)
                    if f is None:
                        continue
                    try:
                        f() if fn == "effective_epsilon" else f(value)
                    except Exception:  # noqa - NotImplementedError etc.: these are only there to warm any cache
                        pass
        return True
    try:
        ok, timed_out = with_timeout(first, 5.0)
    except Exception as e:  # noqa
        return "first-randomise-failed:" + kind_of(e), None
    if timed_out:
        return "first-randomise-failed:timeout", None
    # the second call must validate again; an exhausted script stops it at its first draw if it gets that far
    if scripted:
        m._rng = seams.ScriptedRandomState() if cls in ("Staircase", "Bingham") else seams.ScriptedSystemRandom()
    for a, v in assign.items():
        setattr(m, a, v)

    def go():
        try:
            with warnings.catch_warnings():
                warnings.simplefilter("ignore")
                with np.errstate(all="ignore"):
                    return "ok", m.randomise(value)
        except seams.ScriptExhausted:
            return "ok", "<validation passed; sampler reached>"
        except Exception as e:  # noqa
            return kind_of(e), None
    res, timed_out = with_timeout(go)
    if timed_out:
        return "ok", "<validation passed; randomise did not return within 2 s>"
    return res


def class_invalid_values(cls, attr):
    """the class-specific invalid values of the property's list, next to the generic catalogue"""
    out = list(INVALID_CAT)
    if attr == "delta" and cls in PURE:
        out += [0.5, 1e-9, True, 1.0]
    if attr == "epsilon" and cls == "Gaussian":
        out += [1.5, 2.0, 3]
    if attr == "delta" and cls in ("LaplaceBoundedNoise", "Uniform"):
        out += [0.6, 1.0] + ([0.5] if cls == "LaplaceBoundedNoise" else [])
    if attr == "epsilon" and cls not in ("Uniform",):
        out += [0.0] if cls in PURE or cls in ("Gaussian", "GaussianAnalytic", "GaussianDiscrete", "LaplaceBoundedNoise") else []
    if attr in ("lower", "upper"):
        out = ["1", None, 1j] + ([-5.0] if attr == "upper" else [50.0])      # lower above upper
    return out


def ctor_line(cls, overrides):
    kw = dict(SPEC[cls]["kw"])
    kw.update(overrides)
    parts = [f"{VAR[p]}={tok(v)}" for p, v in kw.items() if p in VAR]
    return f"ctor {cls} " + " ".join(parts) + " |"


def rand_line(cls, assign):
    try:
        vals = base_attrs(cls)
    except RuntimeError:      # reported once per class by check_mechanisms
        vals = {p: v for p, v in SPEC[cls]["kw"].items() if p in VAR}
    vals.update(assign)
    parts = [f"{VAR[p]}={tok(v)}" for p, v in vals.items()]
    if SPEC[cls]["vtok"]:
        parts.append("value=" + SPEC[cls]["vtok"])
    return f"rand {cls} " + " ".join(parts) + " |"


def invalid_reason(cls, vals):
    """is this parameter assignment invalid BY THE PROPERTY'S OWN LIST?  -> (param, kind) or None.
    `vals`: the numeric parameters as the mechanism will see them (name -> value)."""
    e, d = vals.get("epsilon"), vals.get("delta")
    for p in ("epsilon", "delta", "sensitivity", "function_sensitivity", "data_sensitivity", "lower", "upper"):
        if p in vals and not is_real(vals[p]):
            return p, tag(vals[p])
    if e != e:
        return "epsilon", "nan"
    if e < 0:
        return "epsilon", tag(e)
    if not 0 <= d <= 1:
        return "delta", "out-of-[0,1]" if d == d else "nan"
    if e == 0 and d == 0:
        return "epsilon+delta", "both-zero"
    for p in ("sensitivity", "function_sensitivity", "data_sensitivity"):
        if p in vals:
            s = vals[p]
            if s != s:
                return p, "nan"
            if s < 0:
                return p, tag(s)
    if "lower" in vals and vals["lower"] > vals["upper"]:
        return "lower/upper", "lower-above-upper"
    if cls in PURE and d != 0:
        return "delta", "nonzero-delta-pure"
    if cls == "Gaussian" and e > 1:
        return "epsilon", "above-one-classical-gaussian"
    if cls == "LaplaceBoundedNoise" and d >= 0.5:
        return "delta", "at-least-half"
    if cls == "Uniform" and d > 0.5:
        return "delta", "above-half"
    return None


def ctor_view(cls, overrides):
    """numeric parameters as seen by the constructor's validation (classes fix the ones they do not expose)"""
    kw = dict(SPEC[cls]["kw"])
    kw.update(overrides)
    vals = {p: v for p, v in kw.items() if p in VAR}
    if cls == "Uniform":
        vals["epsilon"] = 0.0
    elif "delta" not in vals:
        vals["delta"] = 0.0
    return vals


_BASE = {}


def base_attrs(cls):
    """attribute values of a validly constructed instance (cached).  Raises if the VALID base configuration cannot be
    constructed any more — the caller turns that into a per-class disagreement."""
    if cls not in _BASE:
        try:
            with warnings.catch_warnings():
                warnings.simplefilter("ignore")
                m = make(cls)
            _BASE[cls] = ("ok", {a: getattr(m, a) for a in attrs_of(cls)})
        except Exception as e:  # noqa
            _BASE[cls] = ("broken", f"{type(e).__name__}: {str(e)[:200]}")
    st, v = _BASE[cls]
    if st != "ok":
        raise RuntimeError(f"valid {cls}({SPEC[cls]['kw']}) can no longer be constructed: {v}")
    return dict(v)


def rand_view(cls, assign):
    vals = base_attrs(cls)
    vals.update(assign)
    return vals


def judge_mech(ctx, cls, stage, assign, kind, returned, model, vkind):
    key = (cls, stage, tuple(sorted((a, enc(v)) for a, v in assign.items())))
    ctx.case(key if kind != "ok" else None)
    vals = ctor_view(cls, assign) if stage == "ctor" else rand_view(cls, assign)
    inv = invalid_reason(cls, vals)
    data = {"unit": "mechanism", "cls": cls, "stage": stage, "assign": {a: enc(v) for a, v in assign.items()}}
    if inv is not None and kind not in ("typeError", "valueError"):
        suffix = {"ctor": "accepted", "rand": "accepted-at-randomise", "seq": "accepted-at-randomise-after-use"}[stage]
        if stage in ("rand", "seq") and kind == "ok":
            k2, r2 = (run_rand if stage == "rand" else run_seq)(cls, assign, scripted=False)
            returned = r2 if k2 == "ok" else f"<validation passed; the sampler then raised {k2}>"
        what = (f"{cls}: {inv[0]} invalid ({inv[1]}) with {data['assign']} "
                + ("was accepted by the constructor" if stage == "ctor" else
                   (f"set after construction{' and one successful randomise' if stage == 'seq' else ''}: "
                    f"randomise returned {returned!r}") if kind == "ok" else f"raised {kind}"))
        ctx.violation(f"C13:{cls}:{inv[0]}:{inv[1]}:{suffix}", what, data)
    if model != vkind:
        ctx.disagree("mechanism." + stage, data, model, vkind)
    else:
        ctx.trace_ok()


def mech_cases(ctx):
    """-> list of (cls, stage, assign)"""
    cases = []
    eps_grid = [0, 0.0, 0.5, 1.0, 1.5, INF, NAN, -1.0, "1", 2 ** -52, 2 ** -51]
    delta_grid = [0, 0.0, 0.1, 0.5, 0.6, 1.0, 1.1, NAN, "1", None, -5e-324]
    bounds_grid = [(0, 1), (1, 0), (1, 1), (NAN, 1), (0, NAN), (-INF, INF), (INF, -INF), (0.5, 1.5), (0.3, 1), ("0", 1),
                   (None, 1), (0.0, 1.0), (1.0, 0.0), (0.5000000001, 3), (2, 1.5), (True, 3), (0, 1j), (0, 10 ** 9), (1j, 0.3),
                   (1j, 2), ('1', 0.3), (0.3, None)] + mixed_type_bounds() + near_inversions()[::3] + [(100.0005, 100.0), (math.nextafter(3.0, INF), 3.0)]
    for cls in SPEC:
        cp = ctor_params(cls)
        for p in cp:
            for v in CAT:
                cases.append((cls, "ctor", {p: v}))
        if cls == "Staircase":
            cases.append((cls, "ctor", {"gamma": None}))
        for a in attrs_of(cls):
            for v in CAT:
                cases.append((cls, "rand", {a: v}))
        for e in eps_grid:
            for d in delta_grid:
                cases.append((cls, "rand", {"epsilon": e, "delta": d}))
                if "epsilon" in cp and "delta" in cp:
                    cases.append((cls, "ctor", {"epsilon": e, "delta": d}))
        if "lower" in cp:
            for lo, up in bounds_grid:
                if cls == "GeometricFolded" and any(isinstance(x, int) and not isinstance(x, bool) and abs(x) >= 2 ** 62
                                                    for x in (lo, up)):
                    continue    # np.round() of a Python int beyond 64 bits raises TypeError inside numpy: not modelled
                cases.append((cls, "ctor", {"lower": lo, "upper": up}))
                cases.append((cls, "rand", {"lower": lo, "upper": up}))
    # construct -> use -> assign an invalid value -> randomise must raise (and the unchanged instance still works)
    for cls in SPEC:
        cases.append((cls, "seq", {}))
        for a in attrs_of(cls):
            for v in class_invalid_values(cls, a):
                cases.append((cls, "seq", {a: v}))
    # random full tuples
    r = ctx.fork("tuples")
    for _ in range(ctx.budget(1500, 30000)):
        cls = r.choice(list(SPEC))
        stage = r.choice(["ctor", "rand"])
        names = ctor_params(cls) if stage == "ctor" else attrs_of(cls)
        assign = {}
        for a in names:
            if r.chance(0.45):
                assign[a] = r.choice(CAT) if r.chance(0.5) else r.choice(VALID_CAT)
        cases.append((cls, stage, assign))
    return cases


def check_mechanisms(ctx):
    cases = mech_cases(ctx)
    lines = [ctor_line(c, a) if s == "ctor" else rand_line(c, a) for c, s, a in cases]
    ctx.count("sequence_cases", len([1 for c in cases if c[1] == "seq"]))
    outs = leanio.run_driver("Validation", lines)
    broken = set()
    for cls in SPEC:
        try:
            base_attrs(cls)
        except RuntimeError as e:
            broken.add(cls)
            ctx.disagree("mechanism.base", {"cls": cls, "kwargs": {k: enc(v) for k, v in SPEC[cls]["kw"].items() if k in VAR}},
                         "ok", str(e), note="a valid parameter set is refused / crashes")
    for (cls, stage, assign), model in zip(cases, outs):
        if cls in broken:
            continue
        try:
            if stage == "ctor":
                kind, vkind = run_ctor(cls, assign)
                judge_mech(ctx, cls, stage, assign, kind, None, model, vkind)
            elif stage == "seq":
                kind, out = run_seq(cls, assign)
                # when the model's validation passes, an error raised later by the sampler's own computations (e.g. a
                # float `dimension` used in range()) is outside the modelled unit; `rand` compares `_check_all` itself
                judge_mech(ctx, cls, stage, assign, kind, out, model,
                           "ok" if (model == "ok" and not kind.startswith("first-")) else kind)
            else:
                kind, out = run_rand(cls, assign)
                judge_mech(ctx, cls, stage, assign, kind, out, model, run_check_all(cls, assign))
        except Exception as e:  # noqa - never abort the sweep: an unexpected exception is a per-case disagreement
            ctx.disagree("mechanism." + stage, {"cls": cls, "stage": stage, "assign": {a: enc(v) for a, v in assign.items()}},
                         model, f"harness/library raised {type(e).__name__}: {str(e)[:200]}")
    ctx.count("mechanism_cases", len(cases))
    ctx.sample({"cls": "Laplace", "stage": "ctor", "assign": {"epsilon": "nan"}, "impl": run_ctor("Laplace", {"epsilon": NAN})[0]})
    ctx.sample({"cls": "Binary", "stage": "rand", "assign": {"delta": "0.5"}, "impl": run_rand("Binary", {"delta": 0.5})[0]})


class Impostor:
    """not a number, but equal to (and hashing like) the valid value `v`: defeats any cache keyed on the arguments"""

    def __init__(self, v):
        self.v = v

    def __eq__(self, other):
        return other == self.v

    def __hash__(self):
        return hash(self.v)

    def __repr__(self):
        return f"Impostor({self.v!r})"


def impostors_of(v):
    from decimal import Decimal
    out = [("complex", complex(v, 0)), ("np.complex128", np.complex128(v)), ("Impostor", Impostor(v))]
    try:
        if Decimal(str(v)) == Decimal(v):
            out.append(("Decimal", Decimal(str(v))))
    except Exception:  # noqa
        pass
    return out


def check_impostors(ctx):
    """for each (class, parameter, valid value v): one valid construct + randomise with v (warming any cache), then
    non-numeric values that compare and hash EQUAL to v; each must be refused at construction and at randomise"""
    n = 0
    for cls in SPEC:
        try:
            base = base_attrs(cls)
        except RuntimeError:
            continue
        cp = ctor_params(cls)
        for p in attrs_of(cls):
            vals = [base[p]]
            if p == "epsilon" and cls != "Uniform":
                vals += [0.5]
            for v in vals:
                if not is_real(v) or v != v or v in (INF, -INF):
                    continue
                over = {p: v} if p in cp else {}
                warm_c = run_ctor(cls, over)[0]
                warm_r = run_rand(cls, {p: v})[0]
                if warm_c != "ok" or warm_r != "ok":
                    ctx.disagree("mechanism.impostor-warm", {"cls": cls, "param": p, "value": enc(v)}, "ok", [warm_c, warm_r])
                    continue
                for tname, imp in impostors_of(v):
                    for stage in (["ctor"] if p in cp else []) + ["rand"]:
                        n += 1
                        try:
                            kind = run_ctor(cls, {p: imp})[0] if stage == "ctor" else run_rand(cls, {p: imp})[0]
                        except Exception as e:  # noqa
                            ctx.disagree("mechanism.impostor", {"cls": cls, "param": p, "impostor": repr(imp)},
                                         "raises TypeError", f"harness/library raised {type(e).__name__}: {e}")
                            continue
                        ctx.case((cls, stage, p, tname, enc(v)))
                        if kind in ("typeError", "valueError"):
                            ctx.trace_ok()
                            continue
                        ret = ""
                        if stage == "rand":
                            k2, r2 = run_rand(cls, {p: imp}, scripted=False)
                            ret = f"; randomise returned {r2!r}" if k2 == "ok" else ""
                        ctx.violation(f"C13:{cls}:{p}:non-numeric-equal-to-valid({tname}):"
                                      + ("accepted" if stage == "ctor" else "accepted-at-randomise"),
                                      f"{cls}: after a valid use with {p}={v!r}, the non-numeric {imp!r} (== {v!r}, same hash) "
                                      + ("was accepted by the constructor" if stage == "ctor"
                                         else "assigned to the attribute was accepted by randomise") + f" -> {kind}{ret}",
                                      {"unit": "impostor", "cls": cls, "stage": stage, "param": p, "value": enc(v),
                                       "impostor": tname})
    ctx.count("impostor_cases", n)


# ------------------------------------------------------------------------------------------------ validation.py, Budget

def call_kind(f, *a, **k):
    try:
        with warnings.catch_warnings():
            warnings.simplefilter("ignore")
            with np.errstate(all="ignore"):
                return "ok", f(*a, **k)
    except Exception as e:  # noqa
        return kind_of(e), None


def eps_delta_invalid(e, d, allow_zero=False):
    if not is_real(e):
        return "epsilon", tag(e)
    if not is_real(d):
        return "delta", tag(d)
    if e != e:
        return "epsilon", "nan"
    if e < 0:
        return "epsilon", tag(e)
    if not 0 <= d <= 1:
        return "delta", "out-of-[0,1]" if d == d else "nan"
    if not allow_zero and e == 0 and d == 0:
        return "epsilon+delta", "both-zero"
    return None


def check_validation(ctx):
    V = dp.validation
    pairs = [(e, d) for e in CAT for d in [0, 0.0, 0.5, 1.0, 1 + 1e-9, -5e-324, NAN, "1", None, 1j, True]]
    pairs += [(1.0, d) for d in CAT]
    lines, recs = [], []
    for e, d in pairs:
        for az in (False, True):
            lines.append(f"ced {int(az)} epsilon={tok(e)} delta={tok(d)}")
            recs.append(("check_epsilon_delta", (e, d, az), call_kind(V.check_epsilon_delta, e, d, az)[0],
                         eps_delta_invalid(e, d, az)))
        lines.append(f"budget epsilon={tok(e)} delta={tok(d)}")
        inv = eps_delta_invalid(e, d, True)
        if inv and inv[1] in ("string", "none", "complex") and False:
            inv = None
        recs.append(("Budget", (e, d), call_kind(dp.utils.Budget, e, d)[0], inv))
    bvals = [0, 1, 0.0, 1.0, -1.0, NAN, INF, -INF, "1", "abc", None, 1j, True, 0.5]
    for lo in bvals:
        for up in bvals:
            lines.append(f"bounds {tok(lo)} {tok(up)}")
            inv = None
            if is_real(lo) and is_real(up) and lo > up:
                inv = ("bounds", "lower-above-upper")
            recs.append(("check_bounds", (lo, up), call_kind(V.check_bounds, (lo, up))[0], inv))
    for lo, up in near_inversions():
        lines.append(f"bounds {tok(lo)} {tok(up)}")
        recs.append(("check_bounds", (lo, up), call_kind(V.check_bounds, (lo, up))[0],
                     ("bounds", "lower-above-upper(near)") if lo > up else None))
    # per-feature bounds: ONE (nearly) inverted feature among valid ones, at every position
    for lo, up in near_inversions()[::2] + [(2.0, 1.0)]:
        for d_ in (2, 3):
            for pos in range(d_):
                lows = [0.0] * d_
                ups = [1.0] * d_
                lows[pos], ups[pos] = lo, up
                kind = call_kind(V.check_bounds, (np.array(lows), np.array(ups)), d_)[0]
                ctx.case(("check_bounds[array]", enc(lo), enc(up), d_, pos))
                if lo > up and kind not in ("typeError", "valueError"):
                    ctx.violation("C13:check_bounds:bounds[feature]:lower-above-upper(near):accepted",
                                  f"check_bounds(({lows}, {ups}), shape={d_}) with feature {pos} inverted -> {kind}",
                                  {"unit": "check_bounds[array]", "args": [enc(lows), enc(ups), enc(d_)]})
                elif (kind == "ok") != (not lo > up):
                    ctx.disagree("validation.check_bounds[array]", {"lower": lows, "upper": ups}, "ok", kind)
                else:
                    ctx.trace_ok()
    X = np.array([[3.0, 4.0], [0.3, 0.4]])
    for c in CAT:
        lines.append(f"clip clip={tok(c)}")
        inv = None
        if not is_real(c):
            inv = ("clip", tag(c))
        elif c <= 0:
            inv = ("clip", tag(c))
        recs.append(("clip_to_norm", (c,), call_kind(V.clip_to_norm, X, c)[0], inv))
    outs = leanio.run_driver("Validation", lines)
    for (fn, args, kind, inv), model in zip(recs, outs):
        ctx.case((fn, tuple(enc(a) for a in args)) if kind != "ok" else None)
        data = {"unit": fn, "args": [enc(a) for a in args]}
        if inv is not None and kind not in ("typeError", "valueError"):
            ctx.violation(f"C13:{fn}:{inv[0]}:{inv[1]}:accepted",
                          f"{fn}({', '.join(enc(a) for a in args)}) with invalid {inv[0]} ({inv[1]}) -> {kind}", data)
        if model != kind:
            ctx.disagree("validation." + fn, data, model, kind)
        else:
            ctx.trace_ok()


# ------------------------------------------------------------------------------------------------ accountant

def acc_state(a):
    try:
        t = a.total()
        t = (float(t[0]), float(t[1]))
    except Exception as e:  # noqa - an accountant that recorded an invalid spend cannot even report its total
        t = ("total() raises " + type(e).__name__, "")
    return (len(a), tuple(a.spent_budget), t[0], t[1], a.slack)


def check_accountant(ctx):
    BA = dp.BudgetAccountant
    lines, recs = [], []

    def valid_acc(*a, **k):
        """a VALID accountant; if the library refuses / crashes, the case is recorded with that fact as its result"""
        try:
            return BA(*a, **k), None
        except Exception as e:  # noqa
            return None, f"valid-accountant-construction-raised:{type(e).__name__}"
    # constructor
    for e in CAT:
        for d in [0, 0.5, 1.0, 1 + 1e-9, NAN, "1", None, -5e-324]:
            lines.append(f"ced 0 epsilon={tok(e)} delta={tok(d)}")
            recs.append(("BudgetAccountant", (e, d), call_kind(BA, e, d)[0], eps_delta_invalid(e, d), None))
    # slack setter
    for s in CAT:
        lines.append(f"slack slack={tok(s)} delta={tok(0.5)}")
        inv = None
        if not is_real(s):
            inv = ("slack", tag(s))
        elif not 0 <= s <= 0.5:
            inv = ("slack", "out-of-[0,delta]" if s == s else "nan")
        a, bad = valid_acc(1.0, 0.5)
        if bad:
            recs.append(("BudgetAccountant.slack", (s,), bad, None, None))
            continue
        before = acc_state(a)
        k = call_kind(lambda v: setattr(a, "slack", v), s)[0]
        recs.append(("BudgetAccountant.slack", (s,), k, inv, None if k == "ok" else (before, acc_state(a))))
    # remaining(k)
    for kk in [0, -1, 1, 2, 1.5, NAN, "1", None, True, False, 1.0, INF, 1j]:
        lines.append(f"remk k={tok(kk)}")
        inv = None
        if not isinstance(kk, (int,)) or (is_real(kk) and kk < 1):
            inv = ("k", tag(kk))
        a, bad = valid_acc(1.0, 0.5)
        recs.append(("BudgetAccountant.remaining", (kk,), bad or call_kind(a.remaining, kk)[0], None if bad else inv, None))
    # check / spend
    configs = [(INF, 1.0, []), (1.0, 0.5, [(0.25, 0.0)]), (1.0, 0.0, []), (2.0, 1.0, [(0.5, 0.25), (0.5, 0.25)])]
    spends = [(e, d) for e in CAT for d in [0, 0.0, 0.25, 0.5, 1.0, 1 + 1e-9, NAN, "1", None, -5e-324]]
    spends += [(0.5, d) for d in CAT] + [(0.75, 0), (1.0, 0), (1.25, 0)]
    for ce, cd, prior in configs:
        flat = " ".join(f"{ext_tok(a)} {ext_tok(b)}" for a, b in prior)
        for e, d in spends:
            for op in ("check", "spend"):
                lines.append(f"acc {op} {ext_tok(ce)} {ext_tok(cd)} {len(prior)} {flat} epsilon={tok(e)} delta={tok(d)}")
                a, bad = valid_acc(ce, cd, spent_budget=list(prior))
                if bad:
                    recs.append((f"BudgetAccountant.{op}", (ce, cd, len(prior), e, d), bad, None, None))
                    continue
                before = acc_state(a)
                k = call_kind(getattr(a, op), e, d)[0]
                after = acc_state(a)
                recs.append((f"BudgetAccountant.{op}", (ce, cd, len(prior), e, d),
                             k + (f" {after[0]}" if op == "spend" else ""), eps_delta_invalid(e, d), (before, after)))
    # constructor with prior spends: every catalogue value in EACH position of a multi-entry list, next to valid entries
    # large enough to mask it in a composed total; each entry must be validated by itself
    for ce, cd, goods in [(INF, 1.0, [(2.0, 0.0), (1.0, 0.5)]), (1.0, 0.0, [(0.5, 0), (0.25, 0)]),
                          (10.0, 0.75, [(2.0, 0.25), (1.0, 0.5)])]:
        lists = [[(0.0, 0.0)], [goods[0], (0.0, 0.0)], list(goods)]
        for v in CAT:
            for bad in ((v, 0.0), (v, 0.25), (0.5, v)):
                lists += [[bad, goods[0]], [goods[0], bad], [goods[0], bad, goods[1]], [bad]]
        for lst in lists:
            toks = " ".join(f"{tok(e)} {tok(d)}" for e, d in lst)
            lines.append(f"accnew {tok(ce)} {tok(cd)} {toks}")
            k, obj = call_kind(lambda: BA(ce, cd, spent_budget=list(lst)))
            inv = None
            for i, (e, d) in enumerate(lst):
                r_ = eps_delta_invalid(e, d)
                if r_:
                    inv = (f"spent_budget[{i}].{r_[0]}", r_[1])
                    break
            recs.append(("BudgetAccountant(spent_budget)", (ce, cd, lst), k + (f" {len(obj)}" if k == "ok" else ""), inv, None))
    outs = leanio.run_driver("Validation", lines)
    for (fn, args, kind, inv, states), model in zip(recs, outs):
        k0 = kind.split()[0]
        ctx.case((fn, tuple(enc(a) for a in args)) if k0 != "ok" else None)
        data = {"unit": fn, "args": [enc(a) for a in args]}
        if inv is not None and k0 not in ("typeError", "valueError", "budgetError"):
            ctx.violation(f"C13:{fn}:{inv[0]}:{inv[1]}:accepted",
                          f"{fn}({', '.join(enc(a) for a in args)}) with invalid {inv[0]} ({inv[1]}) -> {kind}", data)
        if states is not None and k0 != "ok" and repr(states[0]) != repr(states[1]):
            ctx.violation(f"C13:{fn}:refused-but-recorded",
                          f"{fn}({', '.join(enc(a) for a in args)}) raised {k0} but the accountant changed from "
                          f"{states[0]} to {states[1]}", data)
        if model != kind:
            # the budget comparison itself is C04's: the model adds the spends exactly, the code in doubles; a decision
            # within rounding of the ceiling may legitimately differ
            if {model.split()[0], k0} == {"ok", "budgetError"} and is_real(args[0]) and args[0] != INF:
                near = False
                if fn.split(".")[-1] in ("check", "spend") and is_real(args[3]):
                    prior_eps = {1.0: 0.25, 2.0: 1.0}.get(args[0], 0.0) if args[2] else 0.0
                    near = abs(prior_eps + args[3] - args[0]) <= 1e-12 * args[0]
                elif fn == "BudgetAccountant(spent_budget)":
                    tot = 0.0
                    for e_, _ in args[2]:
                        if is_real(e_) and e_ == e_:
                            tot += e_
                            near = near or abs(tot - args[0]) <= 1e-12 * args[0]
                if near:
                    ctx.boundary_skipped += 1
                    continue
            ctx.disagree("accountant." + fn, data, model, kind)
        else:
            ctx.trace_ok()
    stateful_accountant(ctx)


BAD_ITEMS = [(-0.5, 0.0), (-5e-324, 0), (-0.0 - 1e-300, 0.0), (1.0, -0.2), (1.0, -5e-324), (0, 0), (0.0, 0.0), ("1.0", 0),
             (1.0, "0"), (NAN, 0), (1.0, NAN), (1.0, 1 + 2 ** -52), (1.0, 1 + 1e-9), (None, 0), (1.0, None), (1j, 0), (-INF, 0)]
GOOD_ITEMS = [(1.0, 0.0), (0.25, 0.125), (2.0, 0.0), (0.5, 0.25), (True, 0), (5e-324, 0.0), (0.0, 1e-9)]


def stateful_accountant(ctx):
    """accountants ALREADY HOLDING 0..5 spends x every validating entry point x an invalid item at EVERY position of a
    caller-supplied list (no prefix of the list may be trusted because the accountant has recorded that many spends)"""
    BA = dp.BudgetAccountant
    r = ctx.fork("stateful-accountant")
    lines, recs = [], []
    for k in range(6):
        for ce, cd in ((INF, 1.0), (50.0, 0.9)):
            try:
                base = BA(ce, cd, spent_budget=[(0.25, 0.0625)] * k)
            except Exception as e:  # noqa
                ctx.disagree("accountant.stateful.base", {"k": k, "ceiling": [ce, cd]}, "ok", f"raised {type(e).__name__}: {e}")
                continue
            lists = [[g] for g in GOOD_ITEMS[:3]] + [list(GOOD_ITEMS[:n]) for n in (2, 3, k, k + 1) if n > 0]
            for n in sorted({1, 2, 3, max(k, 1), k + 1, k + 2}):
                for pos in range(n):
                    for bad in (BAD_ITEMS if (n <= 3 or pos in (0, k - 1, k, n - 1)) else BAD_ITEMS[:4]):
                        lst = [r.choice(GOOD_ITEMS) for _ in range(n)]
                        lst[pos] = bad
                        lists.append(lst)
            for lst in lists:
                for slack in (None, 0.0, 0.5):
                    if slack is not None and (len(lists) > 40 and r.u01() > 0.15):
                        continue
                    toks = " ".join(f"{tok(e)} {tok(d)}" for e, d in lst)
                    before = acc_state(base)
                    kw = {} if slack is None else {"slack": slack}
                    kind = call_kind(lambda: base.total(spent_budget=list(lst), **kw))[0]
                    inv = None
                    for i, (e, d) in enumerate(lst):
                        r_ = eps_delta_invalid(e, d)
                        if r_:
                            inv = (f"spent_budget[{i} of {len(lst)}; {k} recorded].{r_[0]}", r_[1])
                            break
                    lines.append(f"acctotal {ext_tok(cd)} {'-' if slack is None else tok(slack)} {toks}")
                    recs.append(("BudgetAccountant.total(spent_budget)", (ce, cd, k, lst, slack), kind, inv,
                                 (before, acc_state(base))))
            # total(slack=…), slack setter, check, spend, remaining(k) on the k-spend accountant
            for sl in [-5e-324, -0.1, NAN, cd + 1e-9, math.nextafter(cd, INF), "0.1", None, 1j, 0.0, cd, cd / 2]:
                if sl is None:
                    continue
                kind = call_kind(lambda: base.total(slack=sl))[0]
                inv = ("slack", tag(sl)) if (not is_real(sl) or not 0 <= sl <= cd) else None
                lines.append(f"acctotal {ext_tok(cd)} {tok(sl)}")
                recs.append(("BudgetAccountant.total(slack)", (ce, cd, k, sl), kind, inv, None))
            for e, d in BAD_ITEMS:
                for op in ("check", "spend"):
                    before = acc_state(base)
                    kind = call_kind(getattr(base, op), e, d)[0]
                    lines.append(f"ced 0 epsilon={tok(e)} delta={tok(d)}")
                    recs.append((f"BudgetAccountant.{op}[{k} recorded]", (ce, cd, k, e, d), kind, eps_delta_invalid(e, d),
                                 (before, acc_state(base))))
    outs = leanio.run_driver("Validation", lines)
    for (fn, args, kind, inv, states), model in zip(recs, outs):
        ctx.case((fn, enc(args)) if kind != "ok" else None)
        data = {"unit": fn, "args": [enc(a) for a in args]}
        if inv is not None and kind not in ("typeError", "valueError", "budgetError"):
            ctx.violation(f"C13:{fn.split('[')[0]}:{inv[0].split('.')[-1]}:{inv[1]}:accepted",
                          f"{fn} on an accountant with ceiling ({args[0]}, {args[1]}) holding {args[2]} spends, "
                          f"arguments {enc(args[3:])}: invalid {inv[0]} ({inv[1]}) -> {kind}", data)
        if states is not None and repr(states[0]) != repr(states[1]):
            ctx.violation(f"C13:{fn.split('[')[0]}:state-changed", f"{fn}{enc(args)} changed the accountant", data)
        if model != kind and not (model == "ok" and kind == "budgetError"):
            ctx.disagree("accountant." + fn, data, model, kind)
        else:
            ctx.trace_ok()
    ctx.count("stateful_accountant_cases", len(recs))


# ------------------------------------------------------------------------------------------------ tools and estimators

T = dp.tools
MD = dp.models
_X = np.random.RandomState(5).uniform(0.05, 0.95, (30, 2))
_Y = np.arange(30) % 2
_YR = _X.sum(axis=1) / 2


def tool_calls():
    """name -> (has_bounds, f(epsilon, bounds, accountant))"""
    out = {}
    for n in ("mean", "nanmean", "var", "nanvar", "std", "nanstd", "sum", "nansum", "median"):
        out[n] = (True, (lambda n: lambda e, b, a: getattr(T, n)(_X, epsilon=e, bounds=b, accountant=a))(n))
    out["quantile"] = (True, lambda e, b, a: T.quantile(_X, 0.5, epsilon=e, bounds=b, accountant=a))
    out["percentile"] = (True, lambda e, b, a: T.percentile(_X, 50, epsilon=e, bounds=b, accountant=a))
    out["mean[axis0]"] = (True, lambda e, b, a: T.mean(_X, epsilon=e, bounds=b, axis=0, accountant=a))
    out["quantile[multi]"] = (True, lambda e, b, a: T.quantile(_X, [0.2, 0.8], epsilon=e, bounds=b, accountant=a))
    out["count_nonzero"] = (False, lambda e, b, a: T.count_nonzero(_X > 0.5, epsilon=e, accountant=a))
    out["histogram"] = (False, lambda e, b, a: T.histogram(_X[:, 0], epsilon=e, bins=3, range=(0, 1), accountant=a))
    out["histogramdd"] = (False, lambda e, b, a: T.histogramdd(_X, epsilon=e, bins=2, range=[(0, 1), (0, 1)], accountant=a))
    out["histogram2d"] = (False, lambda e, b, a: T.histogram2d(_X[:, 0], _X[:, 1], epsilon=e, bins=2,
                                                               range=[(0, 1), (0, 1)], accountant=a))
    return out


def model_calls():
    """name -> (bounds kw or None, f(epsilon, bounds, accountant))"""
    b2 = lambda b: b  # noqa: E731
    return {
        "GaussianNB": (True, lambda e, b, a: MD.GaussianNB(epsilon=e, bounds=b2(b), accountant=a).fit(_X, _Y)),
        "KMeans": (True, lambda e, b, a: MD.KMeans(n_clusters=2, epsilon=e, bounds=b2(b), accountant=a).fit(_X)),
        "StandardScaler": (True, lambda e, b, a: MD.StandardScaler(epsilon=e, bounds=b2(b), accountant=a).fit(_X)),
        "LinearRegression": (True, lambda e, b, a: MD.LinearRegression(epsilon=e, bounds_X=b2(b), bounds_y=(0, 1),
                                                                      accountant=a).fit(_X, _YR)),
        "LogisticRegression": (False, lambda e, b, a: MD.LogisticRegression(epsilon=e, data_norm=2.0, max_iter=10,
                                                                            accountant=a).fit(_X, _Y)),
        "PCA": (True, lambda e, b, a: MD.PCA(n_components=1, epsilon=e, bounds=b2(b), data_norm=2.0, accountant=a).fit(_X)),
        "RandomForestClassifier": (True, lambda e, b, a: MD.RandomForestClassifier(
            n_estimators=2, epsilon=e, bounds=b2(b), classes=[0, 1], max_depth=2, accountant=a).fit(_X, _Y)),
        "DecisionTreeClassifier": (True, lambda e, b, a: MD.DecisionTreeClassifier(
            epsilon=e, bounds=b2(b), classes=[0, 1], max_depth=2, accountant=a).fit(_X, _Y)),
    }


EPS_CAT = INVALID_CAT[:3] + ["1", 1j, None, 0, 0.0, False, -INF, INF, 1.0, True, 0.5, 5e-324, 1, 3]
BOUNDS_CAT = [(0, 1), (1, 0), (1.0, 0.0), (INF, -INF), (0.0, 1.0), (0.25, 0.75), (True, 0), (2, 0.5),
              (100.0005, 100.0), (1600005000.0, 1600000000.0), (math.nextafter(1.0, INF), 1.0), (1e-9 * (1 + 1e-6), 1e-9),
              (0.5 + 1e-12, 0.5), (1e12 * (1 + 1e-9), 1e12)]


def eps_invalid(e):
    if not is_real(e):
        return "epsilon", tag(e)
    if e != e:
        return "epsilon", "nan"
    if e < 0:
        return "epsilon", tag(e)
    if e == 0:
        return "epsilon+delta", "both-zero"
    return None


def bounds_invalid(b):
    lo, up = b
    if lo > up:
        return "bounds", "lower-above-upper"
    return None


def check_entries(ctx):
    BA = dp.BudgetAccountant
    lines, recs = [], []
    entries = [("tool", n, hb, f) for n, (hb, f) in tool_calls().items()] + \
              [("model", n, hb, f) for n, (hb, f) in model_calls().items()]
    try:
        BA(100.0, 0.0, spent_budget=[(0.5, 0.0)])
    except Exception as e:  # noqa
        ctx.disagree("entry.accountant", "BudgetAccountant(100.0, 0.0, spent_budget=[(0.5, 0.0)])", "ok",
                     f"raised {type(e).__name__}: {e}", note="a valid accountant cannot be constructed")
        return
    # invalid bounds crossed with every keyword that changes how bounds are INTERPRETED (dtype casts them, axis / keepdims
    # route them through the per-cell wrapper): inversions inside one integer cell, below one float32 / float16 ulp
    small_inv = [(0.9, 0.1), (0.9, -0.9), (5.7, 5.2), (7.9, 7.0), (1 + 1e-9, 1.0), (1.0004, 1.0), (2, 1), (3.5, 3.25),
                 (-0.1, -0.9), (1e-9, 0.0)]
    kw_variants = [{"dtype": int}, {"dtype": np.int32}, {"dtype": np.int64}, {"dtype": np.float32}, {"dtype": np.float16},
                   {"dtype": int, "axis": 0}, {"dtype": int, "keepdims": True}, {"dtype": np.int64, "axis": 1, "keepdims": True},
                   {"axis": (0, 1)}, {"dtype": float}]
    xi = (np.arange(60).reshape(30, 2) % 8) + 1
    for tname in ("sum", "nansum", "mean", "nanmean", "var", "nanvar", "std", "nanstd"):
        for kw in kw_variants:
            label = tname + "[" + ",".join(f"{k}={getattr(v, '__name__', v)}" for k, v in kw.items()) + "]"
            f_ = (lambda tn, kw_: lambda e, b, a: getattr(T, tn)(xi, epsilon=e, bounds=b, accountant=a, **kw_))(tname, kw)
            entries.append(("tool", label, True, f_, [(1.0, b) for b in small_inv]))
    # invalid parameters must be refused whatever the DATA looks like (empty, all-equal, a single record): a special-case
    # branch for degenerate data must not come before the validation
    degenerate = [("empty", np.array([])), ("empty-0x2", np.zeros((0, 2))), ("all-equal", np.full(40, 0.5)),
                  ("single", np.array([0.5]))]
    for dname, arr in degenerate:
        for tname in ("sum", "nansum", "mean", "nanmean", "var", "nanvar", "std", "nanstd", "median"):
            f_ = (lambda tn, a_: lambda e, b, a: getattr(T, tn)(a_, epsilon=e, bounds=b, accountant=a))(tname, arr)
            entries.append(("tool", f"{tname}[data={dname}]", True, f_,
                            [(e, (0, 1)) for e in (NAN, -1.0, -5e-324, "1", None, 0, 0.0)] +
                            [(1.0, b) for b in ((1, 0), (0.9, 0.1), (math.nextafter(1.0, INF), 1.0))]))
        f_ = (lambda a_: lambda e, b, a: T.quantile(a_, 0.5, epsilon=e, bounds=b, accountant=a))(arr)
        entries.append(("tool", f"quantile[data={dname}]", True, f_,
                        [(e, (0, 1)) for e in (NAN, -1.0, "1", 0)] + [(1.0, (1, 0))]))
        f_ = (lambda a_: lambda e, b, a: T.histogram(np.ravel(a_), epsilon=e, bins=3, range=(0, 1), accountant=a))(arr)
        entries.append(("tool", f"histogram[data={dname}]", False, f_, [(e, (0, 1)) for e in (NAN, -1.0, "1", 0)]))
    for ent in entries:
        group, name, has_bounds, f = ent[:4]
        if len(ent) > 4:
            cases = ent[4]
        else:
            cases = [(e, (0, 1)) for e in EPS_CAT]
            if has_bounds:
                cases += [(1.0, b) for b in BOUNDS_CAT] + [(NAN, (1, 0)), (-1.0, (2, 1))]
        for e, b in cases:
            acc = BA(100.0, 0.0, spent_budget=[(0.5, 0.0)])
            before = acc_state(acc)
            old_default = BA._default
            BA._default = None
            try:
                with seams.interpose() as calls:
                    kind, out = call_kind(f, e, b, acc)
                dflt = BA._default
            finally:
                BA._default = old_default
            after = acc_state(acc)
            n_calls = len(calls)
            inv = eps_invalid(e) or (bounds_invalid(b) if has_bounds else None)
            data = {"unit": group, "entry": name, "epsilon": enc(e), "bounds": enc(b)}
            ctx.case((name, enc(e), enc(b)) if kind != "ok" else None)
            if inv is not None:
                sig = f"C13:{name}:{inv[0]}:{inv[1]}"
                if kind not in ("typeError", "valueError", "budgetError"):
                    ctx.violation(sig + ":accepted", f"{name}(epsilon={enc(e)}, bounds={enc(b)}) with invalid {inv[0]} "
                                  f"({inv[1]}) -> {kind}" + (f", returned {str(out)[:60]}" if kind == "ok" else ""), data)
                if repr(before) != repr(after):
                    ctx.violation(sig + ":spend-recorded", f"{name}(epsilon={enc(e)}, bounds={enc(b)}) is invalid but the "
                                  f"accountant went from {before[:3]} to {after[:3]}", data)
                if dflt is not None and len(dflt) > 0:
                    ctx.violation(sig + ":spend-recorded", f"{name}(epsilon={enc(e)}, bounds={enc(b)}) is invalid but the "
                                  f"default accountant recorded {dflt.spent_budget}", data)
                if n_calls:
                    ctx.violation(sig + ":mechanism-invoked", f"{name}(epsilon={enc(e)}, bounds={enc(b)}) is invalid but "
                                  f"{n_calls} mechanism call(s) ran before the refusal ({calls[0].cls})", data)
            elif kind != "ok" and repr(before) != repr(after):
                ctx.violation(f"C13:{name}:refused-but-recorded", f"{name}(epsilon={enc(e)}, bounds={enc(b)}) raised {kind} "
                              f"but the accountant changed", data)
            # model: check_bounds (when the entry has bounds) then accountant.check(epsilon, 0); estimators check the
            # accountant first, so with an invalid epsilon AND invalid bounds the kinds may legitimately differ: the
            # model line for estimators puts the accountant first by omitting the bounds when epsilon is invalid
            use_bounds = has_bounds and not (group == "model" and eps_invalid(e))
            bl = f"{tok(b[0])} {tok(b[1])}" if use_bounds else "nobounds"
            lines.append(f"tool {ext_tok(100.0)} {ext_tok(0.0)} {bl} epsilon={tok(e)}")
            # the model's accountant has no prior spend; give it the same remaining budget question: 0.5 already spent
            recs.append((data, kind))
    outs = leanio.run_driver("Validation", lines)
    for (data, kind), model in zip(recs, outs):
        if model != kind:
            ctx.disagree("entry." + data["unit"], data, model, kind)
        else:
            ctx.trace_ok()



# ------------------------------------------------------------------------------------------------ per-feature bounds

AXIS_TOOLS = ("mean", "var", "std", "sum", "nanmean", "nanvar", "nanstd", "nansum", "median", "quantile", "percentile",
              "quantile[multi]", "percentile[multi]")
# data layouts whose result is 1-dimensional (one cell per feature, each with its own (lower, upper) pair)
AXIS_LAYOUTS = {"2d:axis=0": ((12, None), {"axis": 0}), "2d:axis=-2": ((12, None), {"axis": -2}),
                "2d:axis=1": ((None, 6), {"axis": 1}), "3d:axis=(0,2)": ((4, None, 3), {"axis": (0, 2)}),
                "3d:axis=(0,1)": ((3, 4, None), {"axis": (0, 1)})}
AXIS_ACCOUNTANTS = ("infinite", "infinite+spent", "finite", "finite-exact", "default")
INVERTED_PAIRS = [(5.0, -5.0), (1.0, 0.0), (0.9, 0.1), (1 + 1e-9, 1.0), (math.nextafter(0.5, INF), 0.5), (INF, -INF),
                  (1e12 * (1 + 1e-9), 1e12), (5e-324, 0.0), (0.0, -5e-324), (-0.1, -0.9)]


def axis_call(tool, layout, n_cells, lower, upper, eps, accountant):
    shape, kw = AXIS_LAYOUTS[layout]
    shape = tuple(n_cells if d is None else d for d in shape)
    x = ((np.arange(int(np.prod(shape))) * 0.37) % 1.0).reshape(shape)
    a = ()
    name = tool.split("[")[0]
    if name == "quantile":
        a = ([0.25, 0.75],) if "[multi]" in tool else (0.5,)
    elif name == "percentile":
        a = ([10, 90],) if "[multi]" in tool else (50,)
    return getattr(T, name)(x, *a, epsilon=eps, bounds=(np.array(lower, dtype=float), np.array(upper, dtype=float)),
                            accountant=accountant, **kw)


def make_axis_accountant(which, eps):
    BA = dp.BudgetAccountant
    if which == "infinite":
        return BA()
    if which == "infinite+spent":
        return BA(spent_budget=[(0.5, 0.0), (0.25, 0.0)])
    if which == "finite":
        return BA(100.0, 0.0, spent_budget=[(0.5, 0.0)])
    if which == "finite-exact":
        return BA(2 * eps, 0.0)
    return None                                                   # the default accountant (a fresh one is installed)


def run_axis_case(d):
    """-> (kind, n mechanism calls, first mechanism class, ledger before, ledger after)"""
    BA = dp.BudgetAccountant
    acc = make_axis_accountant(d["accountant"], d["epsilon"])
    old_default = BA._default
    BA._default = None
    try:
        watched = acc
        if acc is None:
            watched = BA()
            watched.set_default()
        before = acc_state(watched)
        with seams.interpose() as calls:
            kind, _ = call_kind(axis_call, d["tool"], d["layout"], d["n_cells"], d["lower"], d["upper"], d["epsilon"], acc)
        stray = BA._default if (acc is not None and BA._default is not None and len(BA._default) > 0) else None
        after = acc_state(watched)
        if stray is not None:
            after = after + (("a new default accountant was charged", tuple(stray.spent_budget)),)
    finally:
        BA._default = old_default
    return kind, len(calls), (calls[0].cls if calls else None), before, after


def axis_what(d):
    return (f"{d['tool']}(X{d['layout']}, epsilon={d['epsilon']}, bounds=({d['lower']}, {d['upper']}), accountant="
            f"<{d['accountant']}>) with {d['n_cells']} features, the invalid pair only at feature {d['bad_at']}")


def judge_axis(ctx, d, must_refuse):
    kind, n_calls, first, before, after = run_axis_case(d)
    refused = kind in ("typeError", "valueError", "budgetError")
    sig = f"C13:{d['tool']}:per-feature-bounds:{d['why']}"
    data = dict(d, unit="tool-axis")
    bad = False
    if must_refuse and not refused:
        ctx.violation(sig + ":accepted", f"{axis_what(d)} -> {kind}", data)
        bad = True
    if kind != "ok":
        if repr(before) != repr(after):
            ctx.violation(sig + ":spend-recorded", f"{axis_what(d)} raised {kind}, but the accountant went from "
                          f"{before[:2]} to {after[:2] + after[5:]}", data)
            bad = True
        if n_calls:
            ctx.violation(sig + ":mechanism-invoked", f"{axis_what(d)} raised {kind}, but {n_calls} mechanism call(s) "
                          f"ran before the refusal ({first})", data)
            bad = True
    return kind, bad


def check_axis_bounds(ctx):
    """per-feature ARRAY bounds that are invalid only at a feature index > 0: the whole query must be refused before any
    earlier feature is computed or charged (0 mechanism invocations, ledger unchanged)"""
    r = ctx.fork("axis-bounds")
    cases = []

    def case(tool, layout, n_cells, bad_at, pair, accountant, eps, why="lower-above-upper"):
        lower = [round(0.05 * i, 3) for i in range(n_cells)]
        upper = [1.0 + 0.5 * i for i in range(n_cells)]
        for j in ([bad_at] if isinstance(bad_at, int) else bad_at):
            lower[j], upper[j] = pair
        return {"tool": tool, "layout": layout, "n_cells": n_cells, "bad_at": bad_at, "lower": lower, "upper": upper,
                "accountant": accountant, "epsilon": eps, "why": why}
    # deterministic sweep: every tool x every layout x every accountant, the bad pair in the last feature
    for ti, tool in enumerate(AXIS_TOOLS):
        for li, layout in enumerate(AXIS_LAYOUTS):
            for ai, which in enumerate(AXIS_ACCOUNTANTS):
                n_cells = 2 + (ti + li + ai) % 4
                cases.append(case(tool, layout, n_cells, n_cells - 1, INVERTED_PAIRS[(ti + li + ai) % len(INVERTED_PAIRS)],
                                  which, 1.0))
    for _ in range(ctx.budget(300, 3000)):
        n_cells = r.randint(2, 6)
        bad = r.randint(1, n_cells - 1)
        if n_cells > 2 and r.chance(0.25):
            bad = sorted(set([bad, r.randint(1, n_cells - 1)]))
            bad = bad if len(bad) > 1 else bad[0]
        cases.append(case(r.choice(AXIS_TOOLS), r.choice(list(AXIS_LAYOUTS)), n_cells, bad, r.choice(INVERTED_PAIRS),
                          r.choice(AXIS_ACCOUNTANTS), r.choice([1.0, 0.5, 3, 0.1, 1e-3])))
    n_bad = 0
    for d in cases:
        kind, bad = judge_axis(ctx, d, must_refuse=True)
        ctx.case(("axis-bounds", d["tool"], d["layout"], d["n_cells"], str(d["bad_at"]), enc(d["lower"][-1]), d["accountant"]))
        n_bad += bad
        if not bad:
            ctx.trace_ok()
    ctx.count("per_feature_bounds_cases", len(cases))
    # controls: the same calls with valid bounds are accepted and charge exactly epsilon in total (the cases above are
    # refused because of the bad pair, not because of the layout)
    for ti, tool in enumerate(AXIS_TOOLS):
        for li, layout in enumerate(AXIS_LAYOUTS):
            d = case(tool, layout, 3, [], (0, 1), AXIS_ACCOUNTANTS[(ti + li) % 4], 1.0, why="valid")
            kind, n_calls, _, before, after = run_axis_case(d)
            if kind != "ok" or n_calls == 0 or abs((after[2] - before[2]) - 1.0) > 1e-9:
                ctx.disagree("entry.axis-bounds.control", d, "ok, charged 1.0", f"{kind}, {n_calls} calls, {before[:3]} -> {after[:3]}")
    # report-only: a NaN entry (not an inversion: `lower > upper` is False) in a later feature
    obs = {}
    for tool in AXIS_TOOLS:
        d = case(tool, "2d:axis=0", 4, 2, (NAN, 1.0), "infinite", 1.0, why="nan")
        kind, n_calls, _, before, after = run_axis_case(d)
        obs.setdefault(f"{kind}, {n_calls} mechanism call(s), {after[0] - before[0]} spend(s) recorded", []).append(tool)
    ctx.note("report-only: per-feature bounds with a NaN lower bound at feature 2 of 4 (axis=0): "
             + "; ".join(f"{k}: {', '.join(v)}" for k, v in obs.items()))


# ------------------------------------------------------------------------------------------------ report-only sweep

def notes_sweep(ctx):
    """NaN / odd values of parameters the property does NOT list: reported, never a violation"""
    obs = []

    def t(desc, f):
        k, out = call_kind(f)
        obs.append(f"{desc} -> {k}")
    t("Vector(alpha=nan)", lambda: M.Vector(epsilon=1, function_sensitivity=1, dimension=2, alpha=NAN))
    t("clip_to_norm(X, nan)", lambda: dp.validation.clip_to_norm(np.ones((2, 2)), NAN))
    t("LaplaceTruncated(lower=nan)", lambda: M.LaplaceTruncated(epsilon=1, sensitivity=1, lower=NAN, upper=1))
    t("check_bounds(('0','1'))", lambda: dp.validation.check_bounds(("0", "1")))
    t("check_bounds((0, 1j))", lambda: dp.validation.check_bounds((0, 1j)))
    t("check_bounds((0, None))", lambda: dp.validation.check_bounds((0, None)))
    t("mean(X, bounds=(0, None))", lambda: T.mean(_X, epsilon=1.0, bounds=(0, None), accountant=dp.BudgetAccountant()))
    t("PCA(data_norm=nan).fit", lambda: MD.PCA(n_components=1, epsilon=1.0, bounds=(0, 1), data_norm=NAN,
                                                accountant=dp.BudgetAccountant()).fit(_X))
    t("LogisticRegression(data_norm=nan).fit", lambda: MD.LogisticRegression(
        epsilon=1.0, data_norm=NAN, accountant=dp.BudgetAccountant()).fit(_X, _Y))
    # PCA(data_norm=-1): the noisy mean is computed (a mechanism runs, self.mean_ is set) before clip_to_norm refuses
    acc = dp.BudgetAccountant()
    p = MD.PCA(n_components=1, epsilon=1.0, bounds=(0, 1), data_norm=-1.0, accountant=acc)
    with seams.interpose() as calls:
        k, _ = call_kind(p.fit, _X)
    obs.append(f"PCA(data_norm=-1).fit -> {k}, mechanism calls before the refusal: {len(calls)}, spends recorded: {len(acc)}, "
               f"mean_ set: {hasattr(p, 'mean_')}")
    ctx.note("report-only (parameters outside the property's explicit list): " + "; ".join(obs))


def generate(ctx):
    from ..translate import chains
    info = chains.generate(os.environ.get("VERIF_REPO", "/repo"), leanio.LEAN)
    ctx.count("translator_chains", info["chains"])
    return {"build": ["DPL.Generated.C13Chains"], "obligations": info["obligations"]}


def check(ctx):
    with seams.fresh_default_accountant():
        for sub in (check_mechanisms, check_impostors, check_validation, check_accountant, check_entries, check_axis_bounds, notes_sweep):
            try:
                sub(ctx)
            except leanio.LeanError:
                raise
            except Exception as e:  # noqa - last resort: the per-case guards inside should have caught it
                import traceback
                ctx.disagree("c13." + sub.__name__, "sub-check aborted", "completes",
                             f"{type(e).__name__}: {str(e)[:200]} @ {traceback.format_exc()[-400:]}")


def replay(ctx, data):
    d = data["data"]
    sig = data.get("signature", "")
    if d.get("unit") == "mechanism":
        assign = {a: dec(v) for a, v in d["assign"].items()}
        if d["stage"] == "ctor":
            kind, _ = run_ctor(d["cls"], assign)
        elif d["stage"] == "seq":
            kind, _ = run_seq(d["cls"], assign)
        else:
            kind, _ = run_rand(d["cls"], assign)
        return kind not in ("typeError", "valueError")
    if d.get("unit") == "impostor":
        v = dec(d["value"])
        imp = dict(impostors_of(v))[d["impostor"]]
        cp = ctor_params(d["cls"])
        run_ctor(d["cls"], {d["param"]: v} if d["param"] in cp else {})
        run_rand(d["cls"], {d["param"]: v})
        kind = (run_ctor(d["cls"], {d["param"]: imp})[0] if d["stage"] == "ctor" else run_rand(d["cls"], {d["param"]: imp})[0])
        return kind not in ("typeError", "valueError")
    if d.get("unit") == "tool-axis":
        kind, n_calls, _, before, after = run_axis_case(d)
        if sig.endswith("mechanism-invoked"):
            return kind != "ok" and n_calls > 0
        if sig.endswith("recorded"):
            return kind != "ok" and repr(before) != repr(after)
        return kind not in ("typeError", "valueError", "budgetError")
    if d.get("unit") in ("tool", "model"):
        calls = dict(tool_calls())
        calls.update(model_calls())
        if d["entry"] in calls:
            f = calls[d["entry"]][1]
        else:       # keyword-crossed tool entry "sum[dtype=int,axis=0]"
            tn, rest = d["entry"].split("[", 1)
            if rest.startswith("data="):
                arr = {"empty": np.array([]), "empty-0x2": np.zeros((0, 2)), "all-equal": np.full(40, 0.5),
                       "single": np.array([0.5])}[rest[5:-1]]
                if tn == "quantile":
                    f0 = lambda e, b, a: T.quantile(arr, 0.5, epsilon=e, bounds=b, accountant=a)  # noqa: E731
                elif tn == "histogram":
                    f0 = lambda e, b, a: T.histogram(np.ravel(arr), epsilon=e, bins=3, range=(0, 1), accountant=a)  # noqa: E731
                else:
                    f0 = lambda e, b, a: getattr(T, tn)(arr, epsilon=e, bounds=b, accountant=a)  # noqa: E731
                rest = ""
            kw = {}
            for item in rest.rstrip("]").split(",", ):
                pass
            names = {"int": int, "int32": np.int32, "int64": np.int64, "float32": np.float32, "float16": np.float16,
                     "float": float, "True": True, "0": 0, "1": 1}
            import re as _re
            for k, v in _re.findall(r"(\w+)=(\(0, 1\)|\w+)", rest):
                kw[k] = (0, 1) if v == "(0, 1)" else names[v]
            xi = (np.arange(60).reshape(30, 2) % 8) + 1
            f = (lambda tn_, kw_: lambda e, b, a: getattr(T, tn_)(xi, epsilon=e, bounds=b, accountant=a, **kw_))(tn, kw)
            if d["entry"].split("[", 1)[1].startswith("data="):
                f = f0
        acc = dp.BudgetAccountant(100.0, 0.0, spent_budget=[(0.5, 0.0)])
        before = acc_state(acc)
        with seams.fresh_default_accountant():
            with seams.interpose() as mc:
                kind, _ = call_kind(f, dec(d["epsilon"]), dec(d["bounds"]), acc)
        if sig.endswith("mechanism-invoked"):
            return len(mc) > 0
        if sig.endswith("recorded"):
            return repr(before) != repr(acc_state(acc))
        return kind not in ("typeError", "valueError", "budgetError")
    fn = d.get("unit", "")
    args = [dec(a) for a in d.get("args", [])]
    V = dp.validation
    if fn == "check_epsilon_delta":
        return call_kind(V.check_epsilon_delta, *args)[0] == "ok"
    if fn == "Budget":
        return call_kind(dp.utils.Budget, *args)[0] == "ok"
    if fn == "check_bounds":
        return call_kind(V.check_bounds, tuple(args))[0] == "ok"
    if fn == "check_bounds[array]":
        return call_kind(V.check_bounds, (np.array(args[0]), np.array(args[1])), args[2])[0] == "ok"
    if fn == "clip_to_norm":
        return call_kind(V.clip_to_norm, np.ones((2, 2)), args[0])[0] == "ok"
    if fn == "BudgetAccountant":
        return call_kind(dp.BudgetAccountant, *args)[0] == "ok"
    if fn == "BudgetAccountant(spent_budget)":
        ce, cd, lst = args
        return call_kind(lambda: dp.BudgetAccountant(ce, cd, spent_budget=[tuple(x) for x in lst]))[0] == "ok"
    if fn in ("BudgetAccountant.check", "BudgetAccountant.spend"):
        ce, cd, n, e, dd = args
        a = dp.BudgetAccountant(ce, cd, spent_budget=[(0.25, 0.0)] * n if ce == 1.0 else [(0.5, 0.25)] * n)
        before = acc_state(a)
        k = call_kind(getattr(a, fn.split(".")[1]), e, dd)[0]
        if sig.endswith("recorded"):
            return k != "ok" and repr(before) != repr(acc_state(a))
        return k == "ok"
    if fn.startswith("BudgetAccountant.total(spent_budget)"):
        ce, cd, k, lst, slack = args
        a = dp.BudgetAccountant(ce, cd, spent_budget=[(0.25, 0.0625)] * k)
        kw = {} if slack is None else {"slack": slack}
        return call_kind(lambda: a.total(spent_budget=[tuple(x) for x in lst], **kw))[0] == "ok"
    if fn.startswith("BudgetAccountant.total(slack)"):
        ce, cd, k, sl = args
        a = dp.BudgetAccountant(ce, cd, spent_budget=[(0.25, 0.0625)] * k)
        return call_kind(lambda: a.total(slack=sl))[0] == "ok"
    if "[" in fn and fn.split("[")[0] in ("BudgetAccountant.check", "BudgetAccountant.spend"):
        ce, cd, k, e, dd = args
        a = dp.BudgetAccountant(ce, cd, spent_budget=[(0.25, 0.0625)] * k)
        return call_kind(getattr(a, fn.split("[")[0].split(".")[1]), e, dd)[0] == "ok"
    if fn == "BudgetAccountant.slack":
        a = dp.BudgetAccountant(1.0, 0.5)
        return call_kind(lambda v: setattr(a, "slack", v), args[0])[0] == "ok"
    if fn == "BudgetAccountant.remaining":
        return call_kind(dp.BudgetAccountant(1.0, 0.5).remaining, args[0])[0] == "ok"
    return False


# ------------------------------------------------------------------------------------------------ known findings
def _wit_nan_bound_later_feature(ctx):
    """a NaN per-feature bound at a later feature is accepted by check_bounds (`lower > upper` is False for NaN) and refused
    only when that cell is reached — after earlier cells were computed and charged"""
    import warnings as _w
    acc = dp.BudgetAccountant()
    X = np.random.RandomState(0).rand(10, 4)
    raised = None
    with _w.catch_warnings():
        _w.simplefilter("ignore")
        try:
            dp.tools.mean(X, epsilon=1.0, bounds=([0, 0, np.nan, 0], [1, 1, 1, 1]), axis=0, random_state=0, accountant=acc)
        except Exception as e:  # noqa
            raised = type(e).__name__
    spent = [(float(e), float(d)) for e, d in acc.spent_budget]
    return bool(raised and spent), (
        f"mean(X(10x4), epsilon=1.0, bounds=([0, 0, nan, 0], [1, 1, 1, 1]), axis=0) raised {raised} but the accountant recorded "
        f"{spent}: check_bounds accepts a NaN bound (`lower > upper` is False), the per-cell call for feature 2 refuses it after "
        f"features 0 and 1 were released-and-charged internally (the same for var, std, sum, quantile and their nan variants)")


WITNESSES = {"C13:tools:nan-bound-at-later-feature:partial-spend": _wit_nan_bound_later_feature}
