"""C11 — no silent leak: data-derived domain parameters always raise PrivacyLeakWarning, on every call
(DESIGN.md §6 C11).

The runtime matrix is executed in a FRESH interpreter that imports the library the way a user does
(VERIF_SHIM_PRISTINE_WARNINGS=1), because the point is to observe the warning filter the library installs itself at
import; the harness process imports the library inside `warnings.catch_warnings()`, which drops that filter again.
"""
import itertools
import json
import os
import subprocess
import sys

from ..shim import dp, np  # noqa: F401
from .. import leanio
from ..translate import guards

PROPERTY = "C11"
LEAN_MODULE = "DPL.Properties.C11"
TRUSTED = [
    "modelled, not verified: numpy's fallback inside np.histogram / np.histogramdd (a dimension whose bins are a count "
    "and whose range is missing takes (min, max) of the data) — stated by hand, validated on every run by comparing the "
    "returned bin edges for two datasets",
    "modelled, not verified: CPython's warnings machinery (filter actions once/default/always, registries); the run "
    "observes it in a fresh interpreter with the library's own filter",
    "the guard table the theorems are about is regenerated from /repo's AST on every run (harness/translate/guards.py: "
    "path conditions of fallback assignments and of the dominating warnings.warn(…, PrivacyLeakWarning) statements) and "
    "proved equal to the hand-written copy; the extractor itself is trusted",
    "only parameters exposed to the caller are domain parameters (GaussianNB / LogisticRegression take the label set "
    "from y without a `classes` parameter: not in the table); an estimator stores the derived value in self.<param>, "
    "so a SECOND fit of the SAME instance is silent and KEEPS the value derived (with a warning) by the first — the matrix "
    "uses a fresh instance per call; the two-call sequences check that a later call on the same instance either warns or "
    "ends with domain parameters and fitted state that do not depend on the range of its own batch",
]
UNPROVED = [
    "that the running code raises the warning on every call of the matrix is observed (exhaustively over the "
    "configuration space, datasets sampled), not proved; the theorems are about the extracted guard table and the "
    "three-action filter model",
]
RULE = ("exhaustive configuration matrix: 15 tools, 8 estimators, covariance_eig x every subset of omitted domain "
        "parameters (histogramdd/histogram2d: range None / list / tuple / object array x every subset of missing "
        "per-dimension entries x count/edges bins patterns, 2-D and 3-D) x call variants (axis, several quantiles, "
        "fit/partial_fit/fit_transform) x two consecutive calls in one fresh process under the library's own filter; "
        "datasets from the seed; a cell is non-trivial when some needed parameter is omitted; distinct by cell id; n_jobs >= 2 "
        "(joblib process back-end armed with the harness's worker shims) for every estimator that takes n_jobs, multi-class "
        "data; two-call sequences (fit/partial_fit/fit_transform/fit_predict pairs, warm start, growing forests) on ONE "
        "estimator built without each non-empty subset of its domain parameters, the second batch leaving the range of the "
        "first, run on two second batches that differ only in how far the extreme record (or which unseen label) lies outside")

VERIF = leanio.VERIF
PARAM_SIG = {"bounds": "bounds", "range": "range", "data_norm": "data_norm", "norm": "norm", "classes": "classes",
             "bounds_X": "bounds_X", "bounds_y": "bounds_y"}

# ------------------------------------------------------------------------------------------------ matrix

BOUNDS_TOOLS = ["mean", "nanmean", "var", "nanvar", "std", "nanstd", "sum", "nansum", "quantile", "percentile", "median"]


def subsets(xs):
    for k in range(len(xs) + 1):
        for c in itertools.combinations(xs, k):
            yield list(c)


def build_matrix():
    cells = []

    def add(entry, params, omit, needs, variant=None, flags=None, shapes=None):
        cells.append({"entry": entry, "params": params, "omit": omit, "needs": needs, "variant": variant or {},
                      "flags": flags or [], "shapes": shapes})

    add("count_nonzero", [], [], False)
    add("count_nonzero", [], [], False, {"axis": 0})
    for t in BOUNDS_TOOLS:
        for omit in ([], ["bounds"]):
            add(t, ["bounds"], omit, bool(omit))
            add(t, ["bounds"], omit, bool(omit), {"axis": 0})
            add(t, ["bounds"], omit, bool(omit), {"axis": 1, "keepdims": True})
        if t in ("quantile", "percentile"):
            for omit in ([], ["bounds"]):
                add(t, ["bounds"], omit, bool(omit), {"multi": True})
                add(t, ["bounds"], omit, bool(omit), {"multi": True, "axis": 0})
    for omit in ([], ["range"]):
        add("histogram", ["range"], omit, bool(omit))
        add("histogram", ["range"], omit, bool(omit), {"density": True})
    # histogramdd / histogram2d
    for entry, ndims in (("histogramdd", (2, 3)), ("histogram2d", (2,))):
        for nd in ndims:
            if nd == 2:
                bins_patterns = ["scalar", "cc", "ce", "ec", "ee"]
            else:
                bins_patterns = ["scalar", "cec", "eee"]
            for bp in bins_patterns:
                cnt = [True] * nd if bp == "scalar" else [ch == "c" for ch in bp]
                add(entry, ["range"], ["range"], any(cnt), {"nd": nd, "bins": bp, "form": "none", "missing": [True] * nd},
                    flags=[any(cnt)], shapes=["n"])
                for form in ("list", "tuple", "array"):
                    for miss in itertools.product([False, True], repeat=nd):
                        needs = any(c and m for c, m in zip(cnt, miss))
                        tok = ("l" if form == "list" else "t") + ("T" if any(miss) else "F")
                        add(entry, ["range"], ["range"] if any(miss) else [], needs,
                            {"nd": nd, "bins": bp, "form": form, "missing": list(miss)}, flags=[any(cnt)], shapes=[tok])
    for m, variants in (("GaussianNB", [{}, {"method": "partial_fit"}]), ("KMeans", [{}, {"method": "fit_predict"}]),
                        ("StandardScaler", [{}, {"method": "partial_fit"}, {"method": "fit_transform"}])):
        for v in variants:
            for omit in ([], ["bounds"]):
                add(m, ["bounds"], omit, bool(omit), v)
    for omit in subsets(["bounds_X", "bounds_y"]):
        add("LinearRegression", ["bounds_X", "bounds_y"], omit, bool(omit))
        add("LinearRegression", ["bounds_X", "bounds_y"], omit, bool(omit), {"fit_intercept": False})
    for omit in ([], ["data_norm"]):
        add("LogisticRegression", ["data_norm"], omit, bool(omit))
        add("LogisticRegression", ["data_norm"], omit, bool(omit), {"multiclass": True})
    for centered in (False, True):
        for omit in subsets(["bounds", "data_norm"]):
            needs = ("data_norm" in omit) or ("bounds" in omit and not centered)
            for v in ({}, {"method": "fit_transform"}):
                add("PCA", ["bounds", "data_norm"], omit, needs, dict(v, centered=centered), flags=[centered])
    for m in ("RandomForestClassifier", "DecisionTreeClassifier"):
        for omit in subsets(["bounds", "classes"]):
            add(m, ["bounds", "classes"], omit, bool(omit))
    for omit in ([], ["norm"]):
        add("covariance_eig", ["norm"], omit, bool(omit))
        add("covariance_eig", ["norm"], omit, bool(omit), {"eigvals_only": True})
    # ---- argument TYPES (numpy ints / floats / bools where Python ones are usual) and every public keyword that gates
    # validation or changes the path through fit / the tool (check_input, sample_weight=None, copy, warm_start, n_jobs …)
    for t in BOUNDS_TOOLS:
        # (axis=np.int64(0) and keepdims=np.bool_(True) are refused with a TypeError by the library / numpy: no release)
        kws = [{"axis": "tuple:0"}, {"keepdims": True}, {"epsilon": "np.float64:1.0"}]
        if t not in ("quantile", "percentile", "median"):
            kws += [{"dtype": "type:float"}, {"dtype": "type:np.float32"}]
        for kw in kws:
            for omit in ([], ["bounds"]):
                add(t, ["bounds"], omit, bool(omit), {"kw": kw})
    for bt in ("np.int64:4", "np.int32:5", "np.uint8:3", "astype:4", "str:sqrt", "edges"):
        for omit in ([], ["range"]):
            # with explicit edges numpy ignores `range`; a count (of ANY integer type) or a rule name takes it from the data
            add("histogram", ["range"], omit, bool(omit) and bt != "edges", {"bins_t": bt})
            add("histogram", ["range"], omit, bool(omit) and bt != "edges", {"bins_t": bt, "kw": {"weights": None, "density": False}})
            if bt.startswith("str:") and not omit:
                # a rule name makes numpy choose the NUMBER of bins from the data's spread even inside a given range: the
                # caller asked for it explicitly and the property's list (bounds, range, norm, classes) does not name it
                cells[-1]["note_only"] = cells[-2]["note_only"] = "bins=<rule name> with range given: bin count is data-derived"
    for entry in ("histogramdd", "histogram2d"):
        for bp in ("nscalar", "nn", "nc", "ne"):
            cnt = [True, True] if bp in ("nscalar", "nn", "nc") else [True, False]
            add(entry, ["range"], ["range"], True, {"nd": 2, "bins": bp, "form": "none", "missing": [True, True]},
                flags=[True], shapes=["n"])
            for form in ("list", "tuple"):
                for miss in itertools.product([False, True], repeat=2):
                    needs = any(c and m for c, m in zip(cnt, miss))
                    tok = ("l" if form == "list" else "t") + ("T" if any(miss) else "F")
                    add(entry, ["range"], ["range"] if any(miss) else [], needs,
                        {"nd": 2, "bins": bp, "form": form, "missing": list(miss)}, flags=[True], shapes=[tok])
    # degenerate DATA (all-zero, all-equal, a single record, two records, one class, data on the corners of the domain)
    # for every entry with an omitted domain parameter: the warning must be recorded; a call that cannot work on such
    # data must at least refuse it (HEAD: covariance_eig of an all-zero array warns, then raises LinAlgError)
    plain = [(t, ["bounds"]) for t in BOUNDS_TOOLS] + [("histogram", ["range"]), ("GaussianNB", ["bounds"]),
             ("KMeans", ["bounds"]), ("StandardScaler", ["bounds"]), ("LinearRegression", ["bounds_X", "bounds_y"]),
             ("LogisticRegression", ["data_norm"]), ("RandomForestClassifier", ["bounds", "classes"]),
             ("DecisionTreeClassifier", ["bounds", "classes"]), ("covariance_eig", ["norm"])]
    for deg in ("zeros", "equal", "single", "two", "oneclass", "corners"):
        for entry, params in plain:
            for omit in subsets(params):
                if omit:
                    add(entry, params, omit, True, {"data": deg})
        for omit in subsets(["bounds", "data_norm"]):
            if omit:
                add("PCA", ["bounds", "data_norm"], omit, True, {"data": deg, "centered": False}, flags=[False])
        for v in ({"eigvals_only": True}, {"kw": {"dims": 1}}):
            add("covariance_eig", ["norm"], ["norm"], True, dict(v, data=deg))
        for entry in ("histogramdd", "histogram2d"):
            add(entry, ["range"], ["range"], True, {"nd": 2, "bins": "scalar", "form": "none", "missing": [True, True],
                                                    "data": deg}, flags=[True], shapes=["n"])
    # size-dependent paths: big grids / many cells
    for entry in ("histogramdd", "histogram2d"):
        add(entry, ["range"], ["range"], True, {"nd": 2, "bins": "bigscalar", "form": "none", "missing": [True, True]},
            flags=[True], shapes=["n"])
        for form in ("list", "tuple"):
            for miss in ((False, True), (False, False)):
                add(entry, ["range"], ["range"] if any(miss) else [], any(miss),
                    {"nd": 2, "bins": "bigscalar", "form": form, "missing": list(miss)}, flags=[True],
                    shapes=[("l" if form == "list" else "t") + ("T" if any(miss) else "F")])
    for omit in ([], ["range"]):
        add("histogram", ["range"], omit, bool(omit), {"bins_t": "np.int64:32768"})
    for t in ("mean", "nansum", "var", "median"):
        for omit in ([], ["bounds"]):
            add(t, ["bounds"], omit, bool(omit), {"wide": 512, "axis": 0})
    model_variants = {
        "GaussianNB": [{"fit": {"sample_weight": None}}, {"ctor": {"var_smoothing": "np.float64:1e-9"}},
                       {"ctor": {"priors": [0.3, 0.3, 0.4]}}, {"ctor": {"epsilon": "np.float64:1.0"}}],
        "KMeans": [{"ctor": {"n_clusters": "np.int64:2"}}, {"fit": {"y": None, "sample_weight": None}},
                   {"ctor": {"epsilon": "np.float64:5.0"}}],
        "StandardScaler": [{"ctor": {"copy": False}}, {"ctor": {"with_mean": False}}, {"ctor": {"with_std": False}},
                           {"ctor": {"with_mean": False, "with_std": False}}, {"ctor": {"copy": "np.bool_:0"}},
                           {"fit": {"y": None, "sample_weight": None}}],
        "LogisticRegression": [{"ctor": {"C": "np.float64:1.0", "max_iter": "np.int64:20"}}, {"ctor": {"warm_start": True}},
                               {"ctor": {"fit_intercept": False}}, {"fit": {"sample_weight": None}}, {"ctor": {"n_jobs": 1}}],
        "RandomForestClassifier": [{"ctor": {"n_estimators": "np.int64:2", "max_depth": "np.int64:2"}},
                                   {"ctor": {"shuffle": True}}, {"ctor": {"warm_start": True}}, {"ctor": {"n_jobs": 2}},
                                   {"fit": {"sample_weight": None}}],
        "DecisionTreeClassifier": [{"ctor": {"max_depth": "np.int64:2"}}, {"fit": {"check_input": False}},
                                   {"fit": {"check_input": "np.bool_:0"}}, {"fit": {"sample_weight": None, "check_input": True}}],
    }
    # n_jobs >= 2: every estimator that accepts n_jobs, multi-class data (more than one joblib task).  LogisticRegression
    # asks joblib for its PROCESS back-end: a warning raised inside a task never reaches the caller's process, so the
    # fallback + warning must happen before the parallel section (worker processes are armed by _arm_workers)
    model_variants["LogisticRegression"] += [{"ctor": {"n_jobs": 2}, "multiclass": True},
                                             {"ctor": {"n_jobs": "np.int64:2"}, "multiclass": True},
                                             {"ctor": {"n_jobs": 3, "warm_start": True}, "multiclass": True},
                                             {"ctor": {"n_jobs": 2, "fit_intercept": False}, "multiclass": True},
                                             {"ctor": {"n_jobs": -1}, "multiclass": True}]
    model_variants["RandomForestClassifier"] += [{"ctor": {"n_jobs": 2, "n_estimators": 4}},
                                                 {"ctor": {"n_jobs": -1, "n_estimators": 3, "warm_start": True}}]
    for m, vs in model_variants.items():
        params = {"LogisticRegression": ["data_norm"], "RandomForestClassifier": ["bounds", "classes"],
                  "DecisionTreeClassifier": ["bounds", "classes"]}.get(m, ["bounds"])
        for v in vs:
            for omit in subsets(params):
                add(m, params, omit, bool(omit), v)
    for v in ({"ctor": {"copy_X": False}}, {"fit": {"sample_weight": None}}, {"ctor": {"fit_intercept": "np.bool_:1"}}):
        for omit in subsets(["bounds_X", "bounds_y"]):
            add("LinearRegression", ["bounds_X", "bounds_y"], omit, bool(omit), v)
    for v in ({"ctor": {"n_components": "np.int64:2"}}, {"ctor": {"n_components": None}}, {"ctor": {"n_components": 0.9}},
              {"ctor": {"whiten": True}}, {"ctor": {"copy": False}}, {"fit": {"y": None}}):
        for centered in (False, True):
            for omit in subsets(["bounds", "data_norm"]):
                needs = ("data_norm" in omit) or ("bounds" in omit and not centered)
                add("PCA", ["bounds", "data_norm"], omit, needs, dict(v, centered=centered), flags=[centered])
    for v in ({"kw": {"dims": "np.int64:2"}}, {"kw": {"dims": 1}}, {"kw": {"epsilon": "np.float64:2.0"}}):
        for omit in ([], ["norm"]):
            add("covariance_eig", ["norm"], omit, bool(omit), v)
    for i, c in enumerate(cells):
        c["id"] = i
    return cells


def cell_key(c):
    return f"{c['entry']}|omit={','.join(c['omit'])}|{json.dumps(c['variant'], sort_keys=True)}"


def model_line(c):
    shapes = c["shapes"] if c["shapes"] is not None else [("n" if p in c["omit"] else "g") for p in c["params"]]
    return "q " + c["entry"] + " " + " ".join(shapes) + " | " + " ".join("1" if f else "0" for f in c["flags"])


def signature(c, second):
    if c["entry"] in ("histogramdd", "histogram2d"):
        p = f"range[{c['variant']['form']}]"
    else:
        p = "+".join(c["omit"]) or "-"
    return f"C11:{c['entry']}:{p}:" + ("second-call-silent" if second else "silent")


# ------------------------------------------------------------------------------------------------ worker side

def _dataset(seed, c):
    rs = np.random.RandomState(seed % (2 ** 32))
    nd = c["variant"].get("nd", 2 if c["entry"] != "PCA" else 3)
    n = 40 + int(rs.randint(0, 30))
    X = rs.uniform(-1, 1, (n, nd)) / np.sqrt(nd)
    y = np.arange(n) % 3
    rs.shuffle(y)
    deg = c["variant"].get("data")
    if deg == "zeros":
        X = np.zeros_like(X)
    elif deg == "equal":
        X = np.full_like(X, 0.25)
    elif deg == "single":
        X, y = X[:1], y[:1]
    elif deg == "two":
        X, y = X[:2], np.array([0, 1])
    elif deg == "oneclass":
        y = np.zeros_like(y)
    elif deg == "corners":
        X = np.sign(X) / np.sqrt(nd)
    return X, y


def _dv(v):
    """decode a typed argument of the matrix ("np.int64:4", "tuple:0", "type:float", …)"""
    if not isinstance(v, str) or ":" not in v:
        return v
    t, x = v.split(":", 1)
    if t.startswith("np."):
        return getattr(np, t[3:])(float(x) if "float" in t else int(x))
    if t == "astype":
        return np.array([float(x)]).astype(int)[0]
    if t == "tuple":
        return (int(x),)
    if t == "type":
        return {"float": float, "np.float32": np.float32, "int": int}[x]
    if t == "str":
        return x
    return v


def _dkw(d):
    return {k: _dv(v) for k, v in (d or {}).items()}


def _make_call(c, X, y):
    """returns a zero-argument callable performing the call described by the cell (fresh estimator / accountant)"""
    import diffprivlib as d
    e, v, omit = c["entry"], c["variant"], c["omit"]
    T, M = d.tools, d.models
    acc = lambda: d.BudgetAccountant()  # noqa: E731
    xkw, ckw, fkw = _dkw(v.get("kw")), _dkw(v.get("ctor")), _dkw(v.get("fit"))
    if e == "count_nonzero":
        return lambda: T.count_nonzero(X > 0, accountant=acc(), **dict({"epsilon": 1.0}, **{k: v[k] for k in ("axis",) if k in v}))
    if e in BOUNDS_TOOLS:
        kw = {"epsilon": 1.0}
        if "bounds" not in omit:
            kw["bounds"] = (-1.0, 1.0)
        for k in ("axis", "keepdims"):
            if k in v:
                kw[k] = v[k]
        kw.update(xkw)
        if v.get("wide"):
            X = np.tile(X, (1, v["wide"] // X.shape[1] + 1))[:, :v["wide"]]
        f = getattr(T, e)
        if e == "quantile":
            return lambda: f(X, [0.2, 0.8] if v.get("multi") else 0.3, accountant=acc(), **kw)
        if e == "percentile":
            return lambda: f(X, [20, 80] if v.get("multi") else 30, accountant=acc(), **kw)
        return lambda: f(X, accountant=acc(), **kw)
    if e == "histogram":
        kw = {"epsilon": 1.0}
        if "range" not in omit:
            kw["range"] = (-1.0, 1.0)
        if v.get("density"):
            kw["density"] = True
        bt = v.get("bins_t")
        bins = 4 if bt is None else (np.linspace(-1.0, 1.0, 5) if bt == "edges" else _dv(bt))
        kw.update(xkw)
        return lambda: T.histogram(X[:, 0], bins=bins, accountant=acc(), **kw)
    if e in ("histogramdd", "histogram2d"):
        nd = v["nd"]
        edges = np.linspace(-1.0, 1.0, 4)
        one = {"c": 3, "e": edges, "n": np.int64(3)}
        bins = 3 if v["bins"] == "scalar" else (np.int64(3) if v["bins"] == "nscalar" else
                                                (130 if v["bins"] == "bigscalar" else [one[ch] for ch in v["bins"]]))
        if v["form"] == "none":
            rng = None
        else:
            ent = [None if m else (-1.0, 1.0) for m in v["missing"]]
            if v["form"] == "list":
                rng = ent
            elif v["form"] == "tuple":
                rng = tuple(ent)
            else:
                rng = np.empty(nd, dtype=object)
                for i, x in enumerate(ent):
                    rng[i] = x
        if e == "histogramdd":
            return lambda: T.histogramdd(X, epsilon=1.0, bins=bins, range=rng, accountant=acc())
        return lambda: T.histogram2d(X[:, 0], X[:, 1], epsilon=1.0, bins=bins, range=rng, accountant=acc())
    nd = X.shape[1]
    b = (-np.ones(nd), np.ones(nd))
    meth = v.get("method", "fit")

    def ctor(cls, **base):
        base.update(ckw)
        return lambda: cls(accountant=acc(), **base)
    if e == "GaussianNB":
        k = {} if "bounds" in omit else {"bounds": b}
        mk = ctor(M.GaussianNB, epsilon=1.0, **k)
        if meth == "partial_fit":
            return lambda: mk().partial_fit(X, y, classes=[0, 1, 2], **fkw)
        return lambda: mk().fit(X, y, **fkw)
    if e == "KMeans":
        k = {} if "bounds" in omit else {"bounds": b}
        mk = ctor(M.KMeans, n_clusters=2, epsilon=5.0, **k)
        return lambda: getattr(mk(), meth)(X, **fkw)
    if e == "StandardScaler":
        k = {} if "bounds" in omit else {"bounds": b}
        mk = ctor(M.StandardScaler, epsilon=1.0, **k)
        return lambda: getattr(mk(), meth)(X.copy(), **fkw)
    if e == "LinearRegression":
        k = {}
        if "bounds_X" not in omit:
            k["bounds_X"] = b
        if "bounds_y" not in omit:
            k["bounds_y"] = (-1.0, 1.0)
        yr = np.clip(X.sum(axis=1), -1, 1)
        mk = ctor(M.LinearRegression, epsilon=2.0, fit_intercept=v.get("fit_intercept", True), **k)
        return lambda: mk().fit(X.copy(), yr, **fkw)
    if e == "LogisticRegression":
        k = {} if "data_norm" in omit else {"data_norm": 1.5}
        yy = y if v.get("multiclass") else (y > 0).astype(int)
        mk = ctor(M.LogisticRegression, epsilon=2.0, max_iter=20, **k)
        return lambda: mk().fit(X, yy, **fkw)
    if e == "PCA":
        k = {}
        if "bounds" not in omit:
            k["bounds"] = b
        if "data_norm" not in omit:
            k["data_norm"] = 2.5
        mk = ctor(M.PCA, n_components=2, epsilon=2.0, centered=v["centered"], **k)
        return lambda: getattr(mk(), meth)(X.copy(), **fkw)
    if e in ("RandomForestClassifier", "DecisionTreeClassifier"):
        k = {}
        if "bounds" not in omit:
            k["bounds"] = b
        if "classes" not in omit:
            k["classes"] = [0, 1, 2]
        if e == "RandomForestClassifier":
            mk = ctor(M.RandomForestClassifier, n_estimators=2, epsilon=2.0, max_depth=2, **k)
        else:
            mk = ctor(M.DecisionTreeClassifier, epsilon=2.0, max_depth=2, **k)
        return lambda: mk().fit(X, y, **fkw)
    if e == "covariance_eig":
        k = {} if "norm" in omit else {"norm": 1.5}
        k.update(xkw)
        from diffprivlib.models.utils import covariance_eig
        return lambda: covariance_eig(X, **dict({"epsilon": 2.0, "eigvals_only": v.get("eigvals_only", False)}, **k))
    raise KeyError(e)


def _edges_of(result, entry):
    if entry == "histogram":
        return [np.asarray(result[1]).tolist()]
    if entry == "histogramdd":
        return [np.asarray(x).tolist() for x in result[1]]
    return [np.asarray(result[1]).tolist(), np.asarray(result[2]).tolist()]


DOMAIN_ATTRS = ("classes_", "n_classes_", "classes", "bounds", "bounds_X", "bounds_y", "data_norm")


def _domain_attrs(c, result):
    """the domain quantities a call ends up using, canonical and comparable"""
    e = c["entry"]
    if e in ("histogram", "histogramdd", "histogram2d"):
        return {"edges": _edges_of(result, e)}
    est = result
    out = {}
    has_classes = "classes" in c["params"]
    for a in DOMAIN_ATTRS:
        if a in ("classes_", "n_classes_", "classes") and not has_classes:
            continue            # the label set of estimators WITHOUT a `classes` parameter is taken from y by design
        if hasattr(est, a):
            v = getattr(est, a)
            try:
                out[a] = [np.asarray(x, dtype=float).tolist() for x in v] if isinstance(v, tuple) else np.asarray(v, dtype=float).tolist()
            except Exception:  # noqa
                out[a] = repr(v)
    if has_classes and hasattr(est, "estimators_"):
        out["trees.classes_"] = [np.asarray(t.classes_, dtype=float).tolist() for t in est.estimators_]
    return out


def _domain_probe(c, X, y, PLW):
    import warnings
    res = {"differs": [], "plw": None, "err": None}
    try:
        with warnings.catch_warnings():
            warnings.simplefilter("ignore")
            a1 = _domain_attrs(c, _make_call(c, X, y)())
        X2, y2 = X.copy(), y.copy()
        X2[0] = 5.0                      # outside the supplied bounds / range, norm above the supplied data_norm
        y2[0] = 7                        # a label outside the supplied classes
        with warnings.catch_warnings(record=True) as w:
            warnings.simplefilter("always")
            try:
                r2 = _make_call(c, X2, y2)()
            except Exception as ex:  # noqa - refusing data outside the declared domain is fine
                res["err"] = f"{type(ex).__name__}:{str(ex)[:100]}"
                return res
            res["plw"] = len([x for x in w if issubclass(x.category, PLW)])
        a2 = _domain_attrs(c, r2)
        res["differs"] = sorted(k for k in set(a1) | set(a2) if a1.get(k) != a2.get(k))
        res["values"] = {k: [str(a1.get(k))[:80], str(a2.get(k))[:80]] for k in res["differs"]}
    except Exception as ex:  # noqa
        res["err"] = f"probe:{type(ex).__name__}:{str(ex)[:100]}"
    return res


# ------------------------------------------------------------------------------------------------ call sequences

def build_sequences():
    """two-call sequences on ONE estimator object built WITHOUT (some of) its domain parameters: call 1 derives them from
    batch 1 (and warns: that is the matrix above); call 2 gets a batch that leaves the range of batch 1"""
    seqs = []

    def add(entry, params, omit, first, second, ctor=None, vary="x", **extra):
        seqs.append(dict({"entry": entry, "params": params, "omit": omit, "first": first, "second": second,
                          "ctor": ctor or {}, "vary": vary}, **extra))

    for a, b in (("partial_fit", "partial_fit"), ("partial_fit", "fit"), ("fit", "fit"), ("fit", "partial_fit")):
        add("GaussianNB", ["bounds"], ["bounds"], a, b)
    add("GaussianNB", ["bounds"], ["bounds"], "partial_fit", "partial_fit", thirds=True)
    for a, b in (("fit", "fit"), ("partial_fit", "partial_fit"), ("fit", "partial_fit"), ("partial_fit", "fit"),
                 ("fit", "fit_transform")):
        add("StandardScaler", ["bounds"], ["bounds"], a, b)
    add("StandardScaler", ["bounds"], ["bounds"], "partial_fit", "partial_fit", thirds=True)
    for b in ("fit", "fit_predict"):
        add("KMeans", ["bounds"], ["bounds"], "fit", b)
    for omit in subsets(["bounds_X", "bounds_y"]):
        if omit:
            add("LinearRegression", ["bounds_X", "bounds_y"], omit, "fit", "fit")
            add("LinearRegression", ["bounds_X", "bounds_y"], omit, "fit", "fit", {"fit_intercept": False})
    for ck in ({}, {"warm_start": True}, {"fit_intercept": False}):
        add("LogisticRegression", ["data_norm"], ["data_norm"], "fit", "fit", ck)
    for centered in (False, True):
        for omit in subsets(["bounds", "data_norm"]):
            if ("data_norm" in omit) or ("bounds" in omit and not centered):
                for b in ("fit", "fit_transform"):
                    add("PCA", ["bounds", "data_norm"], omit, "fit", b, {"centered": centered})
    for omit in subsets(["bounds", "classes"]):
        if omit:
            for vary in (["x"] if "classes" not in omit else ["x", "label"]):
                add("RandomForestClassifier", ["bounds", "classes"], omit, "fit", "fit", vary=vary)
                add("RandomForestClassifier", ["bounds", "classes"], omit, "fit", "fit", {"warm_start": True}, vary=vary, grow=2)
                add("RandomForestClassifier", ["bounds", "classes"], omit, "fit", "fit", {"n_jobs": 2}, vary=vary)
                add("DecisionTreeClassifier", ["bounds", "classes"], omit, "fit", "fit", vary=vary)
    for i, q in enumerate(seqs):
        q["sid"] = i
    return seqs


def seq_key(q):
    return (f"seq:{q['entry']}|omit={','.join(q['omit'])}|{q['first']}>{q['second']}|{json.dumps(q['ctor'], sort_keys=True)}"
            f"|vary={q['vary']}" + ("|x3" if q.get("thirds") else "") + (f"|grow={q['grow']}" if q.get("grow") else ""))


def seq_signature(q, what):
    return f"C11:{q['entry']}:{'+'.join(q['omit'])}:{q['first']}>{q['second']}:later-call-{what}-silent"


def _seq_data(seed, q):
    """batch 1 inside [-1,1]^d / sqrt(d); batch 2 = a fresh batch of the same kind whose record 0 is an extreme e far outside
    the range (and the norm) of batch 1 — variant A: e, variant B: 2e (same direction, so that clipping to a STORED box
    or norm maps both to bit-identical data); vary = "label": record 0 of batch 2 carries a label unseen in batch 1"""
    rs = np.random.RandomState((seed + 104729 * q["sid"]) % (2 ** 32))
    nd = 3 if q["entry"] == "PCA" else 2
    n = 40 + int(rs.randint(0, 30))
    X1 = rs.uniform(-1, 1, (n, nd)) / np.sqrt(nd)
    X2 = rs.uniform(-1, 1, (n, nd)) / np.sqrt(nd)
    y1 = np.arange(n) % 3
    y2 = np.arange(n) % 3
    rs.shuffle(y1)
    rs.shuffle(y2)
    e = rs.choice([-1.0, 1.0], nd) * np.round(rs.uniform(3, 8, nd), 3)
    XA, XB, yA, yB = X2.copy(), X2.copy(), y2.copy(), y2.copy()
    if q["vary"] == "x":
        XA[0], XB[0] = e, 2 * e
    else:
        yA[0], yB[0] = 7, 9
    yr1 = np.clip(X1.sum(axis=1), -1, 1)
    yr2 = np.clip(X2.sum(axis=1), -1, 1)
    yrA, yrB = yr2.copy(), yr2.copy()
    if q["vary"] == "x" and q["entry"] == "LinearRegression":
        yrA[0], yrB[0] = 5.0 * np.sign(e[0]), 10.0 * np.sign(e[0])       # the target leaves its range too
    return {"X1": X1, "y1": y1, "yr1": yr1, "A": (XA, yA, yrA), "B": (XB, yB, yrB), "extreme": e.tolist()}


def _seq_fitted(q, est, grid):
    """fitted state, canonical: every numeric attribute ending in '_', plus the predictions on a fixed grid"""
    out = {}
    # PCA(centered=False) clips (x - mean_) to data_norm: the extreme records e and 2e, identical after clipping to a stored
    # BOX, are no longer parallel after the shift, so only mean_ (computed inside the stored bounds) is comparable there
    only_mean = q["entry"] == "PCA" and not q["ctor"].get("centered")
    for k, v in sorted(vars(est).items()):
        if not k.endswith("_") or k.startswith("_") or k in ("estimators_", "tree_", "estimator_"):
            continue
        if only_mean and k != "mean_":
            continue
        try:
            out[k] = np.asarray(v, dtype=float).tolist()
        except Exception:  # noqa
            pass
    for m in ("predict_proba", "predict", "transform"):
        if hasattr(est, m) and not only_mean:
            try:
                out["@" + m] = np.asarray(getattr(est, m)(grid.copy()), dtype=float).tolist()
            except Exception as ex:  # noqa
                out["@" + m] = f"{type(ex).__name__}"
    return out


def _differs(a, b):
    try:
        x, y = np.asarray(a, dtype=float), np.asarray(b, dtype=float)
        if x.shape != y.shape:
            return True
        return not bool(np.allclose(x, y, rtol=1e-9, atol=1e-12, equal_nan=True))
    except Exception:  # noqa
        return a != b


def _run_sequence(q, seed, PLW):
    import warnings
    import diffprivlib as d
    cls = getattr(d.models, q["entry"])
    D = _seq_data(seed, q)
    nd = D["X1"].shape[1]
    b = (-np.ones(nd), np.ones(nd))
    supplied = {"bounds": b, "bounds_X": b, "bounds_y": (-1.0, 1.0), "data_norm": 1.5 if q["entry"] != "PCA" else 2.5,
                "classes": [0, 1, 2]}
    base = {"GaussianNB": {"epsilon": 1.0}, "StandardScaler": {"epsilon": 1.0}, "KMeans": {"n_clusters": 2, "epsilon": 5.0},
            "LinearRegression": {"epsilon": 2.0}, "LogisticRegression": {"epsilon": 2.0, "max_iter": 20},
            "PCA": {"n_components": 2, "epsilon": 2.0},
            "RandomForestClassifier": {"n_estimators": 2, "epsilon": 2.0, "max_depth": 2},
            "DecisionTreeClassifier": {"epsilon": 2.0, "max_depth": 2}}[q["entry"]]
    kw = dict(base, **_dkw(q["ctor"]))
    for p_ in q["params"]:
        if p_ not in q["omit"]:
            kw[p_] = supplied[p_]
    grid = np.array(list(itertools.product([-0.6, 0.0, 0.5], repeat=nd)))

    def one(est, meth, X, y, yr, first):
        if q["entry"] == "LinearRegression":
            return getattr(est, meth)(X.copy(), yr)
        if q["entry"] in ("KMeans", "StandardScaler", "PCA"):
            return getattr(est, meth)(X.copy())
        if q["entry"] == "GaussianNB" and meth == "partial_fit" and first:
            return est.partial_fit(X, y, classes=[0, 1, 2])
        return getattr(est, meth)(X, y)

    rec = {"sid": q["sid"], "seed": seed, "extreme": D["extreme"], "runs": {}, "err": None}
    for tag in ("A", "B"):
        X2, y2, yr2 = D[tag]
        est = cls(accountant=d.BudgetAccountant(), random_state=0, **kw)
        run = {"n": [], "err": [None, None]}
        with warnings.catch_warnings(record=True) as w:       # filters untouched: the library's own `always`
            cnt = lambda: len([x for x in w if issubclass(x.category, PLW)])  # noqa: E731
            try:
                one(est, q["first"], D["X1"], D["y1"], D["yr1"], True)
            except Exception as ex:  # noqa
                run["err"][0] = f"{type(ex).__name__}:{str(ex)[:120]}"
            run["n"].append(cnt())
            dom1 = _domain_attrs(q, est)
            if q.get("grow"):
                est.n_estimators = est.n_estimators + q["grow"]
            try:
                one(est, q["second"], X2, y2, yr2, False)
                if q.get("thirds"):                          # a THIRD call, wider still: the property is per call
                    one(est, q["second"], X2 * 1.5, y2, yr2, False)
            except Exception as ex:  # noqa
                run["err"][1] = f"{type(ex).__name__}:{str(ex)[:120]}"
            run["n"].append(cnt() - run["n"][0])
        run["dom1"], run["dom"] = dom1, _domain_attrs(q, est)
        run["fitted"] = _seq_fitted(q, est, grid) if not run["err"][1] else {}
        rec["runs"][tag] = run
    A, B = rec["runs"]["A"], rec["runs"]["B"]
    rec["n"] = {"A": A["n"], "B": B["n"]}
    rec["errs"] = {"A": A["err"], "B": B["err"]}
    rec["dom_differs"] = sorted(k for k in set(A["dom"]) | set(B["dom"]) if _differs(A["dom"].get(k), B["dom"].get(k)))
    rec["fit_differs"] = sorted(k for k in set(A["fitted"]) | set(B["fitted"]) if _differs(A["fitted"].get(k), B["fitted"].get(k)))
    rec["dom_changed"] = sorted(k for k in set(A["dom"]) | set(A["dom1"]) if _differs(A["dom"].get(k), A["dom1"].get(k)))
    rec["values"] = {k: [str(A["dom"].get(k))[:90], str(B["dom"].get(k))[:90]] for k in rec["dom_differs"]}
    rec["values"].update({k: [str(A["fitted"].get(k))[:90], str(B["fitted"].get(k))[:90]] for k in rec["fit_differs"][:2]})
    del rec["runs"]
    return rec


def worker_main():
    """runs in a fresh interpreter; stdin: {"cells": [...], "seeds": [...]}; stdout: one JSON line per (cell, seed)"""
    import warnings
    import diffprivlib  # noqa: F401
    from diffprivlib.utils import PrivacyLeakWarning
    req = json.load(sys.stdin)
    flt = [f[0] for f in warnings.filters if f[2] is PrivacyLeakWarning]
    out = {"filter_actions": flt, "results": [], "seq_results": []}
    _arm_workers()
    for c in req["cells"]:
        big = c["variant"].get("data") or c["variant"].get("bins") == "bigscalar" or c["variant"].get("wide") or "32768" in str(c["variant"].get("bins_t"))
        for seed in (req["seeds"][:1] if big else req["seeds"]):
            X, y = _dataset(seed + 7919 * c["id"], c)
            rec = {"id": c["id"], "seed": seed, "n": [None, None], "err": [None, None]}
            try:
                call = _make_call(c, X, y)
            except Exception as ex:  # noqa
                rec["err"] = [f"build:{type(ex).__name__}:{ex}"] * 2
                out["results"].append(rec)
                continue
            # the experiment: TWO consecutive calls inside ONE recording block, filters untouched
            with warnings.catch_warnings(record=True) as w:
                for i in range(2):
                    before = len([x for x in w if issubclass(x.category, PrivacyLeakWarning)])
                    try:
                        call()
                    except Exception as ex:  # noqa
                        rec["err"][i] = f"{type(ex).__name__}:{str(ex)[:120]}"
                    rec["n"][i] = len([x for x in w if issubclass(x.category, PrivacyLeakWarning)]) - before
            # does numpy take a range from the data?  compare the returned edges for two datasets
            if c["entry"] in ("histogram", "histogramdd", "histogram2d"):
                with warnings.catch_warnings():
                    warnings.simplefilter("ignore")
                    try:
                        e1 = _edges_of(call(), c["entry"])
                        X2 = X * 0.5 + 0.1
                        e2 = _edges_of(_make_call(c, X2, y)(), c["entry"])
                        rec["derive_obs"] = e1 != e2
                    except Exception as ex:  # noqa
                        rec["derive_obs"] = None
                        rec["err"].append(f"probe:{type(ex).__name__}:{str(ex)[:120]}")
            # with EVERY domain parameter supplied, the fitted domain attributes (classes_, bounds, data_norm, edges …) must
            # be a function of the supplied parameters only: fit on data that DISAGREES with them (a value outside the
            # bounds / range, a norm above data_norm, a label outside classes) and compare with the in-domain fit
            if not c["omit"] and not c.get("note_only") and c["entry"] not in BOUNDS_TOOLS + ["count_nonzero", "covariance_eig"]:
                rec["domain_probe"] = _domain_probe(c, X, y, PrivacyLeakWarning)
            out["results"].append(rec)
    for q in req.get("seqs", []):
        for seed in req["seeds"]:
            try:
                out["seq_results"].append(_run_sequence(q, seed, PrivacyLeakWarning))
            except Exception as ex:  # noqa
                out["seq_results"].append({"sid": q["sid"], "seed": seed, "err": f"{type(ex).__name__}:{str(ex)[:160]}"})
    # note only: second fit on the SAME estimator instance
    try:
        X, y = _dataset(1, {"variant": {}, "entry": "GaussianNB"})
        est = diffprivlib.models.GaussianNB(epsilon=1.0, accountant=diffprivlib.BudgetAccountant())
        ns = []
        with warnings.catch_warnings(record=True) as w:
            for _ in range(2):
                b0 = len([x for x in w if issubclass(x.category, PrivacyLeakWarning)])
                est.fit(X, y)
                ns.append(len([x for x in w if issubclass(x.category, PrivacyLeakWarning)]) - b0)
        out["same_instance_refit"] = ns
    except Exception as ex:  # noqa
        out["same_instance_refit"] = f"{type(ex).__name__}"
    sys.stdout.write(json.dumps(out))
    sys.stdout.flush()


def _arm_workers():
    """joblib's process back-end (loky) starts fresh interpreters that inherit os.environ: make them apply the third-party
    API shims (harness/worker_site/sitecustomize.py, the mechanism of C14/C15) and import the same /repo tree BEFORE they
    unpickle library functions.  Called inside the matrix interpreter only, so that interpreter itself starts plainly."""
    from .. import shim
    site = os.path.join(VERIF, "harness", "worker_site")
    pp = os.environ.get("PYTHONPATH", "")
    if site not in pp.split(os.pathsep):
        os.environ["PYTHONPATH"] = site + (os.pathsep + pp if pp else "")
    os.environ["VERIF_WORKER_SHIM"] = "1"
    os.environ["VERIF_REPO"] = shim.REPO


def run_worker(cells, seeds, timeout=1500, seqs=()):
    env = dict(os.environ)
    env["VERIF_SHIM_PRISTINE_WARNINGS"] = "1"
    env.pop("PYTHONWARNINGS", None)
    env["PYTHONDONTWRITEBYTECODE"] = "1"
    p = subprocess.run([sys.executable, "-c", "from harness.props.c11 import worker_main; worker_main()"],
                       cwd=VERIF, env=env, input=json.dumps({"cells": cells, "seeds": seeds, "seqs": list(seqs)}),
                       capture_output=True,
                       text=True, timeout=timeout)
    if p.returncode != 0:
        raise RuntimeError(f"C11 worker failed rc={p.returncode}: {p.stderr[-2000:]}")
    return json.loads(p.stdout)


# ------------------------------------------------------------------------------------------------ check

def generate(ctx):
    info = guards.generate(os.environ.get("VERIF_REPO", "/repo"), leanio.LEAN)
    ctx.count("translator_entries", info["entries"])
    ctx.count("translator_rows", info["rows"])
    # obligations: gen_eq_hand, gen_complete, gen_size
    return {"build": ["DPL.Generated.C11Table"], "obligations": 3}


def judge(ctx, c, rec, model_out):
    """direct property check + correspondence for one (cell, seed) record"""
    n1, n2 = rec["n"]
    key = cell_key(c)
    if c.get("note_only"):
        if rec.get("derive_obs") and n1 == 0:
            ctx.note(f"report-only: {key}: {c['note_only']}; edges differ between two datasets, {n1} PrivacyLeakWarning")
        ctx.case(None)
        return
    data = {"cell": c, "seed": rec["seed"], "recorded_privacy_leak_warnings": rec["n"], "errors": rec["err"]}
    if c["variant"].get("data") and any(e for e in rec["err"][:2]):
        # degenerate data: a call that raises has released nothing — a refusal (with or without the warning before it)
        ctx.case(key)
        ctx.count("degenerate_refusals")
        ctx.trace_ok()
        return
    if any(e for e in rec["err"][:2]):
        # a call that raises is not a release; but the matrix is built from calls that are supposed to work
        ctx.disagree("matrix.call", {"cell": key, "seed": rec["seed"]}, "call returns", rec["err"],
                     note="matrix call raised")
        return
    needs = c["needs"]
    if "derive_obs" in rec and rec["derive_obs"] is not None:
        if rec["derive_obs"] != needs:
            ctx.disagree("numpy.histogram-fallback", {"cell": key}, f"derives={needs}", f"edges differ={rec['derive_obs']}")
        needs = needs or rec["derive_obs"]
    ctx.case(key if needs else None)
    dpb = rec.get("domain_probe")
    if dpb and dpb.get("differs") and not dpb.get("plw"):
        ctx.violation(f"C11:{c['entry']}:{dpb['differs'][0]}:data-derived-despite-supplied",
                      f"{c['entry']} with every domain parameter supplied ({json.dumps(c['variant'])}): fitted on data with "
                      f"one record outside the declared domain (x = 5.0, label 7), {dpb['differs']} differ from the in-domain "
                      f"fit ({dpb.get('values')}) and no PrivacyLeakWarning was raised",
                      dict(data, probe="domain"))
    elif dpb and dpb.get("err") and dpb["err"].startswith("probe:"):
        ctx.disagree("matrix.domain-probe", {"cell": key}, "comparable", dpb["err"])
    # S: the property itself
    if needs and n1 == 0:
        ctx.violation(signature(c, False),
                      f"{c['entry']} with {c['omit'] or 'partial range'} omitted ({json.dumps(c['variant'])}) derived a "
                      f"domain parameter from the data without any PrivacyLeakWarning (call 1)", data)
    elif needs and n2 == 0:
        ctx.violation(signature(c, True),
                      f"{c['entry']} with {c['omit'] or 'partial range'} omitted ({json.dumps(c['variant'])}): the first "
                      f"call raised {n1} PrivacyLeakWarning(s), the second identical call none", data)
    # K: the model
    m = dict(kv.split("=") for kv in model_out.split()) if "=" in model_out else None
    if m is None:
        ctx.disagree("guard-table", {"cell": key}, model_out, rec["n"], note="driver could not evaluate the cell")
        return
    ok = (m["d"] == "1") == c["needs"] or (c["entry"] in ("histogram", "histogramdd", "histogram2d") and m["d"] == "1"
                                             and not c["needs"])
    # for histogramdd the table's `derive` is the abstraction (some count bin AND some missing entry): it may
    # over-approximate the per-dimension fact, never under-approximate it
    if c["needs"] and m["d"] != "1":
        ok = False
    if not ok:
        ctx.disagree("guard-table.derive", {"cell": key}, model_out, f"needs={c['needs']}")
        return
    if (m["w"] == "1") != (n1 > 0) or (m["w"] == "1") != (n2 > 0):
        ctx.disagree("guard-table.warn", {"cell": key, "seed": rec["seed"]}, model_out, rec["n"])
        return
    ctx.trace_ok()


def seq_fails(rec):
    """(what, attrs) when the later call's result depends on the range of ITS batch and it recorded no PrivacyLeakWarning"""
    if rec.get("err") or any(rec["errs"][t][i] for t in "AB" for i in (0, 1)):
        return None
    silent = min(rec["n"]["A"][1], rec["n"]["B"][1]) == 0
    if silent and rec["dom_differs"]:
        return "rederives-" + rec["dom_differs"][0], rec["dom_differs"]
    if silent and rec["fit_differs"]:
        return "fitted-state-depends-on-range", rec["fit_differs"]
    return None


def judge_seq(ctx, q, rec):
    key = seq_key(q)
    if rec.get("err") or any(rec["errs"][t][0] for t in "AB"):
        ctx.disagree("sequence.call", {"seq": key, "seed": rec["seed"]}, "first call returns", rec.get("err") or rec["errs"],
                     note="sequence raised")
        return
    if any(rec["errs"][t][1] for t in "AB"):
        # the later call refused its batch: nothing released
        ctx.case(key)
        ctx.count("sequence_refusals")
        ctx.trace_ok()
        return
    ctx.case(key)
    bad = seq_fails(rec)
    if bad:
        what, attrs = bad
        ctx.violation(seq_signature(q, what),
                      f"{q['entry']}({json.dumps(q['ctor'])}) built without {q['omit']}: {q['first']}(batch 1) recorded "
                      f"{rec['n']['A'][0]} PrivacyLeakWarning(s); then {q['second']}(batch 2) on the SAME object, batch 2 having "
                      f"one record far outside batch 1 ({'x[0] = ' + str(rec['extreme']) + ' vs twice that' if q['vary'] == 'x' else 'label 7 vs label 9'}): "
                      f"{attrs} after the call differ between the two batches ({rec['values']}) — taken from the data of "
                      f"the later call — and it recorded {rec['n']['A'][1]}/{rec['n']['B'][1]} PrivacyLeakWarnings",
                      {"seq": q, "seed": rec["seed"], "recorded_privacy_leak_warnings": rec["n"], "differs": attrs,
                       "values": rec["values"]})
        return
    if min(rec["n"]["A"][1], rec["n"]["B"][1]) > 0:
        ctx.count("sequence_later_call_warned")
    ctx.trace_ok()


def check(ctx):
    cells = build_matrix()
    seqs = build_sequences()
    r = ctx.fork("datasets")
    seeds = [r.randint(1, 2 ** 30) for _ in range(ctx.budget(1, 4) if not ctx.searching else 3)]
    try:
        res = run_worker(cells, seeds, seqs=seqs)
    except Exception as e:  # noqa - the fresh interpreter died (library import / unexpected exception): per-cell retry
        ctx.note(f"matrix worker failed as a whole ({type(e).__name__}: {str(e)[-300:]}); retrying cell by cell")
        res = {"filter_actions": [], "results": [], "seq_results": [], "same_instance_refit": None}
        try:
            res["seq_results"] = run_worker([], seeds[:1], timeout=600, seqs=seqs)["seq_results"]
        except Exception as e1:  # noqa
            ctx.disagree("matrix.worker", {"seqs": len(seqs)}, "sequences run", f"worker died: {type(e1).__name__}: {str(e1)[-200:]}")
        for c in cells:
            try:
                r1 = run_worker([c], seeds[:1], timeout=300)
                res["results"] += r1["results"]
                res["filter_actions"] = r1.get("filter_actions", res["filter_actions"])
            except Exception as e1:  # noqa
                ctx.disagree("matrix.worker", {"cell": cell_key(c)}, "call returns",
                             f"worker died: {type(e1).__name__}: {str(e1)[-200:]}")
            if len([d for d in ctx.disagreements if d["unit"] == "matrix.worker"]) >= 5:
                break
    ctx.count("matrix_cells", len(cells))
    ctx.count("calls_observed", 2 * len(res["results"]))
    lines = [model_line(c) for c in cells] + ["filter always 2", "filter once 2", "filter default 2"]
    outs = leanio.run_driver("Warnings", lines)
    by_id = {c["id"]: (c, outs[i]) for i, c in enumerate(cells)}
    for rec in res["results"]:
        c, mo = by_id[rec["id"]]
        judge(ctx, c, rec, mo)
    ctx.count("sequences", len(seqs))
    ctx.count("sequence_calls_observed", 4 * len(res.get("seq_results", [])))
    sq = {q["sid"]: q for q in seqs}
    for rec in res.get("seq_results", []):
        judge_seq(ctx, sq[rec["sid"]], rec)
    # the filter the library installed itself
    acts = res.get("filter_actions", [])
    ctx.note(f"PrivacyLeakWarning filter entries found in the fresh interpreter: {acts}")
    if acts[:1] != ["always"]:
        ctx.disagree("warning-filter", "warnings.filters after import", "always", acts,
                     note="the model of the library's filter is `always`")
    if outs[len(cells)] != "1 1":
        ctx.disagree("warning-filter.model", "filter always 2", "1 1", outs[len(cells)])
    sir = res.get("same_instance_refit")
    ctx.note(f"report-only: two fits of the SAME GaussianNB instance without bounds recorded {sir} PrivacyLeakWarnings "
             f"(the estimator keeps the data-derived bounds in self.bounds; not counted as a violation)")
    ex = next((x for x in res["results"] if by_id[x["id"]][0]["needs"]), None)
    if ex:
        ctx.sample({"cell": by_id[ex["id"]][0], "recorded": ex["n"], "model": by_id[ex["id"]][1]})
    ex = next((x for x in res["results"] if by_id[x["id"]][0]["entry"] == "histogramdd"
               and by_id[x["id"]][0]["variant"]["form"] == "tuple" and by_id[x["id"]][0]["needs"]), None)
    if ex:
        ctx.sample({"cell": by_id[ex["id"]][0], "recorded": ex["n"], "model": by_id[ex["id"]][1]})


def replay(ctx, data):
    d = data["data"]
    if "seq" in d:
        rec = run_worker([], [int(d["seed"])], seqs=[d["seq"]])["seq_results"][0]
        return seq_fails(rec) is not None
    c = d["cell"]
    res = run_worker([c], [int(d["seed"])])
    rec = res["results"][0]
    n1, n2 = rec["n"]
    if any(rec["err"][:2]):
        return False
    if data.get("signature", "").endswith("data-derived-despite-supplied"):
        dpb = rec.get("domain_probe") or {}
        return bool(dpb.get("differs")) and not dpb.get("plw")
    if data.get("signature", "").endswith("second-call-silent"):
        return bool(n1) and n2 == 0
    return n1 == 0
