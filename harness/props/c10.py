"""C10 — out-of-domain records have no more influence than their clipped image (DESIGN.md §6 C10).

(K)  clip_to_bounds / clip_to_norm of the implementation vs the Lean model (driver `ClipRange`, IEEE doubles), exact.
(S1) direct on the helpers: lower <= out <= upper exactly, out == nearest in-domain point (independent numpy reference),
     identity on in-domain data, idempotence, norm <= c(1+1e-12), rows inside the ball untouched.
(S2) end to end: f(D, seed) == f(clip(D), seed), bit for bit, for every tool with bounds and every estimator whose
     domain is bounds or a norm; clip(D) is computed by an independent reference, never by the library helper.
"""
import math
import warnings

from ..shim import dp, np
from .. import gen, leanio
from ..gen import f2b, b2f

PROPERTY = "C10"
LEAN_MODULE = "DPL.Properties.C10"
TRUSTED = [
    "modelled, not verified: np.clip(x, lo, hi) = np.minimum(np.maximum(x, lo), hi) entrywise; np.min/np.max/np.all on the "
    "bounds; np.linalg.norm(axis=1) = sqrt of the left-to-right sum of squares (exact for < 8 columns, compared with "
    "1e-15 relative above); entrywise IEEE division",
    "that every tool / estimator has the form g(clip(D)) is NOT derived from the source: it is observed on every run as "
    "the bit-for-bit equality f(D, seed) == f(clip_ref(D), seed) on generated datasets (clip_ref is an independent numpy "
    "reference), and the plan-level theorem `plan_clip_invariant` says that this form implies the property",
    "histogram* with `range`: numpy DROPS out-of-range samples instead of clipping them; for these the equality checked is "
    "f(D, seed) == f(D restricted to the range, seed) (out-of-range records have no influence at all)",
    "PCA: only centered=True (domain = the norm ball); with centered=False the library subtracts a noisy mean from the "
    "unclipped data before the norm clip, so the bounds are not a clipping domain there",
]
TRUSTED += [
    "the model has ONE numeric carrier: that the result array can hold the bounds whatever the data type of the caller's "
    "array (int64/int32/int8/bool/float32 data, a list of Python ints for the tools) is observed by the correspondence and the "
    "direct checks on typed arrays, not proved; per-feature bounds whose count differs from the number of columns are refused "
    "(a 1-column array would be broadcast to a wider one: not generated)",
    "PCA has no partially specified configuration in which a declared parameter is a clipping domain of the input "
    "(centered=False subtracts a noisy mean before the norm clip and derives the norm from the centred data), so PCA is "
    "not in the partial-domain stream",
    "multi-step use (fit then partial_fit / refit / warm start on the same instance) is covered by the end-to-end equality on "
    "two-batch sequences f(A then D) == f(A then clip(D)), not by a theorem about the estimator's state",
]
TRUSTED += [
    "static tie `clipped before use` (harness/translate/clips.py -> DPL/Generated/C10Clips.lean, decided by "
    "ClipIR.clippedBeforeUse, meaning: DPL.C10.static_clip_sound): the lowering of Python to the clip IR is trusted, not "
    "verified - name-based recognition of the clip helpers (clip_to_bounds / self._clip_to_bounds / clip_to_norm / "
    "self._clip_to_norm; np.histogram(dd)(range=) as the clamp-equivalent range filter), of check_bounds / "
    "self._check_bounds (declared bounds stay declared only WITHOUT a dtype argument), of re-arrangements (np.ravel, "
    "np.asarray/np.array/check_array/validate_data incl. their float dtype conversion, .copy(), indexing) and of clip-invariant "
    "views (.shape/.ndim/.dtype/.size, len, np.isnan, zeros_like, `is None`); EVERY other call is an arbitrary function of all "
    "its arguments and its receiver (so no list of reductions is needed), but is assumed not to modify its arguments in place "
    "unless it is a method call statement on that variable; intra-procedural only: a callee is either an entry point with its "
    "own obligation (data may be handed on raw, its bounds argument must be built from the caller's declared bounds) or opaque; "
    "aliasing between two local names of one array is not tracked; exception messages are not treated as releases; the "
    "`if <declared bounds> is None` fallback arm (C11) is outside the skeletons; count_nonzero and PCA._fit_full are listed as "
    "not covered in the generated file",
]
UNPROVED = [
    "clip_to_norm over doubles: ||row|| <= c(1+1e-12) and approximate idempotence are validated on every run, the "
    "theorems clip_norm_le / clip_norm_idem are over R (the bounds-clipping theorems are carrier-independent and hold "
    "for non-NaN doubles as they stand)",
    "that the estimators' numerics (BLAS reductions, L-BFGS, eigh) are deterministic functions of the clipped array",
]
RULE = ("helper cases: arrays of 0-6 rows x 1-9 columns with entries inside / exactly on / one ulp outside / far outside "
        "the bounds, NaN, +-inf; bounds scalar, per-feature, all-equal per-feature, NEARLY equal per-feature (differences of "
        "1 ulp to 1e-7), zero-width, infinite, invalid (lower > upper), too few / too many entries; a case is non-trivial "
        "when at least one entry is moved by the clip; distinct by (bounds kind, which entries moved). end-to-end cases: "
        "(tool or estimator, axis / option, bounds kind, dataset with 5-60 % out-of-domain entries, integer seed); for "
        "norm domains an out-of-ball row is kept only if its rescaled image is an exact fixed point of the rescaling "
        "(about half of all rows), so that bit-for-bit equality is the correct expectation; non-trivial when clip(D) != D. "
        "Variants of both streams: data typed int64/int32/int8/bool/float32/Python-int list with fractional scalar and per-feature "
        "bounds the type cannot represent; rows whose norm is c(1 +- delta), delta from a few ulps to 1e-4; two-batch sequences "
        "(fit+partial_fit, partial_fit twice, refit, warm start) with the out-of-domain records in the second batch; narrow windows "
        "at large offsets (|mid| 1e3..1e10, width 1e-8..1e-3 relative) with records just outside the DECLARED bounds for the "
        "callers of check_bounds(min_separation=1e-5) (quantile/percentile/median, KMeans), plus check_bounds itself: the result "
        "contains the declared bounds and is no wider than max(declared width, min_separation); partially specified domains "
        "(LinearRegression bounds_X xor bounds_y, histogramdd ranges for some dimensions, forest/tree bounds without classes): "
        "only the declared domain is clipped in the reference image")

V = dp.validation


# ---------------------------------------------------------------------------------------------- helpers
def _eqv(a, b):
    """value equality of two float arrays/lists: NaN == NaN, -0.0 == 0.0"""
    a = np.asarray(a, dtype=float)
    b = np.asarray(b, dtype=float)
    if a.shape != b.shape:
        return False
    return bool(np.all((a == b) | (np.isnan(a) & np.isnan(b))))


def kind_of(exc):
    if exc is None:
        return "ok"
    if isinstance(exc, IndexError):
        return "indexError"
    if isinstance(exc, TypeError):
        return "typeError"
    if isinstance(exc, ValueError):
        return "valueError"
    return "other:" + type(exc).__name__


def unjson(x):
    from ..core import unjson_float as u
    if isinstance(x, list):
        return [unjson(y) for y in x]
    if isinstance(x, dict):
        return {k: unjson(v) for k, v in x.items()}
    return u(x)


def ref_clip(X, lower, upper):
    """independent reference: nearest point of the box, entry by entry"""
    X = np.asarray(X, dtype=float)
    lo = np.broadcast_to(np.asarray(lower, dtype=float), X.shape[-1:] if X.ndim == 2 else ())
    hi = np.broadcast_to(np.asarray(upper, dtype=float), X.shape[-1:] if X.ndim == 2 else ())
    return np.minimum(np.maximum(X, lo), hi)


def ref_clip_norm(X, c):
    X = np.asarray(X, dtype=float)
    out = X.copy()
    for i in range(X.shape[0]):
        n = math.sqrt(math.fsum(float(v) * float(v) for v in X[i]))
        if n > c:
            out[i] = X[i] / (n / c)
    return out


# ------------------------------------------------------------------------------------ generators (helpers)
def gen_bounds(r, d, allow_bad=True):
    """-> (kind, lower list, upper list) ; lists of length nb (1 = scalar / broadcast)"""
    m = r.u01()
    base_l = r.choice([0.0, -1.0, 0.5, -3.25, r.uniform(-10, 10), -1e6, 1e-3])
    width = r.choice([1.0, 2.5, r.loguniform(1e-6, 1e3), 1e-12, 10.0])
    if m < 0.18:
        return "scalar", [base_l], [base_l + width]
    if m < 0.30:
        return "equal", [base_l] * d, [base_l + width] * d
    if m < 0.55:
        # nearly equal per-feature bounds: the repaired np.allclose fast path
        tiny = r.choice([1e-9, 1e-12, 1e-7, 0.0])
        lo, hi = [], []
        for j in range(d):
            k = r.randint(0, 3)
            lo.append(gen.offset_ulps(base_l, k) + (tiny * r.randint(0, 2)))
            k = r.randint(0, 3)
            hi.append(gen.offset_ulps(base_l + width, -k) - (tiny * r.randint(0, 2)))
        lo = [min(a, b) for a, b in zip(lo, hi)]
        return "nearly", lo, hi
    if m < 0.80:
        lo = [r.choice([base_l, r.uniform(-5, 5), 0.0, -math.inf if r.chance(0.1) else -2.0]) for _ in range(d)]
        hi = [l + r.choice([width, 0.0, r.uniform(0, 4), math.inf if r.chance(0.1) else 1.0]) if l > -math.inf
              else r.choice([0.0, 5.0, math.inf]) for l in lo]
        return "perfeature", lo, hi
    if m < 0.86:
        return "zerowidth", ([base_l] * d if r.chance(0.5) else [base_l]), None
    if m < 0.92 and allow_bad:
        lo = [r.uniform(-5, 5) for _ in range(d)]
        hi = [l + r.uniform(0, 3) for l in lo]
        j = r.randint(0, d - 1)
        hi[j] = lo[j] - r.choice([1.0, 1e-9])
        return "invalid", lo, hi
    if allow_bad:
        nb = r.choice([max(1, d - 1), d + 1, d + 2])
        lo = [r.uniform(-5, 5) for _ in range(nb)]
        hi = [l + r.uniform(0.1, 3) for l in lo]
        if nb == 1:
            return "scalar", lo, hi
        return "mismatch", lo, hi
    return "scalar", [base_l], [base_l + width]


def gen_entry(r, lo, hi):
    flo = lo if lo > -math.inf else (hi - 10 if hi < math.inf else -10.0)
    fhi = hi if hi < math.inf else flo + 10
    m = r.u01()
    if m < 0.35:
        return r.uniform(flo, fhi)
    if m < 0.45:
        return r.choice([flo, fhi])
    if m < 0.55:
        return r.choice([gen.offset_ulps(flo, -1), gen.offset_ulps(fhi, 1), gen.offset_ulps(flo, 1), gen.offset_ulps(fhi, -1)])
    if m < 0.80:
        return r.choice([flo - r.loguniform(1e-9, 1e6), fhi + r.loguniform(1e-9, 1e6)])
    if m < 0.86:
        return float("nan")
    if m < 0.92:
        return r.choice([math.inf, -math.inf])
    if m < 0.96:
        return r.choice([0.0, -0.0])
    return r.choice([1e300, -1e300, 5e-324])


def gen_helper_case(r):
    d = r.choice([1, 2, 2, 3, 3, 4, 5, 9])
    n = r.choice([0, 1, 1, 2, 3, 4, 6])
    kind, lo, hi = gen_bounds(r, d)
    if hi is None:
        hi = list(lo)
    nb = len(lo)
    if kind == "mismatch" and n == 0:
        n = 1       # the model's list-of-rows array cannot carry a column count without a row
    if kind == "mismatch" and d == 1:
        d = 2       # a 1-column array is BROADCAST against several bounds to a wider array: not a clipping configuration
    rows = []
    for _ in range(n):
        row = []
        for j in range(d):
            jj = j if j < nb else 0
            row.append(gen_entry(r, lo[jj if nb > 1 else 0], hi[jj if nb > 1 else 0]))
        rows.append(row)
    one_d = kind in ("scalar", "equal", "zerowidth", "nearly") and r.chance(0.2)
    case = {"op": "bounds", "kind": kind, "lower": lo, "upper": hi, "rows": rows, "d": d, "one_d": one_d,
            "scalar_args": kind == "scalar" and r.chance(0.5)}
    if r.chance(0.3):
        typed_rows(r, case)
    return case


DTYPES = ["int64", "int32", "bool", "float32", "int8"]


def typed_rows(r, case):
    """narrower-than-float64 data (the callers' arrays are not cast by the tools / GaussianNB / KMeans): integer-valued
    entries around bounds that are mostly NOT representable in the data type"""
    dt = r.choice(DTYPES)
    lo, hi = case["lower"], case["upper"]
    fin = [b for b in lo + hi if math.isfinite(b)]
    c = int(round(sum(fin) / len(fin))) if fin else 0
    c = max(-100, min(100, c))
    rows = []
    for row in case["rows"]:
        new = []
        for _ in row:
            if dt == "bool":
                new.append(float(r.randint(0, 1)))
            elif dt == "float32":
                new.append(float(np.float32(r.choice([c + r.uniform(-4, 4), r.uniform(-4, 4), c + r.randint(-3, 3)]))))
            else:
                new.append(float(max(-120, min(120, r.choice([c + r.randint(-4, 4), r.randint(-3, 3), c])))))
        rows.append(new)
    case["rows"] = rows
    case["dtype"] = dt
    if case["kind"] not in ("invalid", "mismatch") and r.chance(0.7):
        # fractional bounds close to the data: the clipped values are not representable in an integer type
        base = c + r.choice([0.5, -0.5, 0.25, -1.75, 0.1])
        w = r.choice([2.0, 1.5, 0.7, 3.25])
        n = len(lo)
        if case["kind"] in ("scalar", "equal", "zerowidth"):
            case["lower"], case["upper"] = [base] * n, [base + (0.0 if case["kind"] == "zerowidth" else w)] * n
        else:
            case["lower"] = [base + r.choice([0.0, 0.25, -0.5, 1e-9]) for _ in range(n)]
            case["upper"] = [base + w + r.choice([0.0, 0.25, 0.5, -1e-9]) for _ in range(n)]


def gen_norm_case(r):
    d = r.choice([1, 2, 3, 4, 5, 7, 7, 8, 12])
    n = r.choice([0, 1, 2, 3, 5])
    c = r.choice([1.0, 2.0, 0.5, r.loguniform(1e-3, 1e3), 3.0])
    if r.chance(0.06):
        c = r.choice([0.0, -1.0])
    rows = []
    for _ in range(n):
        m = r.u01()
        v = [r.normal() for _ in range(d)]
        nv = math.sqrt(sum(x * x for x in v)) or 1.0
        if m < 0.3:
            s = abs(c) * r.uniform(0, 0.999) / nv
        elif m < 0.45:
            s = abs(c) / nv                      # on the sphere (to rounding)
        elif m < 0.9:
            s = abs(c) * r.loguniform(1.0000001, 1e6) / nv
        elif m < 0.95:
            s = 0.0
        else:
            s = float("nan")
        rows.append([x * s for x in v])
    if r.chance(0.1) and n and d >= 2:
        rows[0] = [abs(c)] + [0.0] * (d - 1)     # exactly on the sphere
    if c > 0:
        for i in range(n):
            if r.chance(0.35):
                rows[i] = shell_row(r, d, c)
    return {"op": "norm", "c": c, "rows": rows, "d": d}


SHELL = [1e-15, 3e-15, 1e-14, 1e-13, 3e-12, 1e-11, 1e-10, 1e-9, 1e-8, 1e-7, 1e-6, 5e-6, 9.9e-6, 2e-5, 1e-4]


def shell_row(r, d, c):
    """a row whose norm is c(1 +- delta): a few ulps up to 1e-4 relative above (and below) the clip value"""
    v = np.array([r.normal() for _ in range(d)])
    if r.chance(0.3):
        v = np.zeros(d)
        v[r.randint(0, d - 1)] = r.choice([-1.0, 1.0])
    nv = float(np.sqrt(np.add.reduce(v * v))) or 1.0
    m = r.u01()
    if m < 0.2:
        f = 1.0 + r.randint(1, 8) * 2.0 ** -52
    elif m < 0.8:
        f = 1.0 + r.choice(SHELL) * r.uniform(0.5, 1.0)
    else:
        f = 1.0 - r.choice(SHELL) * r.uniform(0.5, 1.0)
    return (v * (c * f / nv)).tolist()


# --------------------------------------------------------------------------------- helper checks (K + S1)
def bounds_arg(case):
    lo, hi = case["lower"], case["upper"]
    if case.get("scalar_args"):
        return (lo[0], hi[0])
    return (np.array(lo, dtype=float), np.array(hi, dtype=float))


def run_helper_impl(case):
    if case["op"] == "bounds":
        rows = case["rows"]
        d = case["d"]
        A = np.array(rows, dtype=float).reshape(len(rows), d).astype(case.get("dtype", "float64"))
        if case.get("one_d"):
            A = A.ravel()
        A0 = A.astype(float)          # exact: the typed entries are small integers / float32 values
        A = A.copy()
        try:
            with warnings.catch_warnings():
                warnings.simplefilter("ignore")
                out = V.clip_to_bounds(A, bounds_arg(case))
            exc = None
        except Exception as e:  # noqa
            out, exc = None, e
        return A0, A, out, exc
    A = np.array(case["rows"], dtype=float).reshape(len(case["rows"]), case["d"])
    A0 = A.copy()
    try:
        with warnings.catch_warnings():
            warnings.simplefilter("ignore")
            out = V.clip_to_norm(A, case["c"])
        exc = None
    except Exception as e:  # noqa
        out, exc = None, e
    return A0, A, out, exc


def driver_line(case):
    if case["op"] == "bounds":
        lo, hi, rows = case["lower"], case["upper"], case["rows"]
        flat = [x for row in rows for x in row]
        if case.get("one_d"):
            return "clipb1 %d %d " % (len(flat), len(lo)) + " ".join(str(f2b(x)) for x in lo + hi + flat)
        return "clipb %d %d %d " % (len(rows), case["d"], len(lo)) + " ".join(str(f2b(x)) for x in lo + hi + flat)
    flat = [x for row in case["rows"] for x in row]
    return "clipn %d %d " % (len(case["rows"]), case["d"]) + " ".join(str(f2b(x)) for x in [case["c"]] + flat)


def direct_helper(case, A0, A, out, exc):
    """the property itself on the helper; returns (signature, what) or None"""
    v = _direct_helper(case, A0, A, out, exc)
    if v and case.get("dtype") and v[0].split(":")[-1] in ("out-of-bounds", "not-nearest", "not-identity", "not-idempotent"):
        return ("C10:clip_to_bounds:dtype", f"{case['dtype']} array: " + v[1])
    return v


def _direct_helper(case, A0, A, out, exc):
    if case["op"] == "bounds":
        lo, hi = case["lower"], case["upper"]
        valid = len(lo) == len(hi) and all(l <= u for l, u in zip(lo, hi))
        per_col = len(lo) > 1 and not (all(x == min(lo) for x in lo) and all(x == max(hi) for x in hi))
        if not valid:
            if exc is None:
                return ("C10:clip_to_bounds:accepts-invalid-bounds", f"bounds {lo},{hi} accepted")
            return None
        if per_col and (case.get("one_d") or case["d"] != len(lo)):
            return None       # per-feature bounds that do not match the array: refused (or broadcast), not a clipping configuration
        if exc is not None:
            return ("C10:clip_to_bounds:refuses-valid", f"{type(exc).__name__}: {exc} for bounds {lo},{hi}")
        if not _eqv(A, A0):
            return ("C10:clip_to_bounds:modifies-input", "the caller's array was modified")
        if out.shape != A0.shape:
            return ("C10:clip_to_bounds:shape", f"shape {out.shape} != {A0.shape}")
        out = np.asarray(out).astype(float)
        if A0.ndim == 2 and per_col:
            L = np.array(lo[:A0.shape[1]], dtype=float)
            U = np.array(hi[:A0.shape[1]], dtype=float)
        else:
            L = np.full(A0.shape[-1:] if A0.ndim == 2 else (), min(lo))
            U = np.full(A0.shape[-1:] if A0.ndim == 2 else (), max(hi))
            if len(lo) > 1 and A0.ndim == 2 and len(lo) >= A0.shape[1]:
                L = np.array(lo[:A0.shape[1]], dtype=float)      # all equal anyway: use the declared per-feature values
                U = np.array(hi[:A0.shape[1]], dtype=float)
        nan = np.isnan(A0)
        if not np.array_equal(np.isnan(out), nan):
            return ("C10:clip_to_bounds:nan", "NaN pattern changed")
        with np.errstate(invalid="ignore"):
            bad = ~nan & ~((out >= L) & (out <= U))
        if bad.any():
            idx = tuple(int(i) for i in np.argwhere(bad)[0])
            return ("C10:clip_to_bounds:out-of-bounds",
                    f"clip_to_bounds output {out[idx]!r} at {idx} outside [{np.broadcast_to(L, out.shape)[idx]!r}, "
                    f"{np.broadcast_to(U, out.shape)[idx]!r}] (bounds {lo}, {hi})")
        ref = np.minimum(np.maximum(A0, L), U)
        if not _eqv(out, ref):
            return ("C10:clip_to_bounds:not-nearest", f"output differs from the nearest in-domain point: {out.tolist()} vs {ref.tolist()}")
        with np.errstate(invalid="ignore"):
            inside = nan | ((A0 >= L) & (A0 <= U))
        if not _eqv(out[inside], A0[inside]):
            return ("C10:clip_to_bounds:not-identity", "an in-domain entry was changed")
        again = V.clip_to_bounds(out, bounds_arg(case))
        if not _eqv(again, out):
            return ("C10:clip_to_bounds:not-idempotent", f"clip(clip(A)) != clip(A): {again.tolist()} vs {out.tolist()}")
        return None
    # norm
    c = case["c"]
    if not c > 0:
        if exc is None:
            return ("C10:clip_to_norm:accepts-invalid-clip", f"clip={c} accepted")
        return None
    if exc is not None:
        return ("C10:clip_to_norm:refuses-valid", f"{type(exc).__name__}: {exc}")
    if not _eqv(A, A0):
        return ("C10:clip_to_norm:modifies-input", "the caller's array was modified")
    if out.shape != A0.shape:
        return ("C10:clip_to_norm:shape", f"shape {out.shape} != {A0.shape}")
    ref = ref_clip_norm(A0, c)
    for i in range(A0.shape[0]):
        row, o = A0[i], out[i]
        if np.isnan(row).any():
            continue
        n_in = math.sqrt(math.fsum(float(v) * float(v) for v in row))
        n_out = math.sqrt(math.fsum(float(v) * float(v) for v in o))
        if not n_out <= c * (1 + 1e-12):
            return ("C10:clip_to_norm:norm-exceeds", f"row {i}: ||out|| = {n_out!r} > c(1+1e-12), c = {c!r}, row = {row.tolist()}")
        if n_in <= c * (1 - 1e-12) and not _eqv(o, row):
            return ("C10:clip_to_norm:not-identity", f"row {i} of norm {n_in!r} <= c = {c!r} was changed: {row.tolist()} -> {o.tolist()}")
        if not np.allclose(o, ref[i], rtol=1e-12, atol=1e-300 + 1e-13 * c):
            return ("C10:clip_to_norm:not-nearest", f"row {i}: {o.tolist()} is not the radial projection {ref[i].tolist()}")
    again = V.clip_to_norm(out, c)
    fin = ~np.isnan(out)
    if not np.allclose(again[fin], out[fin], rtol=1e-12, atol=1e-300):
        return ("C10:clip_to_norm:not-idempotent", "clip(clip(A)) differs from clip(A) by more than 1e-12 relative")
    return None


def compare_model(ctx, case, out, exc, line_out):
    w = line_out.split()
    k = kind_of(exc)
    if w[0] != "ok" or k != "ok":
        if w[0] != k:
            ctx.disagree("clip." + case["op"], case, line_out[:200], k)
            return False
        return True
    vals = [b2f(int(x)) for x in w[1:]]
    flat = [float(x) for x in np.asarray(out, dtype=float).ravel()]
    if case["op"] == "norm" and case["d"] >= 8:
        ok = len(vals) == len(flat) and all(gen.rel_close(a, b, 1e-15, 1e-300) for a, b in zip(vals, flat))
    else:
        ok = len(vals) == len(flat) and _eqv(vals, flat)
    if not ok:
        ctx.disagree("clip." + case["op"], case, vals[:40], flat[:40])
    return ok


FIXED_HELPER = [
    # regression witness of the repaired np.allclose fast path (fix bfc57c7)
    {"op": "bounds", "kind": "nearly", "lower": [0.0, 1e-9], "upper": [1.0, 1.0], "rows": [[0.0, 0.0]], "d": 2, "one_d": False},
    {"op": "bounds", "kind": "nearly", "lower": [0.0, 0.0], "upper": [1.0, 1.0 - 1e-9], "rows": [[2.0, 2.0], [0.5, 1.0]], "d": 2, "one_d": False},
    {"op": "bounds", "kind": "nearly", "lower": [1e6, 1e6 + 1e-3], "upper": [2e6, 2e6], "rows": [[0.0, 0.0]], "d": 2, "one_d": False},
    {"op": "bounds", "kind": "scalar", "lower": [0.0], "upper": [1.0], "rows": [[-1.0, 0.5, 2.0]], "d": 3, "one_d": False, "scalar_args": True},
    {"op": "norm", "c": 1.0, "rows": [[3.0, 4.0], [0.3, 0.4], [0.0, 0.0]], "d": 2},
    # rows a hair above the norm must be rescaled too (an isclose test on the norms would leave them)
    {"op": "norm", "c": 2.0, "rows": [[2.000001, 0.0], [0.0, 2.0 * (1 + 1e-9)], [1.2 * (1 + 5e-6), 1.6 * (1 + 5e-6)]], "d": 2},
    # integer / float32 data with bounds that the data type cannot represent: the result must still be the nearest point
    {"op": "bounds", "kind": "scalar", "lower": [0.5], "upper": [2.5], "rows": [[0.0, 1.0], [2.0, 3.0], [10.0, -7.0]], "d": 2,
     "one_d": False, "scalar_args": True, "dtype": "int64"},
    {"op": "bounds", "kind": "perfeature", "lower": [0.5, 0.25], "upper": [2.5, 2.75], "rows": [[0.0, 1.0], [2.0, 3.0], [10.0, -7.0]],
     "d": 2, "one_d": False, "dtype": "int64"},
    {"op": "bounds", "kind": "perfeature", "lower": [0.1, 0.25], "upper": [2.5, 2.7], "rows": [[0.0, 1.0], [2.0, 3.0], [10.0, -7.0]],
     "d": 2, "one_d": False, "dtype": "float32"},
    {"op": "bounds", "kind": "scalar", "lower": [0.5], "upper": [0.75], "rows": [[1.0, 0.0, 1.0]], "d": 3, "one_d": True,
     "scalar_args": True, "dtype": "bool"},
]


def check_bounds_case(case):
    """check_bounds(bounds, shape, min_separation=s) must return bounds that contain the declared ones and are no wider than
    max(declared width, s): the declared domain is widened only when it is narrower than the ABSOLUTE separation"""
    lo, hi, s, shape = case["lower"], case["upper"], case["sep"], case["shape"]
    b = (lo[0], hi[0]) if case.get("scalar_args") else (np.array(lo, dtype=float), np.array(hi, dtype=float))
    lo0, hi0 = list(lo), list(hi)
    try:
        with warnings.catch_warnings():
            warnings.simplefilter("ignore")
            L, U = V.check_bounds(b, shape, min_separation=s)
    except Exception as e:  # noqa
        return ("C10:check_bounds:refuses-valid", f"check_bounds(({lo}, {hi}), {shape}, min_separation={s}) raised {type(e).__name__}: {e}")
    if not case.get("scalar_args") and (list(b[0]) != lo0 or list(b[1]) != hi0):
        return ("C10:check_bounds:modifies-input", "the caller's bounds arrays were modified")
    L = np.atleast_1d(np.asarray(L, dtype=float))
    U = np.atleast_1d(np.asarray(U, dtype=float))
    n = max(shape, 1)
    if L.shape != (n,) or U.shape != (n,):
        return ("C10:check_bounds:shape", f"returned shapes {L.shape}, {U.shape} for shape={shape}")
    dl = np.broadcast_to(np.array(lo, dtype=float), (n,))
    du = np.broadcast_to(np.array(hi, dtype=float), (n,))
    for j in range(n):
        ulp = 4 * float(np.spacing(max(abs(dl[j]), abs(du[j]), 1e-300)))
        w = du[j] - dl[j]
        if not (L[j] <= dl[j] + ulp and U[j] >= du[j] - ulp):
            return ("C10:check_bounds:shrinks-declared",
                    f"check_bounds(({lo}, {hi}), {shape}, min_separation={s}) returned [{L[j]!r}, {U[j]!r}] for feature {j}, "
                    f"which does not contain the declared [{dl[j]!r}, {du[j]!r}]")
        if not U[j] - L[j] <= max(w, s) + ulp:
            return ("C10:check_bounds:widens-declared",
                    f"check_bounds(({lo}, {hi}), {shape}, min_separation={s}) returned [{L[j]!r}, {U[j]!r}] (width {U[j] - L[j]!r}) for "
                    f"feature {j}: wider than max(declared width {w!r}, min_separation {s!r}); data between the declared and the "
                    f"returned bounds would be released unclipped")
        if w >= s and (L[j] != dl[j] or U[j] != du[j]):
            return ("C10:check_bounds:widens-declared",
                    f"check_bounds(({lo}, {hi}), {shape}, min_separation={s}) changed bounds [{dl[j]!r}, {du[j]!r}] that are already "
                    f"separated by {w!r} >= {s!r} to [{L[j]!r}, {U[j]!r}]")
    return None


FIXED_CB = [
    {"lower": [1.6e9], "upper": [1.6e9 + 3600.0], "sep": 1e-5, "shape": 0, "scalar_args": True},
    {"lower": [0.0, 50000.0], "upper": [1.0, 50000.3], "sep": 1e-5, "shape": 2},
    {"lower": [3.0], "upper": [3.0], "sep": 1e-5, "shape": 0, "scalar_args": True},
]


def check_check_bounds(ctx):
    r = ctx.fork("check_bounds")
    cases = list(FIXED_CB)
    for _ in range(ctx.budget(400, 6000)):
        shape = r.choice([0, 1, 2, 3, 5])
        n = 1 if (shape == 0 or r.chance(0.3)) else shape
        sep = r.choice([0.0, 1e-5, 1e-5, 1e-3, 1.0])
        lo, hi = [], []
        for _ in range(n):
            m = r.u01()
            if m < 0.45:
                _, l, u = gen_offset_bounds(r, 0)
            elif m < 0.6:
                l = r.choice([0.0, r.uniform(-5, 5), r.loguniform(1e3, 1e10)])
                u = l + r.choice([0.0, sep / 3, sep * 0.999, float(np.spacing(abs(l) or 1.0)) * r.randint(1, 3)])
            else:
                l = r.uniform(-10, 10)
                u = l + r.choice([sep, sep * 2, r.loguniform(1e-6, 10.0), 1.0])
            lo.append(float(l))
            hi.append(float(u))
        cases.append({"lower": lo, "upper": hi, "sep": sep, "shape": shape, "scalar_args": n == 1 and r.chance(0.5)})
    for case in cases:
        v = check_bounds_case(case)
        if v:
            ctx.violation(v[0], v[1], {"kind": "check_bounds", "case": case})
        widened = any(u - l < case["sep"] for l, u in zip(case["lower"], case["upper"]))
        ctx.case(("check_bounds", case["shape"], len(case["lower"]), case["sep"], widened,
                  int(math.log10(max(abs(case["lower"][0]), 1.0)))))
    ctx.count("check_bounds_cases", len(cases))


def check_helpers(ctx):
    r = ctx.fork("helpers")
    n = ctx.budget(4000, 60000)
    cases = list(FIXED_HELPER)
    for i in range(n):
        cases.append(gen_helper_case(r) if r.chance(0.7) else gen_norm_case(r))
    lines, impl = [], []
    for case in cases:
        A0, A, out, exc = run_helper_impl(case)
        v = direct_helper(case, A0, A, out, exc)
        if v:
            ctx.violation(v[0], v[1], {"kind": "helper", "case": case})
        moved = out is not None and not _eqv(out, A0)
        key = None
        if moved:
            key = (case["op"], case.get("kind"), case["d"], tuple(np.argwhere(~((out == A0) | np.isnan(A0))).ravel().tolist()[:12]))
        ctx.case(key)
        impl.append((out, exc))
        lines.append(driver_line(case))
    ctx.sample({"helper_case": cases[7], "impl": None if impl[7][0] is None else np.asarray(impl[7][0]).tolist()})
    outs = leanio.run_driver("ClipRange", lines)
    for case, (out, exc), lo in zip(cases, impl, outs):
        if compare_model(ctx, case, out, exc, lo):
            ctx.trace_ok()
    ctx.count("helper_cases", len(cases))


# ------------------------------------------------------------------------------------------ end to end (S2)
def gen_e2e_bounds(r, d, min_width=1e-3):
    """bounds for tools/estimators -> (kind, lower(list|float), upper(list|float))"""
    m = r.u01()
    base = r.choice([0.0, -1.0, 0.5, r.uniform(-5, 5), 10.0])
    width = r.choice([1.0, 2.0, r.loguniform(max(min_width, 1e-2), 50.0), 5.0])
    if m < 0.3 or d == 0:
        return "scalar", base, base + width
    if m < 0.6:
        tiny = r.choice([1e-9, 1e-12, 1e-7, 1e-6])
        lo = [base + tiny * r.randint(0, 3) for _ in range(d)]
        hi = [base + width - tiny * r.randint(0, 3) for _ in range(d)]
        if all(x == lo[0] for x in lo) and all(x == hi[0] for x in hi):
            lo[-1] = base + tiny
        return "nearly", lo, hi
    if m < 0.7:
        return "equal", [base] * d, [base + width] * d
    lo = [base + r.uniform(-2, 2) for _ in range(d)]
    hi = [l + r.choice([width, r.uniform(0.05, 4.0)]) for l in lo]
    return "perfeature", lo, hi


def gen_offset_bounds(r, d):
    """narrow windows at a large offset: |mid| in 1e3..1e10, width in [1e-8, 1e-3]*|mid| and >= 1e-3 (always far above the absolute
    min_separation 1e-5 of quantile / KMeans, so the declared bounds are the domain)"""
    def one():
        mid = r.choice([-1.0, 1.0, 1.0]) * r.choice([1.6e9, 5e4, r.loguniform(1e3, 1e10), r.loguniform(1e3, 1e10)])
        w = max(abs(mid) * r.loguniform(1e-8, 1e-3), 1e-3)
        lo = mid - w / 2
        return lo, lo + w
    if d == 0:
        lo, hi = one()
        return "offset", lo, hi
    lo, hi = [], []
    for j in range(d):
        if j > 0 and r.chance(0.4):
            b = r.uniform(-5, 5)
            l, u = b, b + r.uniform(0.5, 3.0)
        else:
            l, u = one()
        lo.append(l)
        hi.append(u)
    return "offset", lo, hi


def gen_data_near(r, n, lo, hi, d, out_p):
    """like gen_data, but the out-of-domain records lie just outside the declared bounds (1e-6..1e-4 of the offset)"""
    cols = max(d, 1)
    L = np.broadcast_to(np.asarray(lo, dtype=float), (cols,))
    U = np.broadcast_to(np.asarray(hi, dtype=float), (cols,))
    X = np.empty((n, cols))
    for i in range(n):
        for j in range(cols):
            scale = max(abs(L[j] + U[j]) / 2, 1.0)
            if r.chance(out_p):
                off = r.choice([scale * r.loguniform(1e-6, 1e-4), (U[j] - L[j]) * r.loguniform(0.05, 2.0)])
                X[i, j] = r.choice([L[j] - off, U[j] + off])
            elif r.chance(0.08):
                X[i, j] = r.choice([L[j], U[j]])
            else:
                X[i, j] = r.uniform(L[j], U[j])
    return X


def gen_data(r, n, lo, hi, d, out_p, nan_p=0.0, inf_p=0.0):
    """n x d data (d=0: flat) with out-of-domain fraction out_p (of which a fraction inf_p is +-inf: its clipped image is
    the bound itself)"""
    cols = max(d, 1)
    L = np.broadcast_to(np.asarray(lo, dtype=float), (cols,))
    U = np.broadcast_to(np.asarray(hi, dtype=float), (cols,))
    X = np.empty((n, cols))
    for i in range(n):
        for j in range(cols):
            m = r.u01()
            w = U[j] - L[j]
            if m < out_p and inf_p and r.chance(inf_p):
                X[i, j] = r.choice([math.inf, -math.inf])
            elif m < out_p:
                X[i, j] = r.choice([L[j] - r.loguniform(1e-12, 1e3) * max(w, 1e-6), U[j] + r.loguniform(1e-12, 1e3) * max(w, 1e-6),
                                    L[j] - 50.0, U[j] + 50.0, gen.offset_ulps(float(L[j]), -1), gen.offset_ulps(float(U[j]), 1)])
            elif m < out_p + nan_p:
                X[i, j] = np.nan
            elif m < out_p + nan_p + 0.08:
                X[i, j] = r.choice([L[j], U[j]])
            else:
                X[i, j] = r.uniform(L[j], U[j])
    return X


TOOLS = ["mean", "var", "std", "sum", "nanmean", "nanvar", "nanstd", "nansum", "quantile", "median", "percentile",
         "histogram", "histogram2d", "histogramdd"]
MODELS = ["GaussianNB", "KMeans", "StandardScaler", "LinearRegression", "LinearRegression-nointercept",
          "LinearRegression-multi", "LinearRegression-multi-nointercept", "RandomForestClassifier", "DecisionTreeClassifier",
          "DecisionTreeClassifier-nocheck",
          "PCA", "LogisticRegression", "LogisticRegression-multiclass"]


def _acc():
    return dp.BudgetAccountant()


def run_tool(name, X, case):
    """one release of tool `name` on data X with the parameters of `case` -> list of numpy arrays"""
    T = dp.tools
    eps, seed = case["eps"], case["seed"]
    b = (np.array(case["lower"]) if isinstance(case["lower"], list) else case["lower"],
         np.array(case["upper"]) if isinstance(case["upper"], list) else case["upper"])
    kw = dict(epsilon=eps, random_state=seed, accountant=_acc())
    if name in ("mean", "var", "std", "sum", "nanmean", "nanvar", "nanstd", "nansum"):
        out = getattr(T, name)(X, bounds=b, axis=case.get("axis"), keepdims=case.get("keepdims", False), **kw)
        return [np.asarray(out, dtype=float)]
    if name == "quantile":
        return [np.asarray(T.quantile(X, case["q"], bounds=b, axis=case.get("axis"), **kw), dtype=float)]
    if name == "percentile":
        return [np.asarray(T.percentile(X, case["q"], bounds=b, axis=case.get("axis"), **kw), dtype=float)]
    if name == "median":
        return [np.asarray(T.median(X, bounds=b, axis=case.get("axis"), **kw), dtype=float)]
    if name == "histogram":
        h, e = T.histogram(X.ravel(), bins=case["bins"], range=(case["lower"], case["upper"]), **kw)
        return [np.asarray(h, dtype=float), np.asarray(e, dtype=float)]
    if name == "histogram2d":
        h, ex, ey = T.histogram2d(X[:, 0], X[:, 1], bins=case["bins"],
                                  range=[(case["lower"][0], case["upper"][0]), (case["lower"][1], case["upper"][1])], **kw)
        return [np.asarray(h, dtype=float), np.asarray(ex, dtype=float), np.asarray(ey, dtype=float)]
    if name == "histogramdd":
        decl = case.get("declared") or [True] * len(case["lower"])
        h, es = T.histogramdd(X, bins=case["bins"],
                              range=[(l, u) if dcl else None for l, u, dcl in zip(case["lower"], case["upper"], decl)], **kw)
        return [np.asarray(h, dtype=float)] + [np.asarray(e, dtype=float) for e in es]
    raise KeyError(name)


def _tree_state(t):
    st = t.tree_.__getstate__()
    nodes = st["nodes"]
    return [np.asarray(nodes["feature"], dtype=float), np.asarray(nodes["threshold"], dtype=float),
            np.asarray(nodes["left_child"], dtype=float), np.asarray(st["values"], dtype=float).ravel()]


def make_model(name, case):
    M = dp.models
    eps, seed = case["eps"], case["seed"]
    lo = np.array(case["lower"]) if isinstance(case.get("lower"), list) else case.get("lower")
    hi = np.array(case["upper"]) if isinstance(case.get("upper"), list) else case.get("upper")
    b = (lo, hi)
    seq = case.get("seq")
    if name == "GaussianNB":
        return M.GaussianNB(epsilon=eps, bounds=b, random_state=seed, accountant=_acc())
    if name == "KMeans":
        return M.KMeans(n_clusters=case["k"], epsilon=eps, bounds=b, random_state=seed, accountant=_acc())
    if name == "StandardScaler":
        return M.StandardScaler(epsilon=eps, bounds=b, random_state=seed, accountant=_acc())
    if name.startswith("LinearRegression"):
        ylo = np.array(case["ylower"]) if isinstance(case["ylower"], list) else case["ylower"]
        yhi = np.array(case["yupper"]) if isinstance(case["yupper"], list) else case["yupper"]
        part = case.get("partial")       # "X": only bounds_X declared, "y": only bounds_y declared (the other derived from the data)
        return M.LinearRegression(epsilon=eps, bounds_X=None if part == "y" else b, bounds_y=None if part == "X" else (ylo, yhi),
                                  fit_intercept="nointercept" not in name, random_state=seed, accountant=_acc())
    if name == "RandomForestClassifier":
        return M.RandomForestClassifier(n_estimators=2 if seq == "warm_start" else 3, epsilon=eps, bounds=b,
                                        classes=None if case.get("partial") == "bounds" else case["classes"], max_depth=3, random_state=seed, warm_start=seq == "warm_start", accountant=_acc())
    if name.startswith("DecisionTreeClassifier"):
        return M.DecisionTreeClassifier(max_depth=3, epsilon=eps, bounds=b,
                                        classes=None if case.get("partial") == "bounds" else case["classes"], random_state=seed,
                                        accountant=_acc())
    if name == "PCA":
        return M.PCA(n_components=case["k"], epsilon=eps, data_norm=case["c"], centered=True, random_state=seed, accountant=_acc())
    if name.startswith("LogisticRegression"):
        return M.LogisticRegression(epsilon=eps, data_norm=case["c"], random_state=seed, max_iter=60, warm_start=seq == "warm_start",
                                    accountant=_acc())
    raise KeyError(name)


UNSUPERVISED = ("KMeans", "StandardScaler", "PCA")


def _b(x, as_array):
    if isinstance(x, list):
        return np.array(x, dtype=float) if as_array else list(x)
    return x


def model_clip_params(name, case):
    """the clipping parameters of the case (P2) as keyword arguments of set_params"""
    arr = case.get("reuse", {}).get("array_form", True)
    if name == "PCA" or name.startswith("LogisticRegression"):
        return {"data_norm": case["c"]}
    b = (_b(case["lower"], arr), _b(case["upper"], arr))
    if name.startswith("LinearRegression"):
        return {"bounds_X": b, "bounds_y": (_b(case["ylower"], arr), _b(case["yupper"], arr))}
    return {"bounds": b}


def model_outputs(name, m, case):
    probe = np.array(case["probe"], dtype=float) if "probe" in case else None
    if name == "GaussianNB":
        return [m.theta_, m.var_, m.class_prior_, m.class_count_, m.predict_proba(probe)]
    if name == "KMeans":
        return [m.cluster_centers_, np.asarray(m.labels_, dtype=float), np.asarray(m.inertia_, dtype=float)]
    if name == "StandardScaler":
        return [m.mean_, m.var_, m.scale_, np.asarray(m.n_samples_seen_, dtype=float)]
    if name.startswith("LinearRegression"):
        return [np.asarray(m.coef_, dtype=float), np.asarray(m.intercept_, dtype=float)]
    if name == "RandomForestClassifier":
        out = [m.predict_proba(probe)]
        for t in m.estimators_:
            out += _tree_state(t)
        return out
    if name.startswith("DecisionTreeClassifier"):
        return [m.predict_proba(probe)] + _tree_state(m)
    if name == "PCA":
        return [m.components_, m.explained_variance_, m.singular_values_, m.mean_]
    if name.startswith("LogisticRegression"):
        return [m.coef_, m.intercept_]
    raise KeyError(name)


def run_model(name, X, y, case):
    """fit on (X, y) - or, for a sequence case, first on the fixed batch A and then partial_fit / refit / warm-start on (X, y) -
    and return the fitted attributes"""
    reuse = case.get("reuse")
    m = make_model(name, dict(case, **reuse["P1"]) if reuse else case)
    seq = case.get("seq")
    holder = {"m": m}

    def step(how, Xs, ys):
        m = holder["m"]
        if how == "partial_fit":
            if name == "GaussianNB":
                m.partial_fit(Xs, ys, classes=case["classes"])
            else:
                m.partial_fit(Xs)
        elif name in UNSUPERVISED:
            m.fit(Xs)
        elif name == "DecisionTreeClassifier-nocheck":
            m.fit(np.ascontiguousarray(Xs, dtype=float), np.asarray(ys), check_input=False)      # public keyword of fit
        else:
            m.fit(Xs, ys)
    if reuse:
        # a RE-USED estimator object: fitted with the clipping parameters P1, then the parameters are changed to P2 (= the
        # case's own bounds / norm) through the public API, then fitted again: P2 must be what the second fit clips to
        A = np.array(unjson(case["A"]), dtype=float)
        yA = np.array(unjson(case["yA"])) if case.get("yA") is not None else None
        step("fit", A, yA)
        p2 = model_clip_params(name, case)
        if reuse["how"] == "set_params":
            m.set_params(**p2)
        elif reuse["how"] == "attr":
            for k, v in p2.items():
                setattr(m, k, v)
        else:
            from sklearn.base import clone
            holder["m"] = clone(m).set_params(**p2)
        step(reuse["second"], X, y)
        return model_outputs(name, holder["m"], case)
    if not seq:
        step("fit", X, y)
        return model_outputs(name, m, case)
    A = np.array(unjson(case["A"]), dtype=float)
    yA = np.array(unjson(case["yA"])) if case.get("yA") is not None else None
    first, second = {"fit+partial_fit": ("fit", "partial_fit"), "partial_fit+partial_fit": ("partial_fit", "partial_fit"),
                     "refit": ("fit", "fit"), "warm_start": ("fit", "fit")}[seq]
    step(first, A, yA)
    if seq == "warm_start" and name == "RandomForestClassifier":
        m.set_params(n_estimators=4)
    step(second, X, y)
    return model_outputs(name, m, case)


def _same(outs1, outs2):
    if len(outs1) != len(outs2):
        return False
    for a, b in zip(outs1, outs2):
        a = np.asarray(a, dtype=float)
        b = np.asarray(b, dtype=float)
        if a.shape != b.shape or not bool(np.all((a == b) | (np.isnan(a) & np.isnan(b)))):
            return False
    return True


def _run_pair(fn, D, Dc, *extra):
    res = []
    for data in (D, Dc):
        try:
            with warnings.catch_warnings():
                warnings.simplefilter("ignore")
                res.append(("ok", fn(data if isinstance(data, list) else np.ascontiguousarray(data.copy()), *extra)))
        except Exception as e:  # noqa
            res.append(("exc", type(e).__name__ + ": " + str(e)[:160]))
    return res


def typed(D, dt):
    """the caller's array in its own data type (values are exactly representable there); 'pylist' = list of Python ints"""
    if not dt:
        return np.ascontiguousarray(D.copy())
    if dt == "pylist":
        return np.asarray(D).astype(np.int64).tolist()
    return np.ascontiguousarray(D.astype(dt))


def e2e_case_result(case):
    """-> (trivial?, violation (signature, what) or None)"""
    trivial, v = _e2e_case_result(case)
    if v and case.get("dtype") and case["family"] == "tool" and (case.get("axis") is not None or case.get("keepdims")):
        # the per-cell wrapper of the tools allocates its output: a result truncated to the input data type
        return trivial, ("C10:tools:axis-output-dtype", f"[data type {case['dtype']}, axis={case.get('axis')}, keepdims={case.get('keepdims')}] " + v[1])
    if v and case.get("reuse"):
        r_ = case["reuse"]
        return trivial, (v[0] + ":reuse", f"[re-used estimator: fit with {r_['P1']}, {r_['how']} to the bounds/norm below, then {r_['second']}(D)] " + v[1])
    if v and case.get("partial"):
        return trivial, (v[0] + ":partial", f"[only {case['partial']} declared, the other domain parameter derived from the data] " + v[1])
    if v and case.get("declared"):
        return trivial, (v[0] + ":partial", f"[ranges declared for dimensions {case['declared']} only] " + v[1])
    if v and (case.get("dtype") or case.get("seq")):
        v = (v[0] + (":dtype" if case.get("dtype") else "") + (":" + case["seq"] if case.get("seq") else ""),
             (f"[data type {case['dtype']}] " if case.get("dtype") else "") +
             (f"[sequence {case['seq']}: first batch A in-domain, second batch D] " if case.get("seq") else "") + v[1])
    return trivial, v


import collections
INFO = collections.Counter()


WIDENING = ("quantile", "percentile", "median", "KMeans")


def ref_bounds(case):
    """the clipping domain: the declared bounds, except that check_bounds(min_separation=1e-5) of quantile / percentile / median /
    KMeans replaces a feature narrower than 1e-5 by mid -+ 5e-6 (checked separately to be no wider than that)"""
    lo, hi = case["lower"], case["upper"]
    if case["name"] not in WIDENING:
        return lo, hi
    L = np.atleast_1d(np.asarray(lo, dtype=float)).copy()
    U = np.atleast_1d(np.asarray(hi, dtype=float)).copy()
    for j in range(L.size):
        if U[j] - L[j] < 1e-5:
            mid = (U[j] + L[j]) / 2
            L[j], U[j] = mid - 1e-5 / 2, mid + 1e-5 / 2
    return (L.tolist(), U.tolist()) if isinstance(lo, list) else (float(L[0]), float(U[0]))


def _e2e_case_result(case):
    name = case["name"]
    D = np.array(unjson(case["D"]), dtype=float)
    dt = case.get("dtype")
    if case["family"] == "tool":
        if name.startswith("histogram"):
            lo = np.broadcast_to(np.asarray(case["lower"], dtype=float), (D.shape[1],) if D.ndim == 2 else ())
            hi = np.broadcast_to(np.asarray(case["upper"], dtype=float), (D.shape[1],) if D.ndim == 2 else ())
            with np.errstate(invalid="ignore"):
                keep = ((D >= lo) & (D <= hi))
            if case.get("declared"):
                keep = keep | ~np.array(case["declared"], dtype=bool)      # only the declared ranges select
            keep = keep.all(axis=1) if D.ndim == 2 else keep
            Dc = D[keep]
        else:
            rl, ru = ref_bounds(case)
            Dc = ref_clip(D, rl, ru) if D.ndim == 2 else np.minimum(np.maximum(D, rl), ru)
        (k1, o1), (k2, o2) = _run_pair(lambda X: run_tool(name, X, case), typed(D, dt), Dc)
    else:
        y = np.array(unjson(case["y"])) if case.get("y") is not None else None
        if name == "PCA" or name.startswith("LogisticRegression"):
            Dc = ref_norm_image(D, case["c"])
            yc = y
        else:
            Dc = ref_clip(D, *ref_bounds(case))
            yc = y
            if name.startswith("LinearRegression"):
                yc = ref_clip(y, case["ylower"], case["yupper"]) if y.ndim == 2 else \
                    np.minimum(np.maximum(y, case["ylower"]), case["yupper"])
                if case.get("partial") == "X":
                    yc = y                   # only the DECLARED domain is clipped in the reference image
                elif case.get("partial") == "y":
                    Dc = D
        res = []
        for data, yy in ((typed(D, dt), y), (Dc, yc)):
            try:
                with warnings.catch_warnings():
                    warnings.simplefilter("ignore")
                    res.append(("ok", run_model(name, np.ascontiguousarray(data.copy()), None if yy is None else yy.copy(), case)))
            except Exception as e:  # noqa
                res.append(("exc", type(e).__name__ + ": " + str(e)[:160]))
        (k1, o1), (k2, o2) = res
        if case.get("reuse") and case["reuse"]["second"] == "fit" and k1 == "ok":
            fresh = {k: v for k, v in case.items() if k not in ("reuse", "A", "yA")}
            try:
                with warnings.catch_warnings():
                    warnings.simplefilter("ignore")
                    o3 = run_model(name, np.ascontiguousarray(D.copy()), None if y is None else y.copy(), fresh)
                k3 = "ok"
            except Exception as e:  # noqa
                k3, o3 = "exc", type(e).__name__ + ": " + str(e)[:160]
            # informational only: "re-used == fresh" is more than C10 states (C10 is f(D) == f(clip(D)) with the CURRENT
            # parameters, both sides built through the identical sequence); counted, never a violation
            INFO["reuse_vs_fresh:" + name + (":same" if k3 == "ok" and _same(o1, o3) else ":differs")] += 1
    trivial = _eqv(D, Dc) if D.shape == Dc.shape else False
    if case["family"] == "model" and name.startswith("LinearRegression") and trivial:
        trivial = _eqv(y, yc)
    if case.get("partial") or case.get("declared"):
        trivial = False
    if k1 != k2 or (k1 == "exc" and o1.split(":")[0] != o2.split(":")[0]):
        return trivial, (f"C10:{name}:clip-invariance",
                         f"{name} on D and on clip(D) (seed {case['seed']}): {k1} {o1 if k1 == 'exc' else ''} vs {k2} {o2 if k2 == 'exc' else ''}")
    if k1 == "exc":
        return True, None
    if not _same(o1, o2):
        a = np.concatenate([np.asarray(x, dtype=float).ravel() for x in o1])
        b = np.concatenate([np.asarray(x, dtype=float).ravel() for x in o2])
        if a.shape == b.shape:
            diff = np.argwhere(~((a == b) | (np.isnan(a) & np.isnan(b)))).ravel()[:4]
            a, b = a[diff].tolist(), b[diff].tolist()
        else:
            a, b = a[:4].tolist(), b[:4].tolist()
        return trivial, (f"C10:{name}:clip-invariance",
                         f"{name}(D, seed={case['seed']}) != {name}(clip(D), seed={case['seed']}) with bounds "
                         f"({case.get('lower')}, {case.get('upper')}) / norm {case.get('c')}: {a} vs {b}")
    return trivial, None


def ref_norm_image(D, c):
    """rows rescaled to the norm ball exactly as floats do it: x / (||x||/c) when ||x||/c >= 1 (numpy arithmetic,
    independent of the library helper)"""
    D = np.asarray(D, dtype=float)
    out = D.copy()
    for i in range(D.shape[0]):
        n = np.sqrt(np.add.reduce(D[i] * D[i])) / c
        if not n < 1:
            out[i] = D[i] / n
    return out


def fixed_point_rows(r, n, d, c, out_p):
    """rows for norm-domain estimators: out-of-ball rows are redrawn until their rescaled image is an exact fixed point of
    the rescaling, so that f(D) == f(image(D)) is expected bit for bit"""
    rows = []
    while len(rows) < n:
        v = np.array([r.normal() for _ in range(d)])
        nv = float(np.linalg.norm(v)) or 1.0
        if r.chance(out_p):
            if r.chance(0.4):
                x = v * (c * (1.0 + r.choice(SHELL) * r.uniform(0.5, 1.0)) / nv)     # a hair above the norm
            else:
                x = v * (c * r.loguniform(1.001, 1e3) / nv)
            img = ref_norm_image(x[None, :], c)
            if not _eqv(ref_norm_image(img, c), img):
                continue
        else:
            x = v * (c * r.uniform(0.05, 0.98) / nv)
        rows.append(x.tolist())
    return rows


def gen_e2e_case(r, name, family):
    eps = r.choice([1.0, 0.5, 5.0, r.loguniform(0.05, 20.0)])
    seed = r.randint(0, 2 ** 31 - 2)
    out_p = r.choice([0.0, 0.05, 0.2, 0.2, 0.6])
    case = {"family": family, "name": name, "eps": eps, "seed": seed}
    if family == "tool":
        if name.startswith("histogram"):
            d = {"histogram": 0, "histogram2d": 2, "histogramdd": r.choice([1, 2, 3])}[name]
            if d == 0:
                _, lo, hi = gen_e2e_bounds(r, 0)
            else:
                lo = [r.uniform(-3, 3) for _ in range(d)]
                hi = [l + r.uniform(0.5, 4.0) for l in lo]
            n = r.randint(5, 60)
            X = gen_data(r, n, lo, hi, d, out_p)
            case.update(lower=lo, upper=hi, bins=r.choice([3, 5, 10]), D=X.ravel().tolist() if d == 0 else X.tolist())
            return case
        axis = r.choice([None, None, 0, 1]) if name not in ("quantile", "percentile", "median") else r.choice([None, None, 0])
        n, d = r.randint(2, 40), r.randint(1, 4)
        if axis == 0:
            kind, lo, hi = gen_e2e_bounds(r, d, min_width=1e-3)
        else:
            kind, lo, hi = gen_e2e_bounds(r, 0, min_width=1e-3)
        nan_p = 0.15 if name.startswith("nan") else 0.0
        # +-inf records (a third of the cases with out-of-domain data): out of domain like any other, image = the bound
        X = gen_data(r, n, lo, hi, d, out_p, nan_p, inf_p=r.choice([0.0, 0.0, 0.3]))
        if name in ("quantile", "percentile", "median") and r.chance(0.4):
            # callers of check_bounds(min_separation=1e-5): a narrow window at a large offset must not be widened
            kind, lo, hi = gen_offset_bounds(r, d if axis == 0 else 0)
            X = gen_data_near(r, n, lo, hi, d, max(out_p, 0.2))
        case.update(lower=lo, upper=hi, axis=axis, keepdims=r.chance(0.3), D=X.tolist(), bkind=kind)
        if name == "quantile":
            case["q"] = r.choice([0.5, 0.1, 0.9, [0.25, 0.75], r.uniform(0, 1)])
        if name == "percentile":
            case["q"] = r.choice([50, 10, 90, [25, 75]])
        return case
    # estimators
    if name == "PCA" or name.startswith("LogisticRegression"):
        d = r.randint(2, 5)
        n = r.randint(12, 40)
        c = r.choice([1.0, 2.0, r.loguniform(0.1, 20.0)])
        rows = fixed_point_rows(r, n, d, c, out_p)
        case.update(c=c, D=rows)
        if name == "PCA":
            case["k"] = r.randint(1, d)
        else:
            ncl = 3 if "multiclass" in name else 2
            y = [i % ncl for i in range(n)]
            r.shuffle(y)
            case["y"] = y
        return case
    d = r.randint(1, 4)
    n = r.randint(10, 50)
    kind, lo, hi = gen_e2e_bounds(r, d, min_width=1e-2)
    X = gen_data(r, n, lo, hi, d, out_p)
    if name == "KMeans" and r.chance(0.4):
        kind, lo, hi = gen_offset_bounds(r, d)
        X = gen_data_near(r, n, lo, hi, d, max(out_p, 0.2))
    case.update(lower=lo, upper=hi, D=X.tolist(), bkind=kind)
    L = np.broadcast_to(np.asarray(lo, dtype=float), (d,))
    U = np.broadcast_to(np.asarray(hi, dtype=float), (d,))
    case["probe"] = [[r.uniform(L[j] - 1, U[j] + 1) for j in range(d)] for _ in range(6)]
    if name in ("GaussianNB", "RandomForestClassifier", "DecisionTreeClassifier", "DecisionTreeClassifier-nocheck"):
        y = [i % 2 for i in range(n)]
        r.shuffle(y)
        case["y"] = y
        case["classes"] = [0, 1]
    if name == "KMeans":
        case["k"] = r.choice([2, 3])
    if name.startswith("LinearRegression"):
        t = r.choice([2, 3]) if "multi" in name else 1
        if t == 1:
            _, ylo, yhi = gen_e2e_bounds(r, 0)
            Y = gen_data(r, n, ylo, yhi, 0, out_p).ravel()
        else:
            _, ylo, yhi = gen_e2e_bounds(r, t)
            Y = gen_data(r, n, ylo, yhi, t, out_p)
        case.update(ylower=ylo, yupper=yhi, y=Y.tolist())
    return case


TYPED_TOOLS = ["mean", "var", "std", "sum", "nanmean", "nanvar", "nanstd", "nansum", "quantile", "median", "percentile"]
TYPED_MODELS = {"GaussianNB": ["int64", "int32", "float32"], "KMeans": ["float32"], "StandardScaler": ["float32"],
                # float32 X with bounds float32 cannot represent (0.1, 0.7, -0.3): clipping must use the DECLARED bounds, not
                # their image in the data type (seeded change C10-15)
                "LinearRegression": ["float32", "int64"], "LinearRegression-nointercept": ["float32", "int32"],
                "LinearRegression-multi": ["float32"]}
SEQ_MODELS = {"GaussianNB": ["fit+partial_fit", "partial_fit+partial_fit"], "StandardScaler": ["fit+partial_fit", "partial_fit+partial_fit"],
              "RandomForestClassifier": ["warm_start"], "KMeans": ["refit"], "LinearRegression": ["refit"],
              "LinearRegression-nointercept": ["refit"], "LinearRegression-multi": ["refit"], "DecisionTreeClassifier": ["refit"],
              "PCA": ["refit"], "LogisticRegression": ["refit", "warm_start"]}


def add_dtype(r, case):
    """turn a generated case into one whose data is integer / bool / float32 typed (as the caller would pass it) with bounds
    that the data type cannot represent; the library must still clip to the declared (float) bounds"""
    name = case["name"]
    dt = r.choice(["int64", "int32", "bool", "pylist", "float32"]) if case["family"] == "tool" else r.choice(TYPED_MODELS[name])
    D = np.array(case["D"], dtype=float)
    c = 0 if dt == "bool" else r.randint(-3, 3)
    per = isinstance(case["lower"], list)
    n = len(case["lower"]) if per else 1
    if dt == "bool":
        los, his = [r.choice([0.25, 0.5, 0.1]) for _ in range(n)], [r.choice([0.75, 0.9, 0.6]) for _ in range(n)]
    else:
        los = [c + r.choice([0.5, 0.25, 0.1, -0.5]) for _ in range(n)]
        his = [l + r.choice([2.0, 1.5, 2.6, 3.3]) for l in los]
    if per and n > 1 and r.chance(0.4):
        his = [his[0]] * n
        los = [los[0]] * (n - 1) + [los[0] + 1e-9]        # nearly equal per-feature bounds
    case["lower"], case["upper"] = (los, his) if per else (los[0], his[0])
    if dt == "bool":
        vals = (np.array([[r.randint(0, 1) for _ in range(D.size)]]).reshape(D.shape)).astype(float)
    elif dt == "float32":
        vals = np.array([float(np.float32(r.uniform(c - 4, c + 7))) for _ in range(D.size)]).reshape(D.shape)
    else:
        vals = np.array([float(r.randint(c - 4, c + 7)) for _ in range(D.size)]).reshape(D.shape)
    case["D"] = vals.tolist()
    if dt == "float32" and name.startswith("LinearRegression") and case.get("y") is not None:
        # LinearRegression converts y to X's data type before clipping: keep the targets exactly representable there, so that
        # the comparison isolates the clipping (f on float32 data vs f on its float64 clipped image)
        case["y"] = np.asarray(unjson(case["y"]), dtype=float).astype(np.float32).astype(float).tolist()
    case["dtype"] = dt
    case["bkind"] = (case.get("bkind") or "") + "+" + dt
    if "probe" in case:
        case["probe"] = [[float(c + r.uniform(-2, 5)) for _ in row] for row in case["probe"]]
    return case


def add_seq(r, case):
    """fit(A) then partial_fit / refit / warm-start on the case's data D: the later batch must be clipped like the first"""
    name = case["name"]
    case["seq"] = r.choice(SEQ_MODELS[name])
    nA = r.randint(10, 30)
    if name == "PCA" or name.startswith("LogisticRegression"):
        d = len(case["D"][0])
        case["A"] = fixed_point_rows(r, nA, d, case["c"], 0.1)
        if name != "PCA":
            ncl = 3 if "multiclass" in name else 2
            yA = [i % ncl for i in range(nA)]
            r.shuffle(yA)
            case["yA"] = yA
        return case
    d = len(case["D"][0])
    case["A"] = gen_data(r, nA, case["lower"], case["upper"], d, 0.1).tolist()
    if "classes" in case:
        yA = [i % 2 for i in range(nA)]
        r.shuffle(yA)
        case["yA"] = yA
    if name.startswith("LinearRegression"):
        t = len(case["y"][0]) if isinstance(case["y"][0], list) else 0
        YA = gen_data(r, nA, case["ylower"], case["yupper"], t, 0.1)
        case["yA"] = YA.tolist() if t else YA.ravel().tolist()
    return case


REUSE_MODELS = ["GaussianNB", "KMeans", "StandardScaler", "LinearRegression", "LinearRegression-nointercept", "LinearRegression-multi",
                "RandomForestClassifier", "DecisionTreeClassifier", "PCA", "LogisticRegression"]


def _other_bounds(r, lo, hi):
    """P1 relative to P2 = (lo, hi): narrower, wider or shifted; scalar or per-feature form"""
    L = np.atleast_1d(np.asarray(lo, dtype=float))
    U = np.atleast_1d(np.asarray(hi, dtype=float))
    W = U - L
    k = r.choice(["narrower", "wider", "shifted", "shifted"])
    if k == "narrower":
        l1, u1 = L + W * r.uniform(0.1, 0.4), U - W * r.uniform(0.1, 0.4)
    elif k == "wider":
        l1, u1 = L - W * r.uniform(0.5, 3.0), U + W * r.uniform(0.5, 3.0)
    else:
        sh = W * r.choice([-1.0, 1.0]) * r.uniform(0.5, 3.0)
        l1, u1 = L + sh, U + sh
    if isinstance(lo, list) and not r.chance(0.3):
        return l1.tolist(), u1.tolist()
    return float(l1.min()), float(u1.max())


def add_reuse(r, case):
    name = case["name"]
    how = r.choice(["set_params", "attr", "clone"])
    second = "fit"
    if name in ("GaussianNB", "StandardScaler") and how != "clone" and r.chance(0.35):
        second = "partial_fit"
    P1 = {}
    nA = r.randint(10, 30)
    d = len(case["D"][0])
    if name == "PCA" or name.startswith("LogisticRegression"):
        P1["c"] = case["c"] * r.choice([0.3, 0.5, 2.0, 4.0])
        case["A"] = fixed_point_rows(r, nA, d, P1["c"], 0.1)
        if name != "PCA":
            yA = [i % 2 for i in range(nA)]
            r.shuffle(yA)
            case["yA"] = yA
    else:
        P1["lower"], P1["upper"] = _other_bounds(r, case["lower"], case["upper"])
        case["A"] = gen_data(r, nA, P1["lower"], P1["upper"], d, 0.1).tolist()
        if "classes" in case:
            yA = [i % 2 for i in range(nA)]
            r.shuffle(yA)
            case["yA"] = yA
        if name.startswith("LinearRegression"):
            P1["ylower"], P1["yupper"] = _other_bounds(r, case["ylower"], case["yupper"])
            t = len(case["y"][0]) if isinstance(case["y"][0], list) else 0
            if t and not isinstance(P1["ylower"], list):
                pass
            YA = gen_data(r, nA, P1["ylower"], P1["yupper"], t, 0.1)
            case["yA"] = YA.tolist() if t else YA.ravel().tolist()
    case["reuse"] = {"how": how, "second": second, "P1": P1, "array_form": r.chance(0.6)}
    case["bkind"] = (case.get("bkind") or "") + "+reuse-" + how + "-" + second
    return case


DEGENERATE_TOOLS = ["mean", "var", "std", "sum", "nanmean", "nanvar", "nanstd", "nansum", "quantile", "median", "percentile"]
DEGENERATE_MODELS = ["GaussianNB", "KMeans", "StandardScaler", "LinearRegression", "LinearRegression-nointercept", "LinearRegression-multi",
                     "RandomForestClassifier", "DecisionTreeClassifier", "DecisionTreeClassifier-nocheck"]


def add_degenerate(r, case):
    """degenerate per-feature bounds - zero-width features among ordinary ones, all features zero-width, a width of one ulp -
    with records above AND below the degenerate value and records exactly ON a bound / a midpoint (where split thresholds of
    the trees are drawn)"""
    D = np.array(case["D"], dtype=float)
    per = isinstance(case["lower"], list)
    d = len(case["lower"]) if per else 1
    all_zero = r.chance(0.2)
    f32 = case["name"] in ("RandomForestClassifier", "DecisionTreeClassifier")
    lo, hi, kinds = [], [], []
    for j in range(d):
        v = r.choice([0.0, 1.0, -2.5, r.uniform(-5, 5), float(r.randint(-3, 3))])
        k = "zero" if all_zero else r.choice(["zero", "zero", "ulp", "ordinary", "ordinary"])
        kinds.append(k)
        if f32:
            # the forest / tree cast the data to float32: bounds that float32 cannot represent make cast-then-clip and
            # clip-then-cast differ by a float32 rounding (an artefact of the cast, visible only for widths of a few float64 ulps)
            v = float(np.float32(v))
            u = v if k == "zero" else float(v + np.spacing(np.float32(v)) * r.randint(1, 2)) if k == "ulp" else \
                float(np.float32(v + r.choice([1.0, 9.0, r.uniform(0.1, 4.0)])))
        else:
            u = v if k == "zero" else gen.offset_ulps(v, r.randint(1, 2)) if k == "ulp" else v + r.choice([1.0, 9.0, r.uniform(0.1, 4.0)])
        lo.append(v)
        hi.append(u)
    if all(k == "ordinary" for k in kinds):
        j = r.randint(0, d - 1)
        kinds[j], hi[j] = "zero", lo[j]
    cols = D.shape[1] if D.ndim == 2 else 1
    X = np.empty((D.shape[0], cols))
    for i in range(X.shape[0]):
        for c in range(cols):
            j = c if per else 0
            l, u = lo[j], hi[j]
            w = (u - l) or 1.0
            m = r.u01()
            if m < 0.3:
                X[i, c] = r.choice([l, u, (l + u) / 2, l + (u - l) / 4])
            elif m < 0.55:
                X[i, c] = u + r.choice([float(np.spacing(abs(u) or 1.0)), 1e-9, 0.5, 2.0, 50.0, w * r.uniform(0, 3)])
            elif m < 0.8:
                X[i, c] = l - r.choice([float(np.spacing(abs(l) or 1.0)), 1e-9, 0.5, 2.0, 50.0, w * r.uniform(0, 3)])
            else:
                X[i, c] = r.uniform(l, u)
    case["lower"], case["upper"] = (lo, hi) if per else (lo[0], hi[0])
    case["D"] = X.tolist() if D.ndim == 2 else X.ravel().tolist()
    case["bkind"] = "degenerate-" + "".join(k[0] for k in kinds)
    if "probe" in case:
        L = np.broadcast_to(np.array(lo), (cols,))
        U = np.broadcast_to(np.array(hi), (cols,))
        case["probe"] = [[r.choice([L[c], U[c], (L[c] + U[c]) / 2, L[c] - 1.0, U[c] + 1.0, r.uniform(L[c] - 1, U[c] + 1)]) for c in range(cols)]
                         for _ in range(8)]
    return case


def gen_degenerate_case(r, name, family):
    for _ in range(20):
        case = gen_e2e_case(r, name, family)
        if family == "tool" and case.get("bkind") == "offset":
            continue
        if family == "model" and not isinstance(case["lower"], list):
            case["lower"] = [case["lower"]] * len(case["D"][0])
            case["upper"] = [case["upper"]] * len(case["D"][0])
        return add_degenerate(r, case)
    return add_degenerate(r, case)


PARTIAL_MODELS = {"LinearRegression": ["X", "y"], "LinearRegression-nointercept": ["X", "y"], "LinearRegression-multi": ["X", "y"],
                  "LinearRegression-multi-nointercept": ["X", "y"], "RandomForestClassifier": ["bounds"],
                  "DecisionTreeClassifier": ["bounds"]}


def add_partial(r, case):
    """only ONE of several domain parameters declared (the other falls back to the data, PrivacyLeakWarning ignored): records
    outside the DECLARED domain must still be clipped to it"""
    case["partial"] = r.choice(PARTIAL_MODELS[case["name"]])
    case["bkind"] = (case.get("bkind") or "") + "+partial-" + case["partial"]
    return case


def gen_histdd_partial(r):
    """histogramdd with ranges for some dimensions only; records outside a declared range carry interior values in the
    undeclared dimensions, so that dropping them does not move the data-derived ranges"""
    case = gen_e2e_case(r, "histogramdd", "tool")
    d = r.choice([2, 3])
    lo = [r.uniform(-3, 3) for _ in range(d)]
    hi = [l + r.uniform(0.5, 4.0) for l in lo]
    decl = [True] + [r.chance(0.5) for _ in range(d - 1)]
    if all(decl):
        decl[-1] = False
    r.shuffle(decl)
    n = r.randint(12, 60)
    X = gen_data(r, n, lo, hi, d, r.choice([0.1, 0.2, 0.4]))
    X[:4] = np.array([[r.uniform(lo[j], hi[j]) for j in range(d)] for _ in range(4)])      # some records certainly kept
    keep = np.all([(X[:, j] >= lo[j]) & (X[:, j] <= hi[j]) | (not decl[j]) for j in range(d)], axis=0)
    for j in range(d):
        if not decl[j]:
            a, b = X[keep, j].min(), X[keep, j].max()
            for i in np.flatnonzero(~keep):
                X[i, j] = r.uniform(a, b)
    case.update(lower=lo, upper=hi, declared=decl, D=X.tolist(), bkind="partial-range")
    return case


def _seq_rows(n, d, lo, hi, far):
    rs = np.random.RandomState(42)
    X = rs.uniform(lo, hi, size=(n, d))
    for i, row in far:
        X[i] = row
    return X.tolist()


FIXED_E2E = [
    # regression witness of fix 97b16d1: LinearRegression(fit_intercept=False) with one row far outside the bounds
    {"family": "model", "name": "LinearRegression-nointercept", "eps": 1.0, "seed": 7, "lower": 0.0, "upper": 1.0,
     "ylower": 0.0, "yupper": 1.0, "D": [[0.1], [0.5], [0.9], [50.0], [0.3], [0.7]], "y": [0.1, 0.5, 0.9, 0.2, 0.3, 0.7]},
    # regression witness of fix bfc57c7 at a call site: per-feature bounds that np.allclose would have merged
    {"family": "model", "name": "StandardScaler", "eps": 1.0, "seed": 3, "lower": [0.0, 1e-6], "upper": [1.0, 1.0 - 1e-6],
     "D": [[0.0, 0.0], [1.0, 1.0], [0.5, 0.5], [0.2, 1e-7], [2.0, -1.0], [0.9, 0.999999999]], "probe": [[0.0, 0.0]]},
]


FIXED_E2E += [
    # integer data, fractional scalar bounds, through a tool and through GaussianNB (the tools do not cast the caller's array)
    {"family": "tool", "name": "mean", "eps": 1.0, "seed": 11, "lower": 0.5, "upper": 2.5, "axis": None, "keepdims": False,
     "D": [[0, 1], [2, 3], [10, -7]], "dtype": "int64", "bkind": "scalar+int64"},
    {"family": "tool", "name": "sum", "eps": 1.0, "seed": 12, "lower": 0.25, "upper": 0.75, "axis": None, "keepdims": False,
     "D": [[1, 0], [1, 1], [0, 1]], "dtype": "bool", "bkind": "scalar+bool"},
    {"family": "model", "name": "GaussianNB", "eps": 1.0, "seed": 1, "lower": [0.5, 0.25], "upper": [2.5, 2.75], "dtype": "int64",
     "D": [[0, 1], [2, 3], [10, -7], [1, 1], [2, 2], [0, 3]] * 3, "y": [0, 1] * 9, "classes": [0, 1], "probe": [[1.0, 1.0]],
     "bkind": "perfeature+int64"},
    {"family": "model", "name": "GaussianNB", "eps": 1.0, "seed": 1, "lower": 0.5, "upper": 2.5, "dtype": "int64",
     "D": [[0, 1], [2, 3], [10, -7], [1, 1], [2, 2], [0, 3]] * 3, "y": [0, 1] * 9, "classes": [0, 1], "probe": [[1.0, 1.0]],
     "bkind": "scalar+int64"},
    # rows a hair above the data norm (a tolerance test on the norms would leave them unscaled)
    {"family": "model", "name": "PCA", "eps": 1.0, "seed": 2, "c": 2.0, "k": 2,
     "D": [[2.0 * (1 + 5e-6), 0.0, 0.0], [0.0, 2.0 * (1 + 1e-6), 0.0], [0.0, 0.0, 2.0 * (1 + 9e-6)], [1.0, 0.5, 0.2], [0.3, -1.0, 0.4],
           [-0.5, 0.1, 1.5], [0.2, 0.2, -0.7], [1.1, -0.3, 0.0], [-0.9, 0.8, 0.3], [0.4, 0.6, -1.2]]},
    # later batches must be clipped like the first one
    {"family": "model", "name": "GaussianNB", "eps": 2.0, "seed": 0, "lower": [0.0, -1.0], "upper": [1.0, 1.0], "seq": "fit+partial_fit",
     "A": _seq_rows(30, 2, [0.0, -1.0], [1.0, 1.0], []), "yA": [i % 2 for i in range(30)],
     "D": _seq_rows(30, 2, [0.0, -1.0], [1.0, 1.0], [(0, [250.0, 0.3]), (1, [0.5, -80.0]), (7, [-3.0, 40.0])]),
     "y": [i % 2 for i in range(30)], "classes": [0, 1], "probe": [[0.5, 0.0]], "bkind": "perfeature"},
    {"family": "model", "name": "GaussianNB", "eps": 2.0, "seed": 0, "lower": [0.0, -1.0], "upper": [1.0, 1.0], "seq": "partial_fit+partial_fit",
     "A": _seq_rows(30, 2, [0.0, -1.0], [1.0, 1.0], []), "yA": [i % 2 for i in range(30)],
     "D": _seq_rows(30, 2, [0.0, -1.0], [1.0, 1.0], [(0, [250.0, 0.3]), (1, [0.5, -80.0]), (7, [-3.0, 40.0])]),
     "y": [i % 2 for i in range(30)], "classes": [0, 1], "probe": [[0.5, 0.0]], "bkind": "perfeature"},
]


FIXED_E2E += [
    # a one-hour window of timestamps / a narrow per-feature window at a large offset: the declared bounds are the domain
    {"family": "tool", "name": "quantile", "eps": 1.0, "seed": 0, "lower": 1.6e9, "upper": 1.6e9 + 3600.0, "axis": None, "keepdims": False,
     "q": 0.9, "bkind": "offset", "D": [1.6e9 + t for t in (100., 700., 1300., 1800., 2500., 3100., 3500., -5000., -2500., 6100., 9600.)]},
    {"family": "model", "name": "KMeans", "eps": 50.0, "seed": 0, "k": 2, "lower": [0.0, 50000.0], "upper": [1.0, 50000.3], "bkind": "offset",
     "D": [[(i * 0.37) % 1.0, 50000.0 + ((i * 0.11) % 0.3)] for i in range(48)] + [[0.5, 50000.39]] * 6 + [[0.2, 49999.91]] * 6},
    # exactly one of bounds_X / bounds_y declared: the declared one must still be the clipping domain
    {"family": "model", "name": "LinearRegression", "eps": 1.0, "seed": 4, "partial": "X", "lower": 0.0, "upper": 1.0, "ylower": 0.0,
     "yupper": 1.0, "D": [[0.1], [0.5], [0.9], [50.0], [0.3], [0.7], [-20.0], [0.6]], "y": [0.1, 0.5, 0.9, 0.2, 0.3, 0.7, 0.4, 0.6],
     "bkind": "scalar+partial-X"},
    {"family": "model", "name": "LinearRegression", "eps": 1.0, "seed": 4, "partial": "y", "lower": 0.0, "upper": 1.0, "ylower": 0.0,
     "yupper": 1.0, "D": [[0.1], [0.5], [0.9], [0.2], [0.3], [0.7], [0.4], [0.6]], "y": [0.1, 0.5, 0.9, 30.0, 0.3, 0.7, -12.0, 0.6],
     "bkind": "scalar+partial-y"},
]


FIXED_E2E += [
    # a re-used estimator must clip to (and calibrate with) the bounds it has NOW, not the ones of its first fit: the equality
    # checked is f(D) == f(clip_P2(D)), both sides built through the identical sequence fit(A, P1); set P2; fit(.)
    {"family": "model", "name": "StandardScaler", "eps": 1.0, "seed": 5, "lower": 0.2, "upper": 0.6, "bkind": "scalar+reuse",
     "reuse": {"how": "set_params", "second": "fit", "P1": {"lower": 0.0, "upper": 1.0}, "array_form": False},
     "A": _seq_rows(20, 2, [0.0, 0.0], [1.0, 1.0], []), "D": _seq_rows(24, 2, [0.0, 0.0], [1.0, 1.0], [(0, [5.0, -3.0])]), "probe": [[0.3, 0.3]]},
    {"family": "model", "name": "StandardScaler", "eps": 1.0, "seed": 5, "lower": [0.2, 0.1], "upper": [0.6, 0.9], "bkind": "perfeature+reuse",
     "reuse": {"how": "attr", "second": "partial_fit", "P1": {"lower": 0.0, "upper": 1.0}, "array_form": True},
     "A": _seq_rows(20, 2, [0.0, 0.0], [1.0, 1.0], []), "D": _seq_rows(24, 2, [0.0, 0.0], [1.0, 1.0], [(0, [5.0, -3.0])]), "probe": [[0.3, 0.3]]},
    {"family": "model", "name": "KMeans", "eps": 5.0, "seed": 0, "k": 2, "lower": 10.0, "upper": 11.0, "bkind": "scalar+reuse",
     "reuse": {"how": "set_params", "second": "fit", "P1": {"lower": 0.0, "upper": 1.0}, "array_form": False},
     "A": _seq_rows(40, 2, [0.0, 0.0], [1.0, 1.0], []), "D": _seq_rows(40, 2, [10.0, 10.0], [11.0, 11.0], [(3, [12.5, 9.0])])},
]


FIXED_E2E += [
    # a zero-width feature among ordinary ones: records above the degenerate value must reach the trees clipped
    {"family": "model", "name": "RandomForestClassifier", "eps": 1.0, "seed": 3, "lower": [0.0, 1.0], "upper": [10.0, 1.0], "classes": [0, 1],
     "bkind": "degenerate-oz", "D": [[float(i % 10), 3.0 if i % 3 == 0 else 1.0] for i in range(30)], "y": [i % 2 for i in range(30)],
     "probe": [[2.0, 1.0], [7.0, 1.0], [5.0, 3.0], [5.0, 0.0]]},
    {"family": "model", "name": "DecisionTreeClassifier-nocheck", "eps": 1.0, "seed": 3, "lower": [0.0, 1.0], "upper": [10.0, 1.0], "classes": [0, 1],
     "bkind": "degenerate-oz", "D": [[float(i % 10), 3.0 if i % 3 == 0 else 1.0] for i in range(30)], "y": [i % 2 for i in range(30)],
     "probe": [[2.0, 1.0], [7.0, 1.0], [5.0, 3.0], [5.0, 0.0]]},
    {"family": "model", "name": "DecisionTreeClassifier-nocheck", "eps": 1.0, "seed": 8, "lower": [0.0, 0.0], "upper": [1.0, 1.0], "classes": [0, 1],
     "bkind": "scalar", "D": [[(i * 0.37) % 1.0, (i * 0.53) % 1.0] for i in range(24)] + [[5.0, -3.0], [-2.0, 0.5], [0.5, 9.0]],
     "y": [i % 2 for i in range(27)], "probe": [[0.2, 0.2], [0.8, 0.8], [0.5, 0.1]]},
]


def check_e2e(ctx):
    r = ctx.fork("e2e")
    per_tool = ctx.budget(40, 400)
    per_model = ctx.budget(16, 150)
    cases = list(FIXED_E2E)
    for name in TOOLS:
        for _ in range(per_tool):
            cases.append(gen_e2e_case(r, name, "tool"))
        if name in TYPED_TOOLS:
            for _ in range(max(2, per_tool // 3)):
                cases.append(add_dtype(r, gen_e2e_case(r, name, "tool")))
        if name == "histogramdd":
            for _ in range(max(2, per_tool // 3)):
                cases.append(gen_histdd_partial(r))
        if name in DEGENERATE_TOOLS:
            for _ in range(max(2, per_tool // 4)):
                cases.append(gen_degenerate_case(r, name, "tool"))
    for name in MODELS:
        for _ in range(per_model):
            cases.append(gen_e2e_case(r, name, "model"))
        if name in TYPED_MODELS:
            for _ in range(max(2, per_model // 2)):
                cases.append(add_dtype(r, gen_e2e_case(r, name, "model")))
        if name in SEQ_MODELS:
            for _ in range(max(2, per_model // 2)):
                cases.append(add_seq(r, gen_e2e_case(r, name, "model")))
        if name in PARTIAL_MODELS:
            for _ in range(max(2, per_model // 2)):
                cases.append(add_partial(r, gen_e2e_case(r, name, "model")))
        if name in DEGENERATE_MODELS:
            for _ in range(max(3, per_model // 2)):
                cases.append(gen_degenerate_case(r, name, "model"))
        if name in REUSE_MODELS:
            for _ in range(max(3, per_model // 2)):
                cases.append(add_reuse(r, gen_e2e_case(r, name, "model")))
    for i, case in enumerate(cases):
        trivial, v = e2e_case_result(case)
        if v:
            ctx.violation(v[0], v[1], {"kind": "e2e", "case": case})
        ctx.case(None if trivial else (case["name"], case.get("bkind"), case.get("axis"), case.get("seq"), case["seed"]))
        ctx.count("e2e:" + case["name"] + ("+dtype" if case.get("dtype") else "") + ("+seq" if case.get("seq") else "") + ("+reuse" if case.get("reuse") else ""))
        if not trivial and v is None:
            ctx.trace_ok()
    for k, n_ in INFO.items():
        ctx.count(k, n_)
    INFO.clear()
    ctx.sample({"e2e_case": {k: (v if k not in ("D", "y", "probe") else "...") for k, v in cases[10].items()}})


def generate(ctx):
    """static translator tie `clipped before use`: the clip skeleton (clip / re-arrangement / assignment / sink events with
    their data dependencies and control flow) of every tool and estimator method that receives data with declared bounds is
    re-extracted from /repo's CURRENT AST and `clippedBeforeUse … = true` is decided in Lean (DPL.C10.static_clip_sound says
    what that means for every run).  An entry point the translator cannot follow is reported as unavailable (not as a
    failed obligation)."""
    import os
    from ..translate import clips
    repo = os.environ.get("VERIF_REPO", "/repo")
    try:
        info = clips.generate(repo, leanio.LEAN)
    except (clips.TranslatorError, SyntaxError, OSError) as e:
        ctx.note(f"clip-skeleton translator unavailable: {type(e).__name__}: {e}")
        return {"build": [], "obligations": 0, "unavailable": [f"clips: {type(e).__name__}: {e}"[:300]]}
    ctx.count("clip_skeletons", info["obligations"])
    ctx.sample({"clip_skeleton_entries": info["entries"], "clip_skeleton_not_covered": info["not_covered"]})
    out = {"build": ["DPL.Generated.C10Clips"], "obligations": info["obligations"]}
    if info["unavailable"]:
        out["unavailable"] = ["clips: " + u[:200] for u in info["unavailable"]]
    return out


def check(ctx):
    check_helpers(ctx)
    check_check_bounds(ctx)
    check_e2e(ctx)


def replay(ctx, data):
    d = unjson(data["data"])
    case = d["case"]
    if d["kind"] == "check_bounds":
        return check_bounds_case(case) is not None
    if d["kind"] == "helper":
        A0, A, out, exc = run_helper_impl(case)
        return direct_helper(case, A0, A, out, exc) is not None
    _, v = e2e_case_result(case)
    return v is not None


WITNESSES = {}
