"""C19 — reported bias, variance and MSE match the mechanism's actual distribution (DESIGN.md §6 C19).

(K) correspondence: `bias()/variance()/mse()` of the implementation against the Lean model `DPL/Model/Moments.lean`
    run on IEEE doubles by `Drivers/Continuous.lean` (rel. 1e-9 plus the rounding of the formula's own cancellations).
(S) direct check, exactly the quantifier of the property: the moments are recomputed in 60-digit decimals from the
    mechanism's output law at that value — built from the scale the SAMPLER actually uses (measured through scripted
    uniforms exactly as in C02; for Geometric the ratio r of the pmf is read off the break-point of the sampler's step
    function u -> output and the series is summed) — by closed-form integration of the piecewise-exponential density
    and its point masses (`harness/contlaw.py`), for values inside and outside the bounds:
        |reported - moment| <= 1e-6 * |moment| + 1e-9,   mse = variance + bias^2,
    and variance is monotone (non-increasing in epsilon, non-decreasing in sensitivity) on the implementation.
"""
import math
import warnings
from decimal import Decimal as D

from ..shim import dp, np
from .. import gen, leanio, seams
from .. import contlaw as cl
from ..contlaw import d
from ..gen import f2b, b2f
from . import c02 as K2

PROPERTY = "C19"
LEAN_MODULE = "DPL.Properties.C19"
TRUSTED = [
    "modelled, not verified: CPython/numpy float arithmetic = IEEE binary64 = Lean `Float` (+,-,*,/,sqrt,pow bit-exact; "
    "exp/log to 1 ulp)",
    "the output LAW at a value is the ideal real-valued law with the scale the sampler uses (Laplace density, its "
    "truncation with point masses at the bounds, its folding, its restriction to the domain; two-sided geometric pmf; "
    "normal; uniform); that the samplers realise these laws is C03's business",
    "no cited moment facts left: the normal moments are Mathlib's (gaussian_variance_normal); the Laplace, truncated, "
    "bounded-domain and folded integrals are evaluated in Lean",
    "the direct check integrates the densities in closed form with python `decimal` at 60 digits (harness/contlaw.py); "
    "search support and residual validation, not an obligation",
]
UNPROVED = [
    "floating-point evaluation of the closed forms (cancellation in `value**2 + ... - (bias + value)**2`) is checked on "
    "every run against the 60-digit moments, not proved; the theorems are over the reals",
    "truncated / bounded-domain / folded Laplace: PROVED hypothesis-free for a value inside a finite domain and scale > 0 "
    "(truncated_moments, bounded_domain_moments, folded_bias: law as a measure, all integrals evaluated); outside the "
    "domain / with infinite bounds the closed forms are wrong (open known findings; truncated_moments_full stays an "
    "unproved def) and the equality is only compared numerically there",
    "monotonicity of the analytic Gaussian variance (root of a transcendental equation) is checked on the "
    "implementation only",
]
RULE = ("(mechanism, eps, delta, sensitivity, bounds, value) generated from the seed — values inside, on and outside the "
        "bounds, domains of width 1e-3..1e6 at offsets 0..1e3 widths, infinite bounds; for each the implementation's "
        "bias()/variance()/mse() are compared with the Lean model on doubles and with the 60-digit moments of the law "
        "built from the measured sampler scale; non-trivial when sensitivity > 0; distinct by (mechanism, parameter "
        "bits, value bits)")

M = dp.mechanisms
REL = D("1e-6")
ABS = D("1e-9")
quiet = K2.quiet
B = K2.B


def call(f, *a):
    """(value, None) or (None, exception kind)"""
    try:
        return quiet(f, *a), None
    except NotImplementedError:
        return None, "NotImplementedError"
    except (ValueError, TypeError, ZeroDivisionError, OverflowError) as e:
        return None, type(e).__name__


class Pt:
    __slots__ = ("mech", "params", "value", "rep", "meas", "law", "backend")

    def __init__(self, mech, params, value):
        self.mech, self.params, self.value = mech, params, value
        self.rep, self.meas, self.law = {}, {}, None
        self.backend = "system"

    def key(self):
        return (self.mech, f2b(self.value)) + tuple(sorted((k, f2b(v) if isinstance(v, float) else v)
                                                          for k, v in self.params.items()))


# =========================================================================================== measuring the sampler

def geometric_ratio(params):
    """r = e^{scale} of the two-sided geometric pmf P[k] ~ r^|k|, read off the sampler: the step function
    u -> randomise(0) jumps from 1 to 0 at u* = 1/2 + r/(1+r) (u in (1/2, 1)); located on the double grid."""
    def out(u):
        m = K2.mk("Geometric", params, random_state=K2.srng([u]))
        return int(quiet(m.randomise, 0))
    top = 1.0 - 2 ** -53
    if out(top) != 0:
        return float("nan"), None
    lo = math.nextafter(0.5, 1.0)
    if out(lo) == 0:
        return 0.0, None                        # noise is identically 0 above 1/2
    a, b_ = f2b(lo), f2b(top)                  # out(a) != 0, out(b) == 0
    while b_ - a > 1:
        mid = (a + b_) // 2
        if out(b2f(mid)) == 0:
            b_ = mid
        else:
            a = mid
    ustar = b2f(b_)
    w = d(ustar) - D("0.5")                     # r / (1 + r)
    r = w / (1 - w)
    # second break-point (noise 2 -> 1) at 1/2 + r^2/(1+r): consistency of the geometric shape
    return r, ustar


def geometric_moments(r):
    """(mean, variance) of P[k] = (1-r)/(1+r) r^|k| by summing the series (closed-form tail beyond 200000 terms)"""
    r = d(r)
    if r <= 0:
        return D(0), D(0)
    lead = (1 - r) / (1 + r)
    if r > D("0.9995"):
        return D(0), 2 * r / (1 - r) ** 2
    tot, k, t = D(0), 0, D(1)
    while True:
        k += 1
        t *= r
        term = 2 * lead * t * k * k
        tot += term
        if term < tot * D(10) ** -50 and k > 5:
            break
    return D(0), tot


# =========================================================================================== generators

def g_value(r, lo, hi, sens):
    """values inside, on and outside the bounds"""
    lo, hi = float(lo), float(hi)
    s = sens if sens > 0 else 1.0
    if math.isinf(lo) and math.isinf(hi):
        return r.choice([0.0, 1.0, r.uniform(-100, 100)])
    if math.isinf(hi):
        return r.choice([lo, lo + s * r.u01(), lo + s * r.loguniform(1e-3, 1e3), lo - s * r.u01()])
    if math.isinf(lo):
        return r.choice([hi, hi - s * r.u01(), hi - s * r.loguniform(1e-3, 1e3), hi + s * r.u01()])
    w = hi - lo
    m = r.u01()
    if m < 0.45:
        return lo + w * r.u01()
    if m < 0.55:
        return r.choice([lo, hi, (lo + hi) / 2])
    if m < 0.7:
        return lo + w * r.choice([1e-6, 1 - 1e-6, 0.01, 0.99])
    if m < 0.85:
        return r.choice([lo - w * r.u01(), hi + w * r.u01()])
    return r.choice([lo - s * r.loguniform(1e-3, 10), hi + s * r.loguniform(1e-3, 10)])


def x_eps(r, zero_ok):
    """epsilon in the regions where `epsilon - log(1 - delta)` is dominated by the delta term"""
    m = r.u01()
    if zero_ok and m < 0.2:
        return 0.0
    if m < 0.8:
        return r.loguniform(1e-12, 1e-6)
    return K2.g_eps(r)


def x_delta(r, eps, hi=1.0):
    """tiny delta (1 - delta visibly rounded), delta near epsilon, delta close to 1"""
    m = r.u01()
    if m < 0.4:
        d_ = r.loguniform(1e-16, 1e-9)
    elif m < 0.6 and 0 < eps < 0.05:
        d_ = eps * r.loguniform(0.1, 10.0)
    elif m < 0.85:
        d_ = 1.0 - r.loguniform(1e-12, 1e-3)
    else:
        d_ = r.loguniform(1e-9, 1e-2)
    return min(d_, hi)


def x_sens(r):
    return r.choice([1.0, r.loguniform(1e-9, 1e-3), r.loguniform(1e3, 1e9), r.loguniform(1e-3, 1e3)])


def g_point(r, mech):
    if mech != "LaplaceBoundedNoise" and r.chance(0.3):
        pt = g_extreme(r, mech)
        if pt is not None:
            return pt
    return g_ordinary(r, mech)


def g_extreme(r, mech):
    """the extreme corner of the parameter space (tiny epsilon with tiny / near-epsilon / near-1 delta, huge or tiny
    sensitivity): where a scale written as `sens / (eps - log(1 - delta))` in one place and differently (log1p, eps only,
    …) in another comes apart"""
    sens = x_sens(r)
    if mech in ("Laplace", "LaplaceTruncated", "LaplaceFolded", "LaplaceBoundedDomain"):
        eps = x_eps(r, zero_ok=True)
        dl = x_delta(r, eps, hi=1.0 - 1e-12)
        p = {"epsilon": eps, "delta": dl, "sensitivity": sens}
        if mech == "Laplace":
            return Pt(mech, p, r.choice([0.0, r.uniform(-10, 10)]))
        b = sens / (eps - math.log1p(-dl))
        # domains on the scale of the noise (that is where the closed forms are informative) as well as of the sensitivity
        w = r.choice([b * r.loguniform(0.05, 50.0), sens * r.loguniform(1.0, 100.0), b, 1.0])
        w = min(max(w, 1e-3 if mech != "LaplaceBoundedDomain" else max(1e-3, sens)), 1e300)
        lo = r.choice([0.0, -w / 2, w * r.uniform(-3, 3)])
        hi = lo + w
        if not (math.isfinite(lo) and math.isfinite(hi) and lo < hi):
            return None
        p["lower"], p["upper"] = lo, hi
        return Pt(mech, p, lo + w * r.choice([0.5, r.u01(), r.u01(), 0.01, 0.99]))
    if mech == "Geometric":
        return Pt(mech, {"epsilon": r.loguniform(1e-9, 1e-3), "sensitivity": int(r.choice([1, 1, 7, r.randint(1, 1000)]))},
                  r.randint(-50, 50))
    if mech == "Gaussian":
        eps = min(1.0, x_eps(r, zero_ok=False))
        return Pt(mech, {"epsilon": eps, "delta": x_delta(r, eps, hi=1.0 - 1e-12), "sensitivity": sens}, r.uniform(-5, 5))
    if mech == "GaussianAnalytic":
        eps = max(x_eps(r, zero_ok=False), 1e-9)
        return Pt(mech, {"epsilon": eps, "delta": x_delta(r, eps, hi=1.0 - 1e-12), "sensitivity": sens}, r.uniform(-5, 5))
    if mech == "Uniform":
        return Pt(mech, {"delta": min(0.5, x_delta(r, 0.0)), "sensitivity": sens}, r.uniform(-5, 5))
    return None


def g_ordinary(r, mech):
    eps = K2.g_eps(r)
    sens = K2.g_sens(r)
    if mech in ("Laplace", "LaplaceTruncated", "LaplaceFolded", "LaplaceBoundedDomain"):
        p = {"epsilon": eps, "delta": K2.g_delta(r), "sensitivity": sens}
        if mech == "Laplace":
            return Pt(mech, p, r.choice([0.0, r.uniform(-10, 10)]))
        if sens > 0 and r.chance(0.2):
            # OFFSET dimension: a domain [c, c + w] far from the origin relative to its width (c / w from 1 to 1e9, both
            # signs — timestamps, large counts), w a few noise scales, value inside: where a tolerance test on the bounds
            # (isclose) or arithmetic in the caller's frame goes wrong although the law only depends on differences
            b = K2.lap_expected(p)
            w = b * r.loguniform(0.5, 8.0)
            c = w * r.loguniform(1.0, 1e9) * r.choice([1.0, -1.0])
            lo, hi = c, c + w
            if math.isfinite(lo) and math.isfinite(hi) and hi - lo > 0.25 * w and w > 0:
                p["lower"], p["upper"] = lo, hi
                return Pt(mech, p, lo + (hi - lo) * r.choice([0.5, 0.2, r.u01(), r.u01()]))
        if mech == "LaplaceBoundedDomain":
            lo, hi = K2.g_domain(r, sens, min_width_over_sens=1.0)
        else:
            lo, hi = K2.g_domain(r, sens)
        p["lower"], p["upper"] = lo, hi
        return Pt(mech, p, g_value(r, lo, hi, sens))
    if mech == "LaplaceBoundedNoise":
        return Pt(mech, {"epsilon": eps, "delta": K2.g_delta(r, zero_p=0, hi=0.4999), "sensitivity": sens}, r.uniform(-5, 5))
    if mech == "Geometric":
        s = r.choice([1, 1, 2, 3, 0, r.randint(1, 100), r.randint(1, 10 ** 6)])
        return Pt(mech, {"epsilon": eps, "sensitivity": int(s)}, r.randint(-50, 50))
    if mech == "Gaussian":
        return Pt(mech, {"epsilon": K2.g_eps(r, hi=1.0), "delta": K2.g_delta(r, zero_p=0), "sensitivity": sens}, r.uniform(-5, 5))
    if mech == "GaussianAnalytic":
        return Pt(mech, {"epsilon": eps, "delta": K2.g_delta(r, zero_p=0), "sensitivity": sens}, r.uniform(-5, 5))
    if mech == "Uniform":
        return Pt(mech, K2.un_gen(r), r.uniform(-5, 5))
    raise KeyError(mech)


WEIGHTS = {"Laplace": 6, "LaplaceTruncated": 16, "LaplaceFolded": 12, "LaplaceBoundedDomain": 16, "LaplaceBoundedNoise": 2,
           "Geometric": 8, "Gaussian": 4, "GaussianAnalytic": 5, "Uniform": 4}

FIXED = [
    ("Laplace", {"epsilon": 1.0, "delta": 0.0, "sensitivity": 1.0}, 0.0),
    ("Laplace", {"epsilon": 1.0, "delta": 0.5, "sensitivity": 1.0}, 3.0),
    ("LaplaceTruncated", {"epsilon": 1.0, "delta": 0.5, "sensitivity": 1.0, "lower": 0.0, "upper": 1.0}, 0.2),
    ("LaplaceTruncated", {"epsilon": 1.0, "delta": 0.0, "sensitivity": 1.0, "lower": 0.0, "upper": 1.0}, 0.5),
    ("LaplaceFolded", {"epsilon": 1.0, "delta": 0.5, "sensitivity": 1.0, "lower": 0.0, "upper": 1.0}, 0.2),
    ("LaplaceFolded", {"epsilon": 0.3, "delta": 0.0, "sensitivity": 2.0, "lower": -1.0, "upper": 4.0}, 3.5),
    ("LaplaceBoundedDomain", {"epsilon": 1.0, "delta": 0.0, "sensitivity": 1.0, "lower": 0.0, "upper": 10.0}, 1.0),
    ("LaplaceBoundedDomain", {"epsilon": 0.1, "delta": 0.2, "sensitivity": 1.0, "lower": -1.0, "upper": 1.0}, 0.9),
    ("Geometric", {"epsilon": 1.0, "sensitivity": 1}, 0),
    ("Geometric", {"epsilon": 1e-3, "sensitivity": 100}, 5),
    ("Gaussian", {"epsilon": 0.5, "delta": 1e-5, "sensitivity": 1.0}, 0.0),
    ("GaussianAnalytic", {"epsilon": 5.0, "delta": 1e-5, "sensitivity": 2.0}, 0.0),
    ("Uniform", {"delta": 0.25, "sensitivity": 3.0}, 1.0),
]



# =========================================================================================== the sampler's post-processing map

def unit_uniforms(L):
    """four uniforms whose standard Laplace variate log(1-u1)cos(pi u2) + log(1-u3)cos(pi u4) is L (|L| <= 72)"""
    h = abs(L)
    h1, h2 = (h, 0.0) if h <= 36.0 else (36.0, min(h - 36.0, 36.0))
    c = 0.0 if L < 0 else 1.0 - 2 ** -53              # cos(pi c) = +1 / -1
    return (-math.expm1(-h1), c, -math.expm1(-h2), c if h2 else 0.5)


def probe(mech, params, value, L):
    """(z, released): the plain noisy value z = value - scale * L that Laplace.randomise produces for these uniforms, and
    what the truncated / folded mechanism releases for the very same uniforms"""
    us = unit_uniforms(L)
    base = {k: params[k] for k in ("epsilon", "delta", "sensitivity")}
    z = float(quiet(M.Laplace(**base, random_state=K2.srng(us)).randomise, value))
    g = float(quiet(K2.mk(mech, params, random_state=K2.srng(us)).randomise, value))
    return z, g


def ref_map(mech, z, lo, hi):
    z = d(z)
    if mech == "LaplaceTruncated":
        return min(max(z, lo), hi)
    return cl.fold_point(z, lo, hi)


def probe_map(pt, max_segments=80):
    """validate the post-processing map of the SAMPLER (clamp / reflection) against the reference map pointwise, over
    noise values out to 30 scales (dozens of domain widths when the scale is comparable to the width), and — when the
    kinks in that range are few enough — rebuild the moments of the output law from (measured scale, measured map):
    on every segment between two reference kinks the released value is fitted as an affine function of z through probes."""
    mech, p, v = pt.mech, pt.params, pt.value
    b = pt.meas.get("scale")
    if not (b and b > 0 and math.isfinite(b)) or not math.isfinite(v):
        return
    lo, hi = d(p["lower"]), d(p["upper"])
    W = hi - lo
    dv, db = d(v), d(b)
    R = 30 * db
    zmin, zmax = dv - R, dv + R
    kinks = []
    if mech == "LaplaceTruncated" or W == cl.INF:
        kinks = [c for c in (lo, hi) if c not in (cl.INF, cl.NINF) and zmin < c < zmax]
        full = True
    elif W == 0:
        full = False
    else:
        n = int(2 * R / W) + 2
        full = n <= max_segments
        if full:
            k0 = int(((zmin - lo) / W).to_integral_value(rounding="ROUND_FLOOR"))
            kinks = [lo + k * W for k in range(k0, k0 + n + 2) if zmin < lo + k * W < zmax]
    mism = []
    tolf = lambda *xs: 32 * math.ulp(max(1e-300, *[abs(float(x)) for x in xs if math.isfinite(float(x))]))

    def one(target):
        L = -float((target - dv) / db)
        if abs(L) > 71.5:
            return None
        z, g = probe(mech, p, v, L)
        r = ref_map(mech, z, lo, hi)
        pt.meas["map_probes"] = pt.meas.get("map_probes", 0) + 1
        if abs(d(g) - r) > d(tolf(z, g, p["lower"], p["upper"], v)):
            if len(mism) < 3:
                mism.append({"noise_in_widths": float((d(z) - dv) / W) if W not in (0, cl.INF) else None, "z": z,
                             "released": g, "reference": float(r)})
        return z, g
    if not full:
        # too many kinks in range for a reconstruction: pointwise probes spread over the whole range (near and far)
        rr = gen.SplitMix64(f2b(v) ^ f2b(b))
        for _ in range(24):
            one(dv + R * d(rr.uniform(-1, 1)) * d(rr.choice([1.0, 1.0, 0.2, 0.02])))
        pt.meas["map_mismatch"] = mism
        return
    bounds = [zmin] + sorted(kinks) + [zmax]
    m1 = m2 = D(0)
    ok = True
    base = cl.laplace(dv, db)
    nseg = len(bounds) - 1
    for i, (l, r) in enumerate(zip(bounds, bounds[1:])):
        pr = [one(l + (r - l) * f) for f in (D(1) / 6, D(1) / 2, D(5) / 6)]
        if any(x is None for x in pr) or not (pr[0][0] < pr[1][0] < pr[2][0]):
            ok = False
            continue
        (z1, g1), (z2, g2), (z3, g3) = pr
        sl = (g3 - g1) / (z3 - z1)
        s_ = min((-1, 0, 1), key=lambda c: abs(c - sl))
        if abs(sl - s_) > 1e-6 or abs((g1 + s_ * (z2 - z1)) - g2) > tolf(z1, z2, g1, g2, p["lower"], p["upper"]) * 4:
            ok = False                      # not affine with slope in {-1, 0, 1} on this segment: pointwise verdict only
            continue
        ll, rr_ = l, r
        if mech == "LaplaceTruncated" or W == cl.INF:       # the outer pieces are affine all the way out
            if i == 0:
                ll = cl.NINF
            if i == nseg - 1:
                rr_ = cl.INF
        piece = cl.Law(cl._restrict(base, ll, rr_))
        q0, q1, q2 = piece.moment(0, dv), piece.moment(1, dv), piece.moment(2, dv)
        c0 = d(g1) - dv - s_ * (d(z1) - dv)                 # released - v = c0 + s (z - v)
        m1 += c0 * q0 + s_ * q1
        m2 += c0 * c0 * q0 + 2 * c0 * s_ * q1 + s_ * s_ * q2
    pt.meas["map_mismatch"] = mism
    if ok and mism:
        # moments of the law rebuilt from (measured scale, measured map); only needed — and only quoted — when the map
        # is not the reference map (otherwise the exact reference law is integrated, free of the rounding of the probes)
        pt.meas["map_moments"] = (K2.fmt(m1), K2.fmt(m2 - m1 * m1))


def probe_acceptance(pt):
    """LaplaceBoundedDomain draws by rejection: a first draw inside [lower, upper] must be released, one outside must be
    rejected (the second scripted batch is then released) — the acceptance region IS the post-processing of this sampler"""
    p = pt.params
    b = pt.meas.get("scale")
    lo, hi = float(p["lower"]), float(p["upper"])
    if not (b and b > 0 and math.isfinite(b) and math.isfinite(lo) and math.isfinite(hi) and lo < hi):
        return
    v = (lo + hi) / 2
    dlt = min(0.05 * (hi - lo), 0.05 * b)
    small = K2.small_uniforms(min(1.38, 0.1 * (hi - lo) / b))
    us2 = (small[0], small[0], 0.0, 0.0, 0.0, 0.0, 0.5, 0.5)
    fallback = v + b * K2.lap_unit(small)
    mism = []
    for target, inside in ((lo - dlt, False), (lo + dlt, True), (hi - dlt, True), (hi + dlt, False)):
        L = (target - v) / b
        if abs(L) > 71.5:
            continue
        us1 = unit_uniforms(L)
        z = v + b * K2.lap_unit(us1)
        if (lo <= z <= hi) != inside:
            continue
        out = float(quiet(K2.mk("LaplaceBoundedDomain", p, random_state=K2.srng(us1 + us2)).randomise, v))
        want = z if inside else fallback
        if abs(out - want) > 64 * math.ulp(max(abs(z), abs(v), abs(fallback), abs(out))):
            mism.append({"first_draw": z, "inside_domain": inside, "released": out, "expected": want})
    pt.meas["map_mismatch"] = mism


# =========================================================================================== one point

def measure(pt):
    """reported moments + the law built from the sampler's measured scale"""
    cls = getattr(M, pt.mech)
    p, v = pt.params, pt.value
    m = K2.mk(pt.mech, p)        # a fresh object, or the live one inside `Live.installed()`
    for name in ("bias", "variance", "mse"):
        pt.rep[name] = call(getattr(m, name), v)
    x = d(v)
    if pt.mech == "Laplace":
        s, prec, _ = K2.measure_laplace_scale(cls, p)
        pt.meas = {"scale": s, "prec": prec}
        pt.law = cl.laplace(x, d(s)) if s > 0 else None
    elif pt.mech in ("LaplaceTruncated", "LaplaceFolded"):
        s, prec = K2.measure_inside(cls, p, p["lower"], p["upper"], K2.lap_expected(p))
        pt.meas = {"scale": s, "prec": prec}
        if s != s and p["sensitivity"] > 0:
            # no output of this mechanism moved with the scripted noise (everything came back on a bound, or constant):
            # the noise these classes add is Laplace.randomise's (they call super().randomise) — read its scale off the
            # plain Laplace sampler with the same (epsilon, delta, sensitivity) so that the post-processing MAP can still be
            # probed below; the moments themselves are then not compared (no law is built from a borrowed scale)
            base = {k: p[k] for k in ("epsilon", "delta", "sensitivity")}
            s0, prec0, _ = K2.measure_laplace_scale(M.Laplace, base)
            if s0 > 0 and math.isfinite(s0):
                pt.meas = {"scale": s0, "prec": prec0, "scale_borrowed_from_plain_laplace": True}
                probe_map(pt)
                pt.meas["scale"] = float("nan")
        if s > 0 and math.isfinite(s):
            f = cl.truncated_laplace if pt.mech == "LaplaceTruncated" else cl.folded_laplace
            pt.law = f(x, d(s), d(p["lower"]), d(p["upper"]))
            probe_map(pt)
    elif pt.mech == "LaplaceBoundedDomain":
        stored, used, prec = quiet(K2.measure_bounded_domain, p)
        s = used if (used == used and prec < 1e-7) else stored
        pt.meas = {"scale": s, "stored": stored, "prec": prec if used == used else 0.0}
        if s > 0 and math.isfinite(s) and p["lower"] < p["upper"]:
            pt.law = cl.bounded_domain_laplace(x, d(s), d(p["lower"]), d(p["upper"]))
            probe_acceptance(pt)
    elif pt.mech == "LaplaceBoundedNoise":
        sc, bound, sc_m = K2.measure_bounded_noise(p)
        pt.meas = {"scale": sc_m if sc_m == sc_m else sc, "bound": bound}
        if sc > 0 and bound > 0:
            pt.law = cl.bounded_noise_laplace(x, d(pt.meas["scale"]), d(bound))
    elif pt.mech == "Geometric":
        r, ustar = geometric_ratio(p)
        pt.meas = {"r": float(r) if r == r else float("nan"), "r_exact": r, "breakpoint": ustar,
                   "scale": float(m._scale)}
    elif pt.mech in ("Gaussian", "GaussianAnalytic"):
        used, stored = K2.measure_gauss_sigma(cls, p)
        pt.meas = {"sigma": used, "stored": stored}
    elif pt.mech == "Uniform":
        pt.meas = {"half_width": K2.measure_uniform(p)}
        if pt.meas["half_width"] > 0:
            pt.law = cl.uniform(x, d(pt.meas["half_width"]))


def true_moments(pt):
    """(bias, variance) in 60-digit decimals from the measured law, or None when there is no law to integrate"""
    x = d(pt.value)
    if pt.mech == "Geometric":
        r = pt.meas["r_exact"]
        if r != r:
            return None
        return geometric_moments(r)
    if pt.mech in ("Gaussian", "GaussianAnalytic"):
        s = d(pt.meas["sigma"])
        return D(0), s * s
    if pt.law is None:
        sens = pt.params.get("sensitivity", 0)
        if sens == 0:
            if pt.mech in ("LaplaceTruncated",):
                y = min(max(x, d(pt.params["lower"])), d(pt.params["upper"]))
                return y - x, D(0)
            if pt.mech == "LaplaceFolded":
                return cl.fold_point(x, d(pt.params["lower"]), d(pt.params["upper"])) - x, D(0)
            if pt.mech == "LaplaceBoundedDomain":
                y = min(max(x, d(pt.params["lower"])), d(pt.params["upper"]))
                return y - x, D(0)
            return D(0), D(0)
        return None
    m1 = pt.law.moment(1, x)
    m2 = pt.law.moment(2, x)
    return m1, m2 - m1 * m1


def lines(pt):
    p, v = pt.params, pt.value
    e = B(p.get("epsilon", 0.0))
    if pt.mech == "Laplace":
        return [f"m_lap {e} {B(p['delta'])} {B(p['sensitivity'])}"]
    if pt.mech == "LaplaceTruncated":
        return [f"m_trunc {e} {B(p['delta'])} {B(p['sensitivity'])} {B(p['lower'])} {B(p['upper'])} {B(v)}"]
    if pt.mech == "LaplaceFolded":
        folded = float(M.LaplaceFolded(**p)._fold(v))      # only used by the zero-scale branch of the model
        return [f"m_fold {e} {B(p['delta'])} {B(p['sensitivity'])} {B(p['lower'])} {B(p['upper'])} {B(v)} {B(folded)}"]
    if pt.mech == "LaplaceBoundedDomain":
        return [f"m_bd {B(pt.meas['stored'])} {B(p['lower'])} {B(p['upper'])} {B(v)}"]
    if pt.mech == "Geometric":
        return [f"m_geomscale {B(pt.meas['scale'])}"]
    if pt.mech in ("Gaussian", "GaussianAnalytic"):
        return [f"m_gauss {B(pt.meas['stored'])}"]
    if pt.mech == "Uniform":
        return [f"m_unif {B(p['delta'])} {B(p['sensitivity'])}"]
    return []


def magnitude(pt):
    """(for bias, for variance): size of the largest intermediate of the coded expression divided by the normaliser it is
    divided by — the rounding of that intermediate bounds what a relative tolerance on the RESULT can mean"""
    p, v = pt.params, pt.value
    if pt.mech not in ("LaplaceTruncated", "LaplaceFolded", "LaplaceBoundedDomain"):
        return 0.0, 0.0
    b = pt.meas.get("stored", pt.meas.get("scale")) or 0.0
    if not (b > 0 and math.isfinite(b)) and pt.mech != "LaplaceBoundedDomain":
        # the sampler's scale could not be measured (noise below the resolution of the outputs): the coded expressions
        # still round at the size of the scale they compute
        try:
            b = K2.lap_expected(p)
        except (ZeroDivisionError, ValueError):
            b = 0.0
    if not (b > 0 and math.isfinite(b)):
        return 0.0, 0.0
    fin = [abs(x) for x in (p["lower"], p["upper"]) if math.isfinite(x)]
    mb = b + abs(v) + sum(fin)
    mv = v * v + b * b + sum(b * x + x * x for x in fin)
    if pt.mech == "LaplaceBoundedDomain":
        with np.errstate(all="ignore"):
            c = 1 - (math.exp(min(0.0, (p["lower"] - v) / b)) + math.exp(min(0.0, (v - p["upper"]) / b))) / 2
        c = max(c, 1e-300)
        mb, mv = mb / c, mv / c + (mb / c) ** 2
    else:
        mv += mb * mb
    return (mb if math.isfinite(mb) else 0.0), (mv if math.isfinite(mv) else 0.0)


def feq(a, b, rel, abs_):
    if a is None or b is None:
        return a is b
    a, b = float(a), float(b)
    if a != a or b != b:
        return a != a and b != b
    return gen.rel_close(a, b, rel, abs_)


def compare(ctx, pt, outs):
    """(K) model on doubles vs implementation"""
    if not outs:
        return True
    vals = K2.ok_vals(outs[0])
    if vals is None:
        ctx.disagree(f"moments.{pt.mech}", {"params": pt.params, "value": pt.value}, outs[0], pt.rep)
        return False
    mv = [b2f(int(x)) for x in vals]
    if pt.mech == "LaplaceBoundedDomain" and not (pt.meas.get("stored", 0.0) >= 0 and math.isfinite(pt.meas.get("stored", 0.0))):
        # a negative / non-finite calibrated scale (outside the mechanism's feasible region, e.g. epsilon = 0 with a tiny
        # delta): exp((lower - v)/s) overflows in the closed forms; nothing meaningful to compare (C02's business)
        ctx.count("bounded_domain_infeasible_scale")
        ctx.boundary_skipped += 1
        return True
    rb, rv, rm = (pt.rep[k][0] for k in ("bias", "variance", "mse"))
    mag = magnitude(pt)
    model = {}
    if pt.mech in ("LaplaceTruncated", "LaplaceBoundedDomain"):
        model = {"bias": mv[0], "variance": mv[1], "mse": mv[2]}
    elif pt.mech == "LaplaceFolded":
        model = {"bias": mv[0]}
    else:
        model = {"bias": 0.0, "variance": mv[0], "mse": mv[0]}
    ok = True
    for k, mval in model.items():
        rep = pt.rep[k][0]
        if rep is None:
            if pt.rep[k][1] == "NotImplementedError":
                continue
            ctx.disagree(f"moments.{pt.mech}.{k}", {"params": pt.params, "value": pt.value}, mval, pt.rep[k][1])
            ok = False
            continue
        atol = 64 * 2.3e-16 * (mag[0] if k == "bias" else mag[1])
        if k == "mse" and "variance" in model:
            # mse = variance + bias^2 cancels when the formula is used outside its domain (variance ~ -bias^2): a 1-ulp
            # difference of exp shows relative to the terms, not to their sum
            atol += 1e-9 * (abs(model["variance"]) + model["bias"] ** 2) if math.isfinite(model["variance"]) and math.isfinite(model["bias"]) and abs(model["bias"]) < 1e150 else 0.0
        rtol = 1e-9
        if pt.mech == "Geometric":
            # 1 - exp(scale) cancels: a 1-ulp difference of exp is amplified by 1/(1-r), three times over
            rtol = max(rtol, 40 * 2.3e-16 / max(1e-300, -math.expm1(pt.meas["scale"])))
        if not feq(mval, rep, rtol, atol):
            ctx.disagree(f"moments.{pt.mech}.{k}", {"params": pt.params, "value": pt.value, "scale": pt.meas}, mval, rep)
            ok = False
    return ok


def within(rep, true, extra_rel=0.0):
    return abs(d(rep) - true) <= (REL + d(extra_rel)) * abs(true) + ABS


def emit(ctx, sig, what, data):
    """at most 3 recorded violations per signature (the runner keeps 200 in all: a new signature must never be crowded
    out by repetitions of a known one); the rest are only counted"""
    n = ctx.counters.get("sig:" + sig, 0)
    ctx.count("sig:" + sig)
    if n < 3:
        ctx.violation(sig, what, data)


def direct(ctx, pt):
    """(S) reported vs moments of the actual law"""
    tm = true_moments(pt)
    rb, rv, rm = pt.rep["bias"], pt.rep["variance"], pt.rep["mse"]
    inp = {"mech": pt.mech, "params": pt.params, "value": pt.value, "measured": {k: v for k, v in pt.meas.items() if k != "r_exact"}}
    desc = f"{pt.mech}({', '.join(f'{k}={v!r}' for k, v in pt.params.items())})"
    where = ""
    if "lower" in pt.params:
        where = "inside" if pt.params["lower"] <= pt.value <= pt.params["upper"] else "outside"
    # mse = variance + bias^2 on the implementation
    if rb[0] is not None and rv[0] is not None:
        if rm[0] is None:
            emit(ctx, f"C19:{pt.mech}:mse-missing", f"{desc}.mse({pt.value!r}) raises {rm[1]} although bias and variance are defined", inp)
        else:
            with np.errstate(all="ignore"):
                want = float(np.float64(rv[0]) + np.float64(rb[0]) ** 2)
            if not feq(rm[0], want, 1e-12, 1e-300):
                emit(ctx, f"C19:{pt.mech}:mse-decomposition",
                              f"{desc}: mse({pt.value!r}) = {float(rm[0])!r} but variance + bias^2 = {want!r}", inp)
    mm = pt.meas.get("map_mismatch")
    if mm:
        ref = (pt.law.moment(1, d(pt.value)) if pt.law is not None else None)
        emit(ctx, f"C19:{pt.mech}:sampler-map" + (":numpy-backend" if pt.backend == "numpy" else ""),
             f"{desc}: randomise({pt.value!r}) does not post-process the noisy value the way bias()/variance() assume: for the "
             f"plain noisy value z = {mm[0].get('z', mm[0].get('first_draw'))!r} it releases {mm[0]['released']!r}, the "
             f"{'clamp' if pt.mech == 'LaplaceTruncated' else 'reflection / acceptance'} map gives "
             f"{mm[0].get('reference', mm[0].get('expected'))!r}; bias reported {rb[0]!r}, bias of the law rebuilt from the "
             f"measured scale and map: {pt.meas['map_moments'][0] if pt.meas.get('map_moments') else 'n/a'} "
             f"(reference-map law: {K2.fmt(ref) if ref is not None else 'n/a'})",
             dict(inp, mismatches=mm))
        return
    if tm is None:
        ctx.count("no_law")
        return
    tb, tv = tm
    ctx.count("moments_checked")
    for name, rep, true in (("bias", rb, tb), ("variance", rv, tv)):
        if rep[0] is None:
            if rep[1] != "NotImplementedError":
                emit(ctx, f"C19:{pt.mech}:{name}-raises", f"{desc}.{name}({pt.value!r}) raises {rep[1]}", inp)
            continue
        r = float(rep[0])
        extra = 0.0
        if pt.mech == "Geometric" and pt.meas.get("r", 0) < 1:
            # r is read off a break-point known to 2^-53: its effect on 2r/(1-r)^2 gets the benefit of doubt
            extra = 8 * 2.3e-16 / max(1e-300, 1 - pt.meas["r"])
        if "lower" in pt.params and pt.meas.get("prec") and pt.meas.get("scale", 0) > 0:
            # the sampler's scale is read off outputs that live at the magnitude of the bounds: relative resolution `prec`
            # (4 ulp(value) / noise; 1e-7 when the domain lies 1e8 scales from the origin); the moments move by at most
            # about (1 + width/scale) times that — benefit of doubt, it only matters in the far-offset stratum
            wfin = pt.params["upper"] - pt.params["lower"]
            if math.isfinite(wfin):
                extra += 20 * pt.meas["prec"] * (1 + wfin / pt.meas["scale"])
        bad = (r != r) or math.isinf(r) or not within(r, true, extra)
        if not bad:
            continue
        # classify by root cause (one signature per cause and mechanism)
        nan = r != r or math.isinf(r)
        inf_b = any(math.isinf(pt.params.get(k, 0.0)) for k in ("lower", "upper"))
        mag = magnitude(pt)[0 if name == "bias" else 1]
        if where == "outside":
            sig = f"C19:{pt.mech}:value-outside-domain"
        elif nan and inf_b:
            sig = f"C19:{pt.mech}:nan-infinite-bound"
        elif nan and pt.params.get("sensitivity", 1) == 0:
            sig = f"C19:{pt.mech}:nan-zero-sensitivity"
        elif nan:
            sig = f"C19:{pt.mech}:nan-overflow"          # exp((lower + upper - 2 value) / scale) = inf, inf / inf
        elif not nan and mag > 0 and abs(d(r) - true) <= d(1000 * 2.3e-16 * mag):
            # the deviation is within 1000 roundings of the largest intermediate of the coded expression
            sig = f"C19:{pt.mech}:float-cancellation"
        else:
            sig = f"C19:{pt.mech}:{name}:wrong-value"
        emit(ctx, sig, f"{desc}.{name}({pt.value!r}) = {r!r} but the {name} of the output law (scale measured on the "
                           f"sampler: {inp['measured']}) is {K2.fmt(true)} [value {where or 'n/a'}]", inp)
    if rm[0] is not None and rb[0] is not None and rv[0] is not None:
        tmse = tv + tb * tb
        r = float(rm[0])
        if r == r and not math.isinf(r) and within(float(rv[0]), tv) and within(float(rb[0]), tb) \
                and not within(r, tmse, 2e-6):      # variance and bias^2 each carry their own 1e-6
            emit(ctx, f"C19:{pt.mech}:mse:wrong-value", f"{desc}.mse({pt.value!r}) = {r!r} but E[(M(x)-x)^2] = {K2.fmt(tmse)}", inp)


def monotone(ctx, pt, r):
    """variance does not increase when epsilon grows / sensitivity shrinks (implementation, plain mechanisms)"""
    if pt.mech not in ("Laplace", "Geometric", "Gaussian", "GaussianAnalytic", "Uniform"):
        return
    cls = getattr(M, pt.mech)
    p = dict(pt.params)
    v0 = call(cls(**p).variance, pt.value)[0]
    if v0 is None:
        return
    v0 = float(v0)
    trials = []
    if "epsilon" in p and pt.mech != "Uniform":
        hi = 1.0 if pt.mech == "Gaussian" else 50.0
        e2 = min(hi, p["epsilon"] * r.choice([1 + 1e-9, 1.0001, 1.5, 4.0]))
        if e2 > p["epsilon"]:
            trials.append(("epsilon", e2, -1))
    s = p["sensitivity"]
    if pt.mech == "Geometric":
        trials.append(("sensitivity", s + r.choice([1, 1, 5]), +1))
    elif s > 0:
        trials.append(("sensitivity", s * r.choice([1 + 1e-9, 1.0001, 2.0, 10.0]), +1))
    for name, val, sign in trials:
        q = dict(p)
        q[name] = val
        v1 = call(cls(**q).variance, pt.value)[0]
        if v1 is None:
            continue
        v1 = float(v1)
        ctx.count("monotonicity_pairs")
        rel = mono_rel(pt.mech, p)
        if rel > 1e-3:
            ctx.boundary_skipped += 1
            continue
        slack = rel * max(abs(v0), abs(v1))
        if (sign < 0 and v1 > v0 + slack) or (sign > 0 and v1 < v0 - slack) or v1 != v1:
            emit(ctx, f"C19:{pt.mech}:variance-not-monotone-in-{name}",
                          f"{pt.mech}: variance {v0!r} at {p} becomes {v1!r} when {name} -> {val!r}",
                          {"mech": pt.mech, "params": p, "value": pt.value, "changed": name, "to": val})


def mono_rel(mech, p):
    """relative resolution below which "monotone" has no meaning.  Closed forms: 1e-9.  GaussianAnalytic: sigma is the root
    of  Phi(.) - e^eps Phi(.) - delta, whose terms are O(1) and carry roundings of 2^-53, so the root is only determined up
    to ~2^-53 / delta relative (measured: 2e-7 at delta = 1.4e-10, eps = 1e-9); 100x that is allowed, and when it exceeds
    1e-3 the pair is skipped (counted)."""
    if mech == "GaussianAnalytic":
        # the same for delta close to 1: the objective then resolves 1 - delta only to 2^-53 (measured 5e-6 at
        # 1 - delta = 8e-12)
        # and for tiny eps: the objective sees eps only through e^eps - 1, resolved to 2^-53 / eps (measured 1e-6 at 1e-9)
        return max(1e-9, 5e-15 / max(1e-300, min(p["delta"], 1.0 - p["delta"])), 1e-13 / p["epsilon"])
    return 1e-9


def numpy_backend_pass(ctx, good, every=2):
    """the reported moments must also describe what randomise samples when random_state is a numpy RandomState (an int
    seed): the mechanisms switch code path on AttributeError / TypeError of the generator.  The sampler's scale (and
    post-processing map) is measured again through a scripted RandomState; when it differs from the SystemRandom
    measurement the direct check is repeated on it."""
    from ..core import Ctx
    for i, pt in enumerate(good):
        if pt.mech not in K2.NUMPY_BACKEND_MECHS or i % every:
            continue
        pt2 = Pt(pt.mech, pt.params, pt.value)
        pt2.backend = "numpy"
        try:
            with K2.backend("numpy"):
                measure(pt2)
        except seams.ScriptExhausted:
            ctx.count("numpy_backend_unmeasurable")
            continue
        except (ArithmeticError, ValueError, TypeError, AttributeError, RecursionError) as e:
            ctx.disagree(f"moments.{pt.mech}.numpy-backend-raises", {"params": pt.params, "value": pt.value}, "moments",
                         f"{type(e).__name__}: {e}")
            continue
        a = {k: v for k, v in pt.meas.items() if k in ("scale", "sigma", "half_width", "r", "bound", "prec")}
        b_ = {k: v for k, v in pt2.meas.items() if k in ("scale", "sigma", "half_width", "r", "bound", "prec")}
        same, key = K2.same_meas(a, b_)
        ctx.case(None)
        if same and not pt2.meas.get("map_mismatch"):
            ctx.count("numpy_backend_same")
            ctx.trace_ok()
            continue
        ctx.count("numpy_backend_differs")
        s0 = Ctx(PROPERTY, ctx.tier, 0)
        direct(s0, pt2)
        for v in s0.violations:
            sig = v["signature"]
            if sig.endswith(":wrong-value"):
                sig += ":numpy-backend"
            emit(ctx, sig, "with random_state = a numpy RandomState (the `except AttributeError/TypeError` branch of "
                           "randomise): " + v["what"], dict(v["data"], backend="numpy"))
        if not s0.violations:
            ctx.disagree(f"moments.{pt.mech}.numpy-backend", {"params": pt.params, "value": pt.value}, a, b_,
                         note="the sampler's scale depends on the type of random_state")


def gen_points(ctx, n):
    r = ctx.fork("points")
    names = list(WEIGHTS)
    tot = sum(WEIGHTS.values())
    pts = [Pt(m, dict(p), v) for m, p, v in FIXED]
    for _ in range(n):
        x = r.u01() * tot
        for nm in names:
            x -= WEIGHTS[nm]
            if x < 0:
                break
        pts.append(g_point(r.fork(nm), nm))
    return pts


def run_points(ctx, pts, mono=True):
    good = []
    for pt in pts:
        try:
            measure(pt)
        except seams.ScriptExhausted as e:
            ctx.disagree(f"moments.{pt.mech}.measure", {"params": pt.params, "value": pt.value}, "script exhausted", str(e))
            continue
        except (ArithmeticError, ValueError, TypeError, RecursionError) as e:
            ctx.disagree(f"moments.{pt.mech}.raises", {"params": pt.params, "value": pt.value}, "moments",
                         f"{type(e).__name__}: {e}")
            continue
        good.append(pt)
    all_lines, spans = [], []
    for pt in good:
        ls = lines(pt)
        spans.append((len(all_lines), len(ls)))
        all_lines += ls
    outs = leanio.run_driver("Continuous", all_lines) if all_lines else []
    r = ctx.fork("mono")
    for i, (pt, (a, n)) in enumerate(zip(good, spans)):
        if compare(ctx, pt, outs[a:a + n]):
            ctx.trace_ok()
        ctx.case(pt.key() if pt.params.get("sensitivity", 0) else None)
        direct(ctx, pt)
        if mono:
            monotone(ctx, pt, r.fork(i))
    numpy_backend_pass(ctx, good)
    for pt in good[:40:7]:
        ctx.sample({"mechanism": pt.mech, "params": pt.params, "value": pt.value,
                    "reported": {k: (float(v[0]) if v[0] is not None else v[1]) for k, v in pt.rep.items()},
                    "law_moments": [K2.fmt(x) for x in (true_moments(pt) or ())],
                    "measured_on_sampler": {k: v for k, v in pt.meas.items() if k != "r_exact"}})



# =========================================================================================== live-object sequences

LIVE_MECHS = ("Laplace", "LaplaceTruncated", "LaplaceFolded", "LaplaceBoundedDomain", "Geometric", "Gaussian",
              "GaussianAnalytic", "Uniform")


def easier(r, mech, p):
    """new valid parameters demanding LESS noise (the other direction of `c02.harder`)"""
    a = {}
    k = r.choice([k for k in ("epsilon", "sensitivity", "delta") if k in p])
    if k == "epsilon":
        a[k] = min(1.0 if mech == "Gaussian" else 50.0, p[k] * r.choice([2.0, 4.0]))
    elif k == "sensitivity":
        a[k] = max(1, p[k] // 2) if mech == "Geometric" else p[k] / r.choice([2.0, 10.0])
    else:
        hi = 0.5 if mech == "Uniform" else 0.99
        a[k] = min(hi, p[k] * 2) if p[k] > 0 else 0.25
    return {k: v for k, v in a.items() if v != p[k]}


def live_case(ctx, mech, p1, assigned, value, warm_seed, ops):
    """construct(p1) -> warm-up calls -> assign -> the moments the LIVE object reports must be the moments of the law its
    sampler now draws from (scale measured again on the live object)"""
    from ..core import Ctx
    p2 = dict(p1)
    p2.update(assigned)
    fresh = Pt(mech, p2, value)
    measure(fresh)
    s0 = Ctx(PROPERTY, ctx.tier, 0)
    direct(s0, fresh)
    if s0.violations:
        return "fresh-fails"                    # an (open) finding of the formula itself: the ordinary points report it
    live, ran = K2.live_sequence(mech, p1, assigned, warm_seed, ops)
    pt = Pt(mech, p2, value)
    with live.installed():
        measure(pt)
    s1 = Ctx(PROPERTY, ctx.tier, 0)
    direct(s1, pt)
    rep_same = all(feq(pt.rep[k][0], fresh.rep[k][0], 1e-9, 1e-300) for k in ("bias", "variance"))
    if s1.violations:
        data = {"mech": mech, "params": p2, "value": value,
                "live": {"constructed_with": p1, "assigned": assigned, "warm_seed": warm_seed, "ops": ops}}
        stale = [v for v in s1.violations if v["signature"].endswith(":wrong-value")]
        if not stale:
            # the deviation is one of the root-cause classes of the formula itself (rounding of a large intermediate …),
            # met at the scale the live object kept: it keeps its own signature
            for v in s1.violations:
                emit(ctx, v["signature"], f"live object: {mech}({p1}) -> {ran} -> assign {assigned}: " + v["what"], data)
            return "formula-class"
        emit(ctx, f"C19:{mech}:moments-stale-after-parameter-change",
             f"live object: {mech}({p1}) -> {ran} -> assign {assigned}: " + stale[0]["what"], data)
        return "stale-violates"
    if not rep_same:
        ctx.count("live_reported_differs_from_fresh_but_matches_its_sampler")
        return "stale-consistent"
    return "same"


def run_live(ctx):
    r = ctx.fork("live")
    n = ctx.budget(160, 3000)
    for i in range(n):
        mech = LIVE_MECHS[i % len(LIVE_MECHS)]
        rr = r.fork(i)
        pt0 = g_point(rr, mech)
        p1 = pt0.params
        if "lower" in p1:
            lo, hi = p1["lower"], p1["upper"]
            if not (math.isfinite(lo) and math.isfinite(hi)) or lo == hi:
                continue
            value = lo + (hi - lo) * rr.choice([0.5, rr.u01()])
        else:
            value = pt0.value
        if mech == "Geometric":
            a = {"epsilon": p1["epsilon"] * rr.choice([0.25, 0.5, 2.0, 4.0])} if rr.chance(0.6) else \
                {"sensitivity": int(p1["sensitivity"]) * 2 + 1}
            a = {k: (min(50.0, max(1e-3, v)) if k == "epsilon" else v) for k, v in a.items()}
        else:
            a = K2.harder(rr, mech, p1) if rr.chance(0.5) else easier(rr, mech, p1)
            a.pop("upper", None)
        if not a:
            continue
        ops = ["randomise"] + [o for o in ("variance", "bias", "mse") if rr.chance(0.4)]
        if rr.chance(0.3):
            ops = ops[1:] + ops[:1]
        try:
            res = live_case(ctx, mech, p1, a, value, rr.next(), ops)
        except seams.ScriptExhausted:
            ctx.count("live_unmeasurable")
            continue
        except (ArithmeticError, ValueError, TypeError, RecursionError) as e:
            ctx.disagree(f"live.{mech}.raises", {"constructed_with": p1, "assigned": a, "value": value}, "moments",
                         f"{type(e).__name__}: {e}")
            continue
        ctx.case(("live", mech, i) if res != "same" else None)
        ctx.count("live_" + res)
        if res in ("same", "stale-consistent"):
            ctx.trace_ok()



# =========================================================================================== noise-free configurations

NOISE_FREE_MECHS = ("LaplaceTruncated", "LaplaceFolded", "LaplaceBoundedDomain")


def noise_free_case(ctx, mech, p, value, streams):
    """a configuration in which the mechanism adds no noise (sensitivity 0, epsilon inf, delta 1, or a single-point
    domain): the output is a point mass, read off `randomise` on several scripted streams (both generator back-ends);
    bias / variance / mse must be its moments:  bias = output - value, variance = 0, mse = bias^2."""
    outs = []
    for k, us in enumerate(streams):
        with K2.backend("numpy" if k == len(streams) - 1 else "system"):
            m = K2.mk(mech, p, random_state=K2.srng(us))
            outs.append(float(quiet(m.randomise, value)))
    inp = {"mech": mech, "params": p, "value": value, "noise_free": True, "outputs": outs[:3]}
    desc = f"{mech}({', '.join(f'{k}={v!r}' for k, v in p.items())})"
    if any(o != outs[0] and not (o != o and outs[0] != outs[0]) for o in outs):
        emit(ctx, f"C19:{mech}:noise-free:not-a-point-mass",
             f"{desc}: no noise is called for, but randomise({value!r}) returns different values on different streams: {outs}", inp)
        return False
    out = outs[0]
    true = {"bias": out - value, "variance": 0.0, "mse": (out - value) ** 2}
    m = K2.mk(mech, p)
    ok = True
    for name in ("bias", "variance", "mse"):
        rep, err = call(getattr(m, name), value)
        if rep is None:
            if err != "NotImplementedError":
                emit(ctx, f"C19:{mech}:noise-free:moments", f"{desc}.{name}({value!r}) raises {err}; randomise always returns {out!r}", inp)
                ok = False
            continue
        r = float(rep)
        if r != r or abs(r - true[name]) > 1e-6 * abs(true[name]) + 1e-9:
            emit(ctx, f"C19:{mech}:noise-free:moments",
                 f"{desc}: no noise is added and randomise({value!r}) always returns {out!r} (a point mass: {name} = "
                 f"{true[name]!r}), but {name}({value!r}) reports {r!r}", inp)
            ok = False
    return ok


def gen_noise_free(r, mech):
    """(params, value): sensitivity 0 / epsilon inf / delta 1 / lower == upper  x  value inside / on / outside the domain"""
    kind = r.choice(["sens0", "sens0", "epsinf", "delta1", "point"])
    lo = r.choice([0.0, -1.0, r.uniform(-50, 50)])
    w = r.choice([1.0, r.loguniform(1e-3, 1e3)])
    p = {"epsilon": K2.g_eps(r), "delta": r.choice([0.0, 0.0, r.uniform(0.0, 0.9)]), "sensitivity": r.choice([1.0, r.loguniform(1e-3, 1e3)]),
         "lower": lo, "upper": lo + w}
    if kind == "sens0":
        p["sensitivity"] = 0.0
    elif kind == "epsinf":
        p["epsilon"] = math.inf
    elif kind == "delta1":
        p["delta"] = 1.0
    else:
        p["upper"] = lo
        if r.chance(0.4):
            p["sensitivity"] = 0.0
    scale_zero = p["sensitivity"] == 0 or math.isinf(p["epsilon"]) or p["delta"] == 1.0
    hi = p["upper"]
    if not scale_zero:
        value = lo          # single-point domain with a positive scale: only the point itself is "inside" — an outside
        #                     value there goes through the noisy closed forms (the open `value-outside-domain` class)
    else:
        value = r.choice([lo, hi, (lo + hi) / 2, lo + (hi - lo) * r.u01(), lo - r.choice([3.0, r.loguniform(1e-3, 1e3)]),
                          hi + r.choice([3.0, r.loguniform(1e-3, 1e3)]), lo - (hi - lo) * 2.5, hi + (hi - lo) * 7.25])
    return p, value


def run_noise_free(ctx):
    r = ctx.fork("noise-free")
    fixed = [("LaplaceBoundedDomain", {"epsilon": 1.0, "delta": 0.0, "sensitivity": 0.0, "lower": 0.0, "upper": 1.0}, -3.0),
             ("LaplaceTruncated", {"epsilon": 1.0, "delta": 0.0, "sensitivity": 0.0, "lower": 0.0, "upper": 1.0}, 4.0),
             ("LaplaceFolded", {"epsilon": 1.0, "delta": 0.0, "sensitivity": 0.0, "lower": 0.0, "upper": 1.0}, -3.25),
             ("LaplaceBoundedDomain", {"epsilon": math.inf, "delta": 0.0, "sensitivity": 1.0, "lower": 0.0, "upper": 1.0}, 2.0),
             ("LaplaceBoundedDomain", {"epsilon": 1.0, "delta": 1.0, "sensitivity": 1.0, "lower": 0.0, "upper": 1.0}, -0.5),
             ("LaplaceBoundedDomain", {"epsilon": 1.0, "delta": 0.0, "sensitivity": 1.0, "lower": 2.0, "upper": 2.0}, 2.0)]
    cases = list(fixed)
    for i in range(ctx.budget(90, 1500)):
        mech = NOISE_FREE_MECHS[i % len(NOISE_FREE_MECHS)]
        p, v = gen_noise_free(r.fork(i), mech)
        cases.append((mech, p, v))
    for i, (mech, p, v) in enumerate(cases):
        rr = r.fork(("s", i))
        streams = [[rr.u01() for _ in range(64)] for _ in range(3)] + [[rr.u01() for _ in range(64)]]
        try:
            ok = noise_free_case(ctx, mech, p, v, streams)
        except seams.ScriptExhausted:
            emit(ctx, f"C19:{mech}:noise-free:not-a-point-mass",
                 f"{mech}({p}).randomise({v!r}) consumed more than 64 uniforms although no noise is called for",
                 {"mech": mech, "params": p, "value": v, "noise_free": True})
            continue
        except (ArithmeticError, ValueError, TypeError, RecursionError) as e:
            ctx.disagree(f"moments.{mech}.noise-free-raises", {"params": p, "value": v}, "moments", f"{type(e).__name__}: {e}")
            continue
        ctx.case(("noise-free", mech, i))
        ctx.count("noise_free_cases")
        if ok:
            ctx.trace_ok()


def check(ctx):
    K2._honour_scale(ctx)
    pts = gen_points(ctx, ctx.budget(1200, 30000))
    for h in getattr(ctx, "hints", []) or []:
        inp = h.get("input")
        u = h.get("unit", "")
        if u.startswith("moments.") and isinstance(inp, dict) and "params" in inp:
            from ..core import unjson_float as uj
            mech = u.split(".")[1]
            p = {k: uj(v) for k, v in inp["params"].items()}
            if mech == "Geometric":
                p["sensitivity"] = int(p["sensitivity"])
            pts.insert(0, Pt(mech, p, uj(inp.get("value", 0.0))))
    run_points(ctx, pts)
    run_live(ctx)
    run_noise_free(ctx)


def replay(ctx, data):
    from ..core import unjson_float as uj
    dd = data["data"]
    p = {k: uj(v) for k, v in dd["params"].items()}
    if dd["mech"] == "Geometric":
        p["sensitivity"] = int(p["sensitivity"])
    v = uj(dd["value"])
    if dd["mech"] == "Geometric":
        v = int(v)
    pt = Pt(dd["mech"], p, v)
    before = len(ctx.violations)
    if dd.get("noise_free"):
        rr = gen.SplitMix64(12345)
        streams = [[rr.u01() for _ in range(64)] for _ in range(4)]
        return not noise_free_case(ctx, dd["mech"], p, v, streams)
    if "live" in dd:
        lv = dd["live"]
        p1 = {k: uj(x) for k, x in lv["constructed_with"].items()}
        asg = {k: uj(x) for k, x in lv["assigned"].items()}
        if dd["mech"] == "Geometric":
            p1["sensitivity"] = int(p1["sensitivity"])
            if "sensitivity" in asg:
                asg["sensitivity"] = int(asg["sensitivity"])
        return live_case(ctx, dd["mech"], p1, asg, v, int(lv["warm_seed"]), list(lv["ops"])) in ("stale-violates",
                                                                                                  "formula-class")
    if "changed" in dd:
        # monotonicity record
        cls = getattr(M, pt.mech)
        v0 = float(call(cls(**p).variance, v)[0])
        q = dict(p)
        q[dd["changed"]] = uj(dd["to"])
        if dd["mech"] == "Geometric" and dd["changed"] == "sensitivity":
            q["sensitivity"] = int(q["sensitivity"])
        v1 = float(call(cls(**q).variance, v)[0])
        sign = -1 if dd["changed"] == "epsilon" else 1
        slack = mono_rel(dd["mech"], p) * max(abs(v0), abs(v1))
        return (sign < 0 and v1 > v0 + slack) or (sign > 0 and v1 < v0 - slack) or v1 != v1
    if dd.get("backend") == "numpy":
        pt.backend = "numpy"
        with K2.backend("numpy"):
            measure(pt)
    else:
        measure(pt)
    direct(ctx, pt)
    return len(ctx.violations) > before


# =========================================================================================== known-finding witnesses

_U = {"epsilon": 1.0, "delta": 0.0, "sensitivity": 1.0, "lower": 0.0, "upper": 1.0}
_INF = dict(_U, upper=math.inf)
WITNESS_INPUTS = {
    "C19:LaplaceTruncated:value-outside-domain": ("LaplaceTruncated", _U, 3.0),
    "C19:LaplaceFolded:value-outside-domain": ("LaplaceFolded", _U, 3.0),
    "C19:LaplaceBoundedDomain:value-outside-domain": ("LaplaceBoundedDomain", _U, 3.0),
    "C19:LaplaceTruncated:nan-infinite-bound": ("LaplaceTruncated", _INF, 0.5),
    "C19:LaplaceBoundedDomain:nan-infinite-bound": ("LaplaceBoundedDomain", _INF, 0.5),
    "C19:LaplaceFolded:nan-infinite-bound": ("LaplaceFolded", dict(_U, lower=-math.inf, upper=1.0), 0.5),
    "C19:LaplaceTruncated:float-cancellation": (
        "LaplaceTruncated", {"epsilon": 0.01, "delta": 0.2501024665196015, "sensitivity": 1e6, "lower": -0.0005,
                             "upper": 0.0005}, -0.00049),
    "C19:LaplaceFolded:float-cancellation": (
        "LaplaceFolded", {"epsilon": 0.0024647771433359018, "delta": 0.0, "sensitivity": 1e6, "lower": 0.0, "upper": 0.001},
        0.0005706915959844733),
    "C19:LaplaceBoundedDomain:float-cancellation": (
        "LaplaceBoundedDomain", {"epsilon": 1.0, "delta": 0.0, "sensitivity": 1.0, "lower": 1e7, "upper": 1e7 + 10}, 1e7 + 3),
    # regression witness of a defect fixed in /repo (21336e0): no longer expected to fail
    "C19:LaplaceFolded:nan-overflow": ("LaplaceFolded", dict(_U, upper=1000.0), 1.0),
    # zero sensitivity with the value exactly ON a bound: exp(0/0)
    "C19:LaplaceFolded:nan-zero-sensitivity": ("LaplaceFolded", dict(_U, sensitivity=0.0), 1.0),
    "C19:LaplaceTruncated:nan-zero-sensitivity": ("LaplaceTruncated", dict(_U, sensitivity=0.0), 1.0),
    "C19:LaplaceBoundedDomain:nan-zero-sensitivity": ("LaplaceBoundedDomain", dict(_U, sensitivity=0.0), 1.0),
}


def _witness(sig):
    def w(ctx):
        from .. import core
        mech, p, v = WITNESS_INPUTS[sig]
        pt = Pt(mech, dict(p), v)
        measure(pt)
        c2 = core.Ctx("C19", "quick", 0)
        direct(c2, pt)
        hits = [x for x in c2.violations if x["signature"] == sig]
        return bool(hits), (hits[0]["what"] if hits else f"{mech}({p}) at value {v}: no longer fails")
    return w


WITNESSES = {sig: _witness(sig) for sig in WITNESS_INPUTS}


def generate(ctx):
    """translator tie: the closed-form moments are re-read from /repo's AST on every run (symbolic value of each
    straight-line method body), translated to Lean terms over ℝ and proved equal to the model's (harness/anchors.py)"""
    from .. import anchors
    from ..shim import REPO
    r = anchors.build(REPO, "C19", ["DPL.Model.Moments", "DPL.Model.Calibration"], anchors.c19_specs(), opens="DPL.Cont")
    ctx.count("formula_anchors", r["obligations"])
    if r["errors"]:
        r["unavailable"] = r["errors"]      # anchors that could not be located / translated (not failed obligations)
    return r
