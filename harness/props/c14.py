"""C14 — unseeded noise comes from the OS CSPRNG, not from seedable global generators (DESIGN.md §6 C14)."""
import random
import secrets
import warnings

from ..shim import dp, np
from .. import leanio, seams

PROPERTY = "C14"
LEAN_MODULE = "DPL.Properties.C14"
TRUSTED = [
    "modelled, not verified: CPython's secrets.SystemRandom -> os.urandom and the quality of the OS CSPRNG; that "
    "np.random.default_rng() (Staircase, Bingham) is seeded from OS entropy and shares no state with the global "
    "generators; sklearn.utils.check_random_state's three cases (None -> global singleton, int -> RandomState(int), "
    "RandomState -> itself)",
    "the plumbing of `random_state` through every entry point (which object reaches which mechanism constructor) is "
    "hand-modelled (DPL/Model/Rng.lean `plan`) and tied to /repo dynamically by this run: the class of `_rng` of EVERY "
    "mechanism instance constructed during each entry point, for five kinds of random_state, is compared with the plan",
    "the plumbing is ALSO tied statically: harness/translate/rngsites.py re-reads the AST of every module under "
    "diffprivlib/ on every run and regenerates the table of randomness sites (check_random_state calls, global generator "
    "APIs, draws with the origin of their generator, hand-overs of generators/seeds, generator attributes) as "
    "DPL/Generated/C14Sites.lean; Lean decides 8 obligations against the hand tables of DPL/Model/RngSites.lean. TRUSTED "
    "there: that the translator is a sound abstraction of the Python it reads - its dataflow is INTRA-procedural only "
    "(what a callee does with the generator it is handed is read from the callee's own sites; each function is "
    "evaluated for its own random_state in {None, global singleton, SystemRandom}), generator objects are recognised "
    "by where they come from and parameters/attributes by NAME (random_state, _rng, rng, seed), *args/**kwargs "
    "forwarding, getattr/setattr with computed names and monkey-patching are invisible; sklearn's "
    "_make_estimator(random_state=r) drawing r.randint() and joblib's delayed() are hand-stated (externalPasses); "
    "constructs it does not follow make the static tie 'unavailable' (correspondence then runs at 10x)",
    "which draws are 'noise' (privacy-relevant) and which are 'structural' (KMeans initial centres, tree split "
    "features/thresholds, forest row shuffling, derived sub-seeds) is a modelling decision taken from the property text",
]
UNPROVED = [
    "that different OS-CSPRNG draws give different outputs (coincidence < 2^-40 for the compared vectors) and that "
    "the global generators' state is untouched are observed black-box on the running code, not proved",
]
RULE = ("every entry point (21 mechanisms, 15 tools incl. integer-dtype and axis variants, 8 estimators, covariance_eig) "
        "x random_state in {None, int, RandomState, global singleton, SystemRandom, str}: class of `_rng` of every "
        "mechanism instance vs the model's plan; and, with random_state=None, for several global seeds s: two runs each "
        "preceded by np.random.seed(s); random.seed(s) must differ, mechanisms/tools must leave np.random.get_state() and "
        "random.getstate() unchanged; a case is non-trivial when the entry point constructs at least one mechanism; "
        "distinct by (entry, variant, seed kind | global seed)")

M = dp.mechanisms
T = dp.tools
MD = dp.models

# ------------------------------------------------------------------------------------------------ entry points
# every runner takes the value for `random_state=` and returns a flat list of outputs to compare between runs.
# Sizes are chosen so that two independent unseeded runs coincide with probability < 2^-40:
#   continuous outputs: >= 3 doubles;  near-uniform discrete outputs: >= 200 draws with per-draw collision <= 0.75


def _rep(make, value, n):
    return (make, lambda m: [m.randomise(value) for _ in range(n)])


def _rep0(make, n):
    return (make, lambda m: [m.randomise() for _ in range(n)])


def _vector_draw(m):
    f = m.randomise(lambda x: 0.0)
    return [float(f(e)) for e in np.eye(4)]


_BINGHAM_A = np.array([[2.0, 0.5, 0.1], [0.5, 1.0, 0.2], [0.1, 0.2, 0.5]])


UL = [("a", "b", 1), ("a", "c", 1), ("b", "c", 1), ("a", "d", 1), ("b", "d", 1), ("c", "d", 1)]
MECH_PARTS = {
    "Binary": _rep(lambda rs: M.Binary(epsilon=0.1, value0="a", value1="b", random_state=rs), "a", 256),
    "Bingham": (lambda rs: M.Bingham(epsilon=1.0, random_state=rs),
                lambda m: list(np.ravel([m.randomise(_BINGHAM_A) for _ in range(2)]))),
    "Exponential": _rep0(lambda rs: M.Exponential(epsilon=0.1, sensitivity=1, utility=[0.0] * 4, random_state=rs), 256),
    "PermuteAndFlip": _rep0(lambda rs: M.PermuteAndFlip(epsilon=0.1, sensitivity=1, utility=[0.0] * 4, random_state=rs), 256),
    "ExponentialCategorical": _rep(lambda rs: M.ExponentialCategorical(epsilon=0.1, utility_list=UL, random_state=rs), "a", 256),
    "ExponentialHierarchical": _rep(lambda rs: M.ExponentialHierarchical(epsilon=0.1, hierarchy=[["a", "b"], ["c", "d"]],
                                                                        random_state=rs), "a", 256),
    "Gaussian": _rep(lambda rs: M.Gaussian(epsilon=0.5, delta=0.1, sensitivity=1.0, random_state=rs), 0.0, 4),
    "GaussianAnalytic": _rep(lambda rs: M.GaussianAnalytic(epsilon=0.5, delta=0.1, sensitivity=1.0, random_state=rs), 0.0, 4),
    "GaussianDiscrete": _rep(lambda rs: M.GaussianDiscrete(epsilon=0.5, delta=0.1, sensitivity=1, random_state=rs), 0, 128),
    "Geometric": _rep(lambda rs: M.Geometric(epsilon=0.1, sensitivity=1, random_state=rs), 0, 128),
    "GeometricTruncated": _rep(lambda rs: M.GeometricTruncated(epsilon=0.1, sensitivity=1, lower=-1000, upper=1000,
                                                               random_state=rs), 0, 128),
    "GeometricFolded": _rep(lambda rs: M.GeometricFolded(epsilon=0.1, sensitivity=1, lower=-1000, upper=1000,
                                                         random_state=rs), 0, 128),
    "Laplace": _rep(lambda rs: M.Laplace(epsilon=1.0, sensitivity=1.0, random_state=rs), 0.0, 4),
    "LaplaceTruncated": _rep(lambda rs: M.LaplaceTruncated(epsilon=1.0, sensitivity=1.0, lower=-100, upper=100,
                                                           random_state=rs), 0.0, 4),
    "LaplaceFolded": _rep(lambda rs: M.LaplaceFolded(epsilon=1.0, sensitivity=1.0, lower=-100, upper=100,
                                                     random_state=rs), 0.0, 4),
    "LaplaceBoundedDomain": _rep(lambda rs: M.LaplaceBoundedDomain(epsilon=1.0, sensitivity=1.0, lower=-100, upper=100,
                                                                   random_state=rs), 0.0, 4),
    "LaplaceBoundedNoise": _rep(lambda rs: M.LaplaceBoundedNoise(epsilon=1.0, delta=0.1, sensitivity=1.0,
                                                                 random_state=rs), 0.0, 4),
    "Snapping": _rep(lambda rs: M.Snapping(epsilon=0.1, sensitivity=1.0, lower=-1000.0, upper=1000.0, random_state=rs), 0.0, 256),
    "Staircase": _rep(lambda rs: M.Staircase(epsilon=1.0, sensitivity=1.0, random_state=rs), 0.0, 4),
    "Uniform": _rep(lambda rs: M.Uniform(delta=0.1, sensitivity=1.0, random_state=rs), 0.0, 4),
    "Vector": (lambda rs: M.Vector(epsilon=1.0, function_sensitivity=1.0, dimension=4, random_state=rs), _vector_draw),
}
MECHS = {n: (lambda mk, dr: (lambda rs: dr(mk(rs))))(mk, dr) for n, (mk, dr) in MECH_PARTS.items()}


# looping samplers in LOW-ACCEPTANCE configurations (acceptance 1e-2 … 1e-4: long rejection runs, big batches) and other
# parameter regions that take a different path through randomise: (mechanism, variant, make, draw)
MECH_EXTRA = [
    ("LaplaceBoundedDomain", "low-acceptance", lambda rs: M.LaplaceBoundedDomain(epsilon=1e-3, sensitivity=1.0, lower=0.0,
                                                                                upper=1.0, random_state=rs),
     lambda m: [m.randomise(0.5) for _ in range(4)]),
    ("LaplaceBoundedDomain", "narrow-domain", lambda rs: M.LaplaceBoundedDomain(epsilon=0.05, sensitivity=1.0, lower=0.0,
                                                                               upper=0.01, random_state=rs),
     lambda m: [m.randomise(0.005) for _ in range(4)]),
    ("LaplaceBoundedNoise", "low-acceptance", lambda rs: M.LaplaceBoundedNoise(epsilon=1e-3, delta=0.4, sensitivity=1.0,
                                                                              random_state=rs),
     lambda m: [m.randomise(0.0) for _ in range(4)]),
    ("LaplaceBoundedNoise", "low-acceptance-2", lambda rs: M.LaplaceBoundedNoise(epsilon=1e-4, delta=0.49, sensitivity=1.0,
                                                                                random_state=rs),
     lambda m: [m.randomise(0.0) for _ in range(4)]),
    ("GaussianDiscrete", "wide", lambda rs: M.GaussianDiscrete(epsilon=0.01, delta=0.01, sensitivity=1, random_state=rs),
     lambda m: [m.randomise(0) for _ in range(24)]),
    ("Bingham", "sharp", lambda rs: M.Bingham(epsilon=30.0, random_state=rs),
     lambda m: list(np.ravel([m.randomise(np.diag([5.0, 1.0, 0.2, 0.0])) for _ in range(2)]))),
    ("PermuteAndFlip", "steep", lambda rs: M.PermuteAndFlip(epsilon=0.2, sensitivity=1, utility=[0.0] * 4 + [-50.0] * 60,
                                                            random_state=rs),
     lambda m: [m.randomise() for _ in range(128)]),
    # long candidate lists (a size-dependent code path — e.g. a vectorised visiting order — must still draw from `_rng`): equal
    # utilities, so the first visited candidate is accepted and the selection IS the visiting order (seeded change C14-14)
    ("PermuteAndFlip", "long:200-equal", lambda rs: M.PermuteAndFlip(epsilon=0.5, sensitivity=1, utility=[0.0] * 200, random_state=rs),
     lambda m: [m.randomise() for _ in range(16)]),
    ("Exponential", "long:300", lambda rs: M.Exponential(epsilon=0.5, sensitivity=1, utility=[0.0] * 300, random_state=rs),
     lambda m: [m.randomise() for _ in range(16)]),
    ("Geometric", "tiny-epsilon", lambda rs: M.Geometric(epsilon=1e-6, sensitivity=1, random_state=rs),
     lambda m: [m.randomise(0) for _ in range(8)]),
    ("Snapping", "tiny-sensitivity", lambda rs: M.Snapping(epsilon=1.0, sensitivity=1e-6, lower=-1.0, upper=1.0, random_state=rs),
     lambda m: [m.randomise(0.0) for _ in range(64)]),
    ("Staircase", "tiny-epsilon", lambda rs: M.Staircase(epsilon=1e-3, sensitivity=1.0, random_state=rs),
     lambda m: [m.randomise(0.0) for _ in range(4)]),
]


def _pickle_roundtrip(m):
    import pickle
    return pickle.loads(pickle.dumps(m))


def _copy_ways():
    import copy
    return {"copy()": ("shallow", lambda m: m.copy()), "copy.copy": ("shallow", copy.copy),
            "copy.deepcopy": ("deep", copy.deepcopy), "pickle": ("deep", _pickle_roundtrip)}


COPY_WAYS = _copy_ways()

_DATA = {}


def data():
    if "X" not in _DATA:
        rs = np.random.RandomState(12345)
        X = rs.uniform(0, 1, (1500, 16))
        _DATA["X"] = X
        _DATA["Xi"] = rs.randint(0, 11, (1500, 16))
        Xm = rs.uniform(-1, 1, (240, 3)) / np.sqrt(3)
        _DATA["Xm"] = Xm
        _DATA["y3"] = np.arange(240) % 3
        _DATA["y2"] = (Xm[:, 0] + 0.3 * rs.normal(size=240) > 0).astype(int)
        _DATA["yr"] = np.clip(Xm @ np.array([0.5, -0.3, 0.2]), -1, 1)
    return _DATA


def flat(x):
    if isinstance(x, tuple):
        out = []
        for y in x:
            out += flat(y)
        return out
    return list(np.ravel(np.asarray(x, dtype=object if isinstance(x, list) and x and isinstance(x[0], str) else None)))


def acc():
    return dp.BudgetAccountant()


def cont(**arrays):
    """continuous outputs: EVERY scalar carries noise and is compared on its own (coincidence ~2^-50 per double)"""
    sc = []
    for name, a in arrays.items():
        for i, v in enumerate(np.ravel(np.asarray(a, dtype=float))):
            sc.append((f"{name}[{i}]", float(v)))
    return {"scalars": sc, "groups": {}}


def disc(**groups):
    """discrete outputs: each named group (a cell over repeated calls, one tree's labels) is compared as a whole; the
    groups are sized so that two independent runs coincide with probability < 2^-40"""
    return {"scalars": [], "groups": {k: list(v) for k, v in groups.items()}}


def repeat_cells(f, reps):
    """call an integer-valued tool `reps` times; one group per output cell"""
    runs = [list(np.ravel(f())) for _ in range(reps)]
    return disc(**{f"cell{i}": [r[i] for r in runs] for i in range(len(runs[0]))})


def _tool(name, **kw):
    def run(rs):
        d = data()
        return cont(cell=getattr(T, name)(d["X"], epsilon=1.0, bounds=(0.0, 1.0), axis=0, random_state=rs, accountant=acc(),
                                          **kw))
    return run


def _quantile_frac(rs):
    """all data equal to 0.5 in (0, 1): only the two intervals [0, .5], [.5, 1] have measure, so out mod 0.5 is the
    within-interval uniform itself"""
    x = np.full(50, 0.5)
    return cont(frac=[float(T.quantile(x, 0.5, epsilon=1.0, bounds=(0.0, 1.0), random_state=rs, accountant=acc()) % 0.5)
                      for _ in range(3)])


def _wide():
    """200 x 1024: many output cells for the per-cell wrapper"""
    if "W" not in _DATA:
        _DATA["W"] = np.random.RandomState(77).uniform(0, 1, (200, 1024))
    return _DATA["W"]


def _x3():
    if "X3" not in _DATA:
        _DATA["X3"] = np.random.RandomState(78).uniform(0, 1, (3000, 3))
    return _DATA["X3"]


def chunks(hist, n=16):
    """one call on a BIG grid; the cells are compared in `n` groups (each a long integer vector)"""
    flat_ = list(np.ravel(hist))
    step = max(1, len(flat_) // n)
    return disc(**{f"cells{i}": flat_[i * step:(i + 1) * step] for i in range(n)})


TOOLS = {
    "count_nonzero": [("big:1024-columns", lambda rs: chunks(T.count_nonzero(
        _wide() > 0.5, epsilon=0.05, axis=0, random_state=rs, accountant=acc()), 8)),("axis0", lambda rs: repeat_cells(lambda: T.count_nonzero(
        data()["X"] > 0.5, epsilon=0.05, axis=0, random_state=rs, accountant=acc()), 8))],
    "mean": [("axis0", _tool("mean")),
             ("scalar", lambda rs: cont(call=[T.mean(data()["X"], epsilon=1.0, bounds=(0.0, 1.0), random_state=rs,
                                                     accountant=acc()) for _ in range(3)]))],
    "nanmean": [("axis0", _tool("nanmean")),
                ("big:1024-columns", lambda rs: cont(cell=T.nanmean(_wide(), epsilon=500.0, bounds=(0.0, 1.0), axis=0,
                                                                    random_state=rs, accountant=acc())[::8]))],
    "var": [("axis0", _tool("var")),
            ("big:256-columns", lambda rs: cont(cell=T.var(_wide()[:, :256], epsilon=200.0, bounds=(0.0, 1.0), axis=0,
                                                            random_state=rs, accountant=acc())[::4]))],
    "nanvar": [("axis0", _tool("nanvar"))],
    "std": [("axis0", _tool("std"))],
    "nanstd": [("axis0", _tool("nanstd"))],
    "sum": [("axis0", _tool("sum")),
            ("big:1024-columns", lambda rs: cont(cell=T.sum(_wide(), epsilon=200.0, bounds=(0.0, 1.0), axis=0, random_state=rs,
                                                            accountant=acc())[::8])),
            ("int", lambda rs: repeat_cells(lambda: T.sum(data()["Xi"][:, :6], epsilon=0.5, bounds=(0, 10), axis=0, dtype=int,
                                                          random_state=rs, accountant=acc()), 10))],
    "nansum": [("axis0", _tool("nansum")),
               ("int", lambda rs: repeat_cells(lambda: T.nansum(data()["Xi"][:, :6], epsilon=0.5, bounds=(0, 10), axis=0,
                                                                dtype=int, random_state=rs, accountant=acc()), 10))],
    # `weights:` = the rarely used `weights=` keyword (a separate noise branch must still go through a mechanism; seeded C14-15)
    "histogram": [("big:2^15-bins", lambda rs: chunks(T.histogram(_x3()[:, 0], epsilon=0.05, bins=2 ** 15, range=(0.0, 1.0),
                                                                  random_state=rs, accountant=acc())[0])),
                  ("8bins", lambda rs: repeat_cells(lambda: T.histogram(
        data()["X"][:, 0], epsilon=0.05, bins=8, range=(0.0, 1.0), random_state=rs, accountant=acc())[0], 8)),
                  ("weights:8bins", lambda rs: repeat_cells(lambda: T.histogram(
        data()["X"][:, 0], epsilon=0.05, bins=8, range=(0.0, 1.0), weights=np.linspace(0.5, 1.5, data()["X"].shape[0]),
        random_state=rs, accountant=acc())[0], 8))],
        "histogramdd": [("big:26x26x26", lambda rs: chunks(T.histogramdd(_x3(), epsilon=0.05, bins=26, range=[(0.0, 1.0)] * 3,
                                                                     random_state=rs, accountant=acc())[0])),
                    ("big:130x130", lambda rs: chunks(T.histogramdd(_x3()[:, :2], epsilon=0.05, bins=130,
                                                                    range=[(0.0, 1.0)] * 2, random_state=rs,
                                                                    accountant=acc())[0])),
                    ("3x3", lambda rs: repeat_cells(lambda: T.histogramdd(
        data()["X"][:, :2], epsilon=0.05, bins=3, range=[(0.0, 1.0), (0.0, 1.0)], random_state=rs, accountant=acc())[0], 8))],
    "histogram2d": [("big:150x150", lambda rs: chunks(T.histogram2d(_x3()[:, 0], _x3()[:, 1], epsilon=0.05, bins=150,
                                                                    range=[(0.0, 1.0)] * 2, random_state=rs,
                                                                    accountant=acc())[0])),
                    ("3x3", lambda rs: repeat_cells(lambda: T.histogram2d(
        data()["X"][:, 0], data()["X"][:, 1], epsilon=0.05, bins=3, range=[(0.0, 1.0), (0.0, 1.0)], random_state=rs,
        accountant=acc())[0], 8))],
    "quantile": [("big:1024-columns", lambda rs: cont(cell=T.quantile(_wide(), 0.5, epsilon=1.0, bounds=(0.0, 1.0), axis=0,
                                                                    random_state=rs, accountant=acc())[::8])),
                 ("axis0", lambda rs: cont(cell=T.quantile(data()["X"], 0.3, epsilon=1.0, bounds=(0.0, 1.0), axis=0,
                                                           random_state=rs, accountant=acc()))),
                 ("multi", lambda rs: cont(q=T.quantile(data()["X"][:, 0], [0.2, 0.5, 0.8], epsilon=1.0, bounds=(0.0, 1.0),
                                                        random_state=rs, accountant=acc()))),
                 ("within-interval-uniform", _quantile_frac)],
    "percentile": [("axis0", lambda rs: cont(cell=T.percentile(data()["X"], 30, epsilon=1.0, bounds=(0.0, 1.0), axis=0,
                                                               random_state=rs, accountant=acc())))],
    "median": [("axis0", lambda rs: cont(cell=T.median(data()["X"], epsilon=1.0, bounds=(0.0, 1.0), axis=0, random_state=rs,
                                                       accountant=acc())))],
}

B3 = (-np.ones(3), np.ones(3))


def _leaf_labels(tree, X=None, empty_only=False):
    t = tree.tree_
    leaf = t.children_left == -1
    lab = t.value[:, 0, :].argmax(axis=1)
    if empty_only:
        reached = np.zeros(t.node_count, bool)
        reached[tree.apply(np.asarray(X, dtype=np.float32))] = True
        leaf = leaf & ~reached
    return list(lab[leaf])


def _forest_out(f, last=None):
    d = data()
    f.fit(d["Xm"], d["y3"])
    trees = f.estimators_ if last is None else f.estimators_[-last:]
    return disc(**{f"tree{i}": _leaf_labels(e) for i, e in enumerate(trees)})


def _tree_out(t):
    d = data()
    return disc(labels=_leaf_labels(t.fit(d["Xm"], d["y3"])))


_X1 = np.array([[0.1, 0.2, 0.3]])


def _tree_empty_out(t):
    t.fit(_X1, np.array([1]))
    return disc(empty_leaves=_leaf_labels(t, _X1, empty_only=True))


def _pca_out(p):
    p.fit(data()["Xm"])
    return cont(components=p.components_, explained_variance=p.explained_variance_, mean=p.mean_)


def _cov(rs):
    from diffprivlib.models.utils import covariance_eig
    v, u = covariance_eig(data()["Xm"], epsilon=2.0, norm=1.5, random_state=rs)
    return cont(eigenvalues=v, eigenvectors=u)


def _scaler_out(s_):
    s_.fit(data()["Xm"])
    return cont(mean=s_.mean_, var=s_.var_)


def _scaler_partial(s_):
    s_.partial_fit(data()["Xm"])
    return cont(mean=s_.mean_, var=s_.var_)


def _nb_out(e):
    e.fit(data()["Xm"], data()["y3"])
    return cont(theta=e.theta_, var=e.var_)


def _nb_partial(e):
    e.partial_fit(data()["Xm"], data()["y3"], classes=[0, 1, 2])
    return cont(theta=e.theta_, var=e.var_)


def _linreg_out(m):
    m.fit(data()["Xm"], data()["yr"])
    return cont(coef=m.coef_, intercept=m.intercept_)


def _lr_out(key):
    def out(e):
        e.fit(data()["Xm"], data()[key])
        return cont(coef=e.coef_, intercept=e.intercept_)
    return out


def _forest_warm_first(f):
    f.fit(data()["Xm"], data()["y3"])


def _forest_warm_second(f):
    f.set_params(n_estimators=4)
    return _forest_out(f, last=2)


def _forest_make(rs, **kw):
    return MD.RandomForestClassifier(n_estimators=kw.pop("n_estimators", 3), epsilon=0.05, bounds=B3, classes=[0, 1, 2, 3],
                                     max_depth=5, random_state=rs, accountant=acc(), **kw)


# name -> [(variant, make(random_state) -> unfitted estimator, fit_and_read(estimator) -> outputs)]
MODEL_PARTS = {
    "GaussianNB": [("fit", lambda rs: MD.GaussianNB(epsilon=1.0, bounds=B3, random_state=rs, accountant=acc()), _nb_out)],
    "KMeans": [("fit", lambda rs: MD.KMeans(n_clusters=2, epsilon=5.0, bounds=B3, random_state=rs, accountant=acc()),
                lambda e: cont(centers=e.fit(data()["Xm"]).cluster_centers_))],
    "StandardScaler": [("fit", lambda rs: MD.StandardScaler(epsilon=1.0, bounds=B3, random_state=rs, accountant=acc()),
                        _scaler_out)],
    "LinearRegression": [("fit", lambda rs: MD.LinearRegression(epsilon=2.0, bounds_X=B3, bounds_y=(-1.0, 1.0),
                                                                random_state=rs, accountant=acc()), _linreg_out)],
    "LogisticRegression": [("binary", lambda rs: MD.LogisticRegression(epsilon=2.0, data_norm=1.5, max_iter=30,
                                                                       random_state=rs, accountant=acc()), _lr_out("y2")),
                           ("ovr", lambda rs: MD.LogisticRegression(epsilon=2.0, data_norm=1.5, max_iter=30,
                                                                    random_state=rs, accountant=acc()), _lr_out("y3")),
                           # one-vs-rest problems in WORKER PROCESSES (loky): whatever is handed to a task is pickled
                           ("ovr,n_jobs=2", lambda rs: MD.LogisticRegression(epsilon=2.0, data_norm=1.5, max_iter=30, n_jobs=2,
                                                                             random_state=rs, accountant=acc()),
                            _lr_out("y3"))],
    "PCA": [("fit", lambda rs: MD.PCA(n_components=2, epsilon=2.0, bounds=B3, data_norm=2.5, random_state=rs,
                                      accountant=acc()), _pca_out)],
    "RandomForestClassifier": [("fit", lambda rs: _forest_make(rs), _forest_out),
                               ("fit,n_jobs=2", lambda rs: _forest_make(rs, n_jobs=2), _forest_out),
                               ("fit,shuffle", lambda rs: _forest_make(rs, shuffle=True), _forest_out)],
    "DecisionTreeClassifier": [("fit", lambda rs: MD.DecisionTreeClassifier(
        epsilon=0.05, bounds=B3, classes=[0, 1, 2, 3], max_depth=5, random_state=rs, accountant=acc()), _tree_out),
        ("empty-leaf-label", lambda rs: MD.DecisionTreeClassifier(
            epsilon=1.0, bounds=B3, classes=[0, 1, 2, 3], max_depth=5, random_state=rs, accountant=acc()),
         _tree_empty_out)],
}

def _big_data():
    if "Bx" not in _DATA:
        rs = np.random.RandomState(79)
        _DATA["Bx"] = rs.uniform(-1, 1, (1200, 24)) / np.sqrt(24)
        _DATA["By"] = np.arange(1200) % 40
    return _DATA["Bx"], _DATA["By"]


BB = (-np.ones(24), np.ones(24))
# size-dependent paths: many features / classes / trees / clusters (run directly only, not through the copy ways)
BIG_MODEL_PARTS = {
    "GaussianNB": [("big:40-classes-24-features", lambda rs: MD.GaussianNB(epsilon=5.0, bounds=BB, random_state=rs,
                                                                           accountant=acc()),
                    lambda e: cont(theta=e.fit(*_big_data()).theta_[::5, ::6]))],
    "KMeans": [("big:8-clusters-24-features", lambda rs: MD.KMeans(n_clusters=8, epsilon=50.0, bounds=BB, random_state=rs,
                                                                   accountant=acc()),
                lambda e: cont(centers=e.fit(_big_data()[0]).cluster_centers_[:, ::6]))],
    "StandardScaler": [("big:24-features", lambda rs: MD.StandardScaler(epsilon=5.0, bounds=BB, random_state=rs,
                                                                       accountant=acc()),
                        lambda e: cont(mean=e.fit(_big_data()[0]).mean_))],
    "LinearRegression": [("big:24-features", lambda rs: MD.LinearRegression(epsilon=20.0, bounds_X=BB, bounds_y=(-1.0, 1.0),
                                                                           random_state=rs, accountant=acc()),
                          lambda e: cont(coef=e.fit(_big_data()[0], np.clip(_big_data()[0].sum(axis=1), -1, 1)).coef_[::3]))],
    "LogisticRegression": [("big:10-classes", lambda rs: MD.LogisticRegression(epsilon=20.0, data_norm=1.5, max_iter=15,
                                                                              random_state=rs, accountant=acc()),
                            lambda e: cont(coef=e.fit(_big_data()[0], _big_data()[1] % 10).coef_[:, ::8]))],
    "PCA": [("big:24-features", lambda rs: MD.PCA(n_components=6, epsilon=20.0, bounds=BB, data_norm=2.5, random_state=rs,
                                                  accountant=acc()),
             lambda e: (lambda p_: cont(components=p_.components_[:, ::6], explained_variance=p_.explained_variance_))(
                 e.fit(_big_data()[0])))],
    "RandomForestClassifier": [("big:48-trees", lambda rs: MD.RandomForestClassifier(
        n_estimators=48, epsilon=0.5, bounds=BB, classes=list(range(40)), max_depth=5, random_state=rs, accountant=acc()),
        lambda f: (lambda f_: disc(**{f"tree{i}": _leaf_labels(t) for i, t in enumerate(f_.estimators_)}))(
            f.fit(*_big_data())))],
    "DecisionTreeClassifier": [("big:depth-9", lambda rs: MD.DecisionTreeClassifier(
        epsilon=0.05, bounds=BB, classes=list(range(40)), max_depth=9, random_state=rs, accountant=acc()),
        lambda t: chunks(_leaf_labels(t.fit(*_big_data())), 4))],
}

def _wide_data(d):
    key = f"WD{d}"
    if key not in _DATA:
        rs = np.random.RandomState(100 + d)
        X = rs.uniform(-1, 1, (300, d))
        _DATA[key] = X / np.linalg.norm(X, axis=1).max()
    return _DATA[key]


def _cov_wide(d, **kw):
    def run(rs):
        from diffprivlib.models.utils import covariance_eig
        r = covariance_eig(_wide_data(d), epsilon=5.0, norm=1.0, random_state=rs, **kw)
        v = r if kw.get("eigvals_only") else r[0]
        return cont(eigenvalues=np.asarray(v)[:: max(1, d // 8)])
    return run


# feature / target / class counts on both sides of the usual fast-path thresholds (64, 100, 128, 256): run directly only
for _d in (65, 80, 128, 257):
    _bw = (-np.ones(_d), np.ones(_d))
    if _d > 65:       # one Bingham draw in >= 80 dimensions takes seconds; covariance_eig(eigvals_only) covers those sizes
        BIG_MODEL_PARTS["StandardScaler"].append((f"big:{_d}-features", (lambda bw: lambda rs: MD.StandardScaler(
            epsilon=50.0, bounds=bw, random_state=rs, accountant=acc()))(_bw),
            (lambda d: lambda e: cont(mean=e.fit(_wide_data(d)).mean_[::max(1, d // 8)]))(_d)))
        continue
    BIG_MODEL_PARTS["PCA"].append((f"big:{_d}-features", (lambda d, bw: lambda rs: MD.PCA(
        n_components=1, epsilon=5.0, centered=True, data_norm=1.0, random_state=rs, accountant=acc()))(_d, _bw),
        (lambda d: lambda e: (lambda p_: cont(explained_variance=p_.explained_variance_, component=p_.components_[0][::max(1, d // 6)]))(
            e.fit(_wide_data(d))))(_d)))
    BIG_MODEL_PARTS["StandardScaler"].append((f"big:{_d}-features", (lambda bw: lambda rs: MD.StandardScaler(
        epsilon=50.0, bounds=bw, random_state=rs, accountant=acc()))(_bw),
        (lambda d: lambda e: cont(mean=e.fit(_wide_data(d)).mean_[::max(1, d // 8)]))(_d)))
for _d in (65, 128):
    _bw = (-np.ones(_d), np.ones(_d))
    BIG_MODEL_PARTS["GaussianNB"].append((f"big:{_d}-features", (lambda bw: lambda rs: MD.GaussianNB(
        epsilon=50.0, bounds=bw, random_state=rs, accountant=acc()))(_bw),
        (lambda d: lambda e: cont(theta=e.fit(_wide_data(d), np.arange(300) % 3).theta_[:, ::max(1, d // 4)]))(_d)))
    BIG_MODEL_PARTS["KMeans"].append((f"big:{_d}-features", (lambda bw: lambda rs: MD.KMeans(
        n_clusters=2, epsilon=500.0, bounds=bw, random_state=rs, accountant=acc()))(_bw),
        (lambda d: lambda e: cont(centers=e.fit(_wide_data(d)).cluster_centers_[:, ::max(1, d // 4)]))(_d)))
    BIG_MODEL_PARTS["LogisticRegression"].append((f"big:{_d}-features", lambda rs: MD.LogisticRegression(
        epsilon=20.0, data_norm=1.0, max_iter=10, random_state=rs, accountant=acc()),
        (lambda d: lambda e: cont(coef=e.fit(_wide_data(d), np.arange(300) % 2).coef_[:, ::max(1, d // 4)]))(_d)))
    BIG_MODEL_PARTS["DecisionTreeClassifier"].append((f"big:{_d}-features", (lambda bw: lambda rs: MD.DecisionTreeClassifier(
        epsilon=0.05, bounds=bw, classes=[0, 1, 2, 3], max_depth=5, random_state=rs, accountant=acc()))(_bw),
        (lambda d: lambda t: disc(labels=_leaf_labels(t.fit(_wide_data(d), np.arange(300) % 4))))(_d)))
BIG_MODEL_PARTS["LinearRegression"].append(("big:65-features", lambda rs: MD.LinearRegression(
    epsilon=2000.0, bounds_X=(-np.ones(65), np.ones(65)), bounds_y=(-1.0, 1.0), random_state=rs, accountant=acc()),
    lambda e: cont(coef=e.fit(_wide_data(65), np.clip(_wide_data(65).sum(axis=1), -1, 1)).coef_[::8])))
BIG_MODEL_PARTS["RandomForestClassifier"].append(("big:70-classes-130-trees", lambda rs: MD.RandomForestClassifier(
    n_estimators=130, epsilon=5.0, bounds=B3, classes=list(range(70)), max_depth=2, random_state=rs, accountant=acc()),
    lambda f: (lambda f_: chunks([x for t in f_.estimators_ for x in _leaf_labels(t)], 8))(
        f.fit(data()["Xm"], np.arange(240) % 70))))
BIG_MODEL_PARTS["KMeans"].append(("big:66-clusters", lambda rs: MD.KMeans(
    n_clusters=66, epsilon=5000.0, bounds=B3, random_state=rs, accountant=acc()),
    lambda e: cont(centers=e.fit(np.random.RandomState(5).uniform(-1, 1, (2000, 3))).cluster_centers_[::8, 0])))


# multi-target / 2-D y wherever the API accepts it
def _linreg_multi(k):
    def out(m):
        X = data()["Xm"]
        Y = np.clip(X @ np.random.RandomState(k).uniform(-0.5, 0.5, (3, k)), -1, 1)
        m.fit(X, Y)
        oc = getattr(m, "_obj_coefs", None)
        extra = {} if oc is None else {"obj_coef0": oc[0], "obj_coef1": oc[1]}
        return cont(coef=m.coef_, intercept=m.intercept_, **extra)
    return out


for _k in (2, 3):
    for _fi in (True, False):
        BIG_MODEL_PARTS["LinearRegression"].append((f"big:{_k}-targets,fit_intercept={_fi}", (lambda k, fi: lambda rs: MD.LinearRegression(
            epsilon=5.0, bounds_X=B3, bounds_y=(-np.ones(k), np.ones(k)), fit_intercept=fi, random_state=rs, accountant=acc()))(_k, _fi),
            _linreg_multi(_k)))

# continuation sequences: first(estimator) [batch 1] -> round trip -> second(estimator) [batch 2, whose outputs are read]
SEQ_PARTS = {
    "StandardScaler": [("partial_fit", MODEL_PARTS["StandardScaler"][0][1], _scaler_partial, _scaler_partial)],
    "GaussianNB": [("partial_fit", MODEL_PARTS["GaussianNB"][0][1], _nb_partial, _nb_partial)],
    "RandomForestClassifier": [("warm_start", lambda rs: _forest_make(rs, n_estimators=2, warm_start=True),
                                _forest_warm_first, _forest_warm_second)],
}
SEQ_PARTS["LogisticRegression"] = [
    ("warm_start", lambda rs: MD.LogisticRegression(epsilon=2.0, data_norm=1.5, max_iter=30, warm_start=True, random_state=rs,
                                                    accountant=acc()), _lr_out("y3"), _lr_out("y3")),
    ("warm_start,n_jobs=2", lambda rs: MD.LogisticRegression(epsilon=2.0, data_norm=1.5, max_iter=30, warm_start=True, n_jobs=2,
                                                             random_state=rs, accountant=acc()), _lr_out("y3"), _lr_out("y3"))]
for _n, _vs in MODEL_PARTS.items():
    _v, _mk, _out = _vs[0]
    SEQ_PARTS.setdefault(_n, []).append(("refit", _mk, _out, _out))


def _sk_clone(e):
    from sklearn.base import clone
    return clone(e)


def _deepcopy(e):
    import copy
    return copy.deepcopy(e)


MODEL_WAYS = {"direct": lambda e: e, "clone": _sk_clone, "deepcopy": _deepcopy}
ROUNDTRIPS = {"continue": lambda e: e, "pickle": _pickle_roundtrip, "deepcopy": _deepcopy, "clone": _sk_clone}


def _seq_runner(make, first, roundtrip, second, cached):
    """batch 1 -> round trip -> batch 2.  With random_state=None and `cached`, batch 1 is run ONCE and every call takes a
    new round-trip copy of that same fitted estimator, so that two runs differ only by the noise of batch 2."""
    box = {}

    def run(rs):
        if rs is None and cached:
            if "e0" not in box:
                e0 = make(None)
                first(e0)
                box["e0"] = e0
            e = roundtrip(box["e0"])
        else:
            e0 = make(rs)
            first(e0)
            e = roundtrip(e0)
        return second(e)
    return run


MODELS = {}
for _n, _vs in MODEL_PARTS.items():
    MODELS[_n] = []
    for _v, _mk, _out in _vs:
        for _w, _wf in MODEL_WAYS.items():
            MODELS[_n].append((_v if _w == "direct" else f"{_v}|{_w}",
                               (lambda mk, out, wf: (lambda rs: out(wf(mk(rs)))))(_mk, _out, _wf)))
for _n, _vs in SEQ_PARTS.items():
    for _v, _mk, _first, _second in _vs:
        for _w, _wf in ROUNDTRIPS.items():
            MODELS[_n].append((f"{_v}-then-{_v}|seq:{_w}", _seq_runner(_mk, _first, _wf, _second, _w != "continue")))
for _n, _vs in BIG_MODEL_PARTS.items():
    for _v, _mk, _out in _vs:
        MODELS[_n].append((_v, (lambda mk, out: (lambda rs: out(mk(rs))))(_mk, _out)))
MODELS["covariance_eig"] = [("full", _cov)] + [(f"big:{d}-features,eigvals_only", _cov_wide(d, eigvals_only=True))
                                                 for d in (65, 80, 128, 257)] + \
    [("big:80-features,dims=1", _cov_wide(80, dims=1))]
# estimators that make no structural draw: their unseeded fit must leave the global generators untouched as well
SLOW_VARIANTS = {("PCA", "big:65-features"), ("covariance_eig", "big:80-features,dims=1"), ("KMeans", "big:66-clusters")}
NO_STRUCTURAL = {"GaussianNB", "StandardScaler", "LinearRegression", "LogisticRegression", "PCA", "covariance_eig"}


class _NoInstance(Exception):
    pass


def _via_copy(name, way):
    mk, dr = MECH_PARTS[name]

    def run(rs):
        m = mk(rs)
        try:
            c = COPY_WAYS[way][1](m)
        except Exception:  # noqa - no instance obtained (deep copy of a SystemRandom): nothing to draw from
            return []
        return dr(c)
    return run


def _degenerate_arrays():
    """degenerate DATA for every tool: long runs of repeated values around the target rank, all-equal data, data on the
    bounds, huge n, a single record, and EMPTY inputs"""
    rs = np.random.RandomState(81)
    low, high = np.linspace(0.001, 0.1, 100), np.linspace(0.9, 0.999, 100)
    return [
        ("long-run", np.concatenate([low, np.full(4000, 0.5), high]), {}),
        ("long-run-2", np.concatenate([np.full(3000, 0.2), np.full(3000, 0.8), [0.5]]), {}),
        ("all-equal", np.full(300, 0.5), {}),
        ("on-bounds", np.concatenate([np.zeros(150), np.ones(150)]), {}),
        ("all-zero-2d", np.zeros((40, 3)), {"axis": 0}),
        ("single", np.array([0.3]), {}),
        ("huge-n", rs.uniform(0, 1, 200000), {}),
        ("empty", np.array([]), {}),
        ("empty-0xd", np.zeros((0, 3)), {"axis": 0}),
        ("empty-nx0", np.zeros((5, 0)), {"axis": 0}),
        ("empty-nx0-axis1", np.zeros((5, 0)), {"axis": 1}),
    ]


def _tool_on(tname, arr, kw, rs):
    a = acc()
    if tname == "count_nonzero":
        return T.count_nonzero(arr > 0.4, epsilon=1.0, random_state=rs, accountant=a, **kw)
    if tname == "histogram":
        return T.histogram(np.ravel(arr), epsilon=1.0, bins=5, range=(0.0, 1.0), random_state=rs, accountant=a)[0]
    if tname == "histogramdd":
        smp = arr if arr.ndim == 2 and arr.shape[1] else np.c_[np.ravel(arr), np.ravel(arr)]
        return T.histogramdd(smp, epsilon=1.0, bins=3, range=[(0.0, 1.0)] * smp.shape[1], random_state=rs, accountant=a)[0]
    if tname == "histogram2d":
        return T.histogram2d(np.ravel(arr), np.ravel(arr), epsilon=1.0, bins=3, range=[(0.0, 1.0)] * 2, random_state=rs,
                             accountant=a)[0]
    if tname == "quantile":
        return T.quantile(arr, 0.5, epsilon=1.0, bounds=(0.0, 1.0), random_state=rs, accountant=a, **kw)
    if tname == "quantile[0.01]":
        return T.quantile(arr, 0.01, epsilon=1.0, bounds=(0.0, 1.0), random_state=rs, accountant=a, **kw)
    if tname == "percentile":
        return T.percentile(arr, 50, epsilon=1.0, bounds=(0.0, 1.0), random_state=rs, accountant=a, **kw)
    return getattr(T, tname)(arr, epsilon=1.0, bounds=(0.0, 1.0), random_state=rs, accountant=a, **kw)


def _degenerate_entries():
    out = []
    tools = ["count_nonzero", "mean", "nanmean", "var", "nanvar", "std", "nanstd", "sum", "nansum", "histogram",
             "histogramdd", "histogram2d", "quantile", "quantile[0.01]", "percentile", "median"]
    for dname, arr, kw in _degenerate_arrays():
        for t in tools:
            if kw and t in ("histogram", "histogramdd", "histogram2d"):
                kw_ = {}
            else:
                kw_ = kw
            run = (lambda t_, a_, k_: lambda rs: disc(all=np.ravel(np.asarray(_tool_on(t_, a_, k_, rs), dtype=float))))(t, arr, kw_)
            out.append((t.split("[")[0], f"degenerate:{dname}" + (t[t.index("["):] if "[" in t else ""), run, "tool"))
    # estimators on degenerate data (released attributes are not compared: the interposition and the state checks decide)
    xs = [("all-zero", np.zeros((50, 3)), None), ("all-equal", np.full((50, 3), 0.3), None),
          ("single", np.full((1, 3), 0.2), None), ("empty-0xd", np.zeros((0, 3)), None), ("empty-nx0", np.zeros((5, 0)), None),
          ("corners", np.sign(np.random.RandomState(3).uniform(-1, 1, (60, 3))) / np.sqrt(3), None),
          ("one-class", np.random.RandomState(4).uniform(-0.5, 0.5, (60, 3)), "zeros")]
    for name, parts in MODEL_PARTS.items():
        _v, mk, _out = parts[0]
        for dname, X, ykind in xs:
            def run(rs, mk=mk, X=X, ykind=ykind, name=name):
                e = mk(rs)
                n = X.shape[0]
                y = np.zeros(n, dtype=int) if ykind == "zeros" else np.arange(n) % 3
                if name in ("KMeans", "StandardScaler", "PCA"):
                    e.fit(X)
                elif name == "LinearRegression":
                    e.fit(X, np.zeros(n) if X.shape[1] == 0 else np.clip(X.sum(axis=1), -1, 1))
                else:
                    e.fit(X, y)
                return {"scalars": [], "groups": {}}
            out.append((name, f"degenerate:{dname}", run, "model"))
    from diffprivlib.models.utils import covariance_eig
    for dname, X, _ in xs[:5]:
        for nrm in (None, 1.5):
            out.append(("covariance_eig", f"degenerate:{dname},norm={nrm}",
                        (lambda X_, n_: lambda rs: (covariance_eig(X_, epsilon=2.0, norm=n_, random_state=rs),
                                                    {"scalars": [], "groups": {}})[1])(X, nrm), "model"))
    return out


def all_entries():
    """(entry, variant, runner, group)"""
    out = [(n, "direct", f, "mechanism") for n, f in MECHS.items()]
    out += [(n, w, _via_copy(n, w), "mechanism") for n in MECH_PARTS for w in COPY_WAYS]
    out += [(n, v, (lambda mk, dr: (lambda rs: dr(mk(rs))))(mk, dr), "mechanism") for n, v, mk, dr in MECH_EXTRA]
    out += _degenerate_entries()
    for n, vs in TOOLS.items():
        out += [(n, v, f, "tool") for v, f in vs]
    for n, vs in MODELS.items():
        out += [(n, v, f, "model") for v, f in vs]
    return out


# ------------------------------------------------------------------------------------------------ observation seams

class InitRecorder:
    """wraps DPMechanism.__init__ (public, in-process) and keeps every mechanism instance constructed in the block"""

    def __enter__(self):
        self.instances = []
        self.orig = M.DPMechanism.__init__
        rec = self

        def init(obj, *a, **k):
            rec.orig(obj, *a, **k)
            rec.instances.append(obj)
        M.DPMechanism.__init__ = init
        return self

    def __exit__(self, *a):
        M.DPMechanism.__init__ = self.orig


def src_of(rng):
    if isinstance(rng, secrets.SystemRandom):
        return "osCsprng"
    if rng is np.random.mtrand._rand:
        return "globalNumpy"
    if isinstance(rng, np.random.RandomState):
        return "seeded"
    if isinstance(rng, np.random.Generator):
        bg = rng.bit_generator
        # default_rng(<legacy RandomState>) WRAPS that RandomState's MT19937: a Generator over numpy's global state
        if bg is np.random.mtrand._rand._bit_generator:
            return "globalNumpy"
        if type(bg).__name__ != "PCG64":
            return "other:Generator(" + type(bg).__name__ + ")"
        return "freshGenerator"
    return "other:" + type(rng).__name__


def make_seed(kind):
    if kind == "none":
        return None
    if kind == "globalSingleton":
        return np.random.mtrand._rand
    if kind == "int":
        return 4242
    if kind == "randomState":
        return np.random.RandomState(99)
    if kind == "systemRandom":
        return secrets.SystemRandom()
    return "not-a-seed"


class GlobalProxy(np.random.RandomState):
    """stands in for numpy's global RandomState singleton (np.random.mtrand._rand) while an entry point runs: sklearn's
    check_random_state(None) returns it and the library recognises it by identity, exactly as the real one; every DRAW
    made from it is logged with the calling function"""

    def __init__(self):
        super().__init__()
        self.set_state(np.random.get_state())
        self.log = []

    def __getattribute__(self, name):
        attr = super().__getattribute__(name)
        if name.startswith("_") or name in ("seed", "get_state", "set_state", "log") or not callable(attr):
            return attr
        log = super().__getattribute__("log")

        def wrapped(*a, **k):
            import os
            import sys
            fr = sys._getframe(1)
            if fr.f_code is not wrapped.__code__:       # random() -> random_sample(): log the outer call only
                log.append((name, os.path.basename(fr.f_code.co_filename), fr.f_code.co_name))
            return attr(*a, **k)
        return wrapped


# data-independent choices the property excludes: (file, function) that may draw from the estimator's own generator
STRUCTURAL_SITES = {("k_means.py", "_init_centers"), ("forest.py", "build"), ("forest.py", "fit")}
LAST_DRAWS = []


def observe(runner, kind):
    """-> ('error', excname) | ('ok', sorted set of 'Mech:src') | ('crash', text, set so far); the draws made from numpy's
    global generator during the call are left in LAST_DRAWS"""
    state = np.random.get_state()
    real = np.random.mtrand._rand
    proxy = GlobalProxy()
    np.random.mtrand._rand = proxy
    del LAST_DRAWS[:]
    try:
        return _observe(runner, kind)
    finally:
        LAST_DRAWS.extend(proxy.log)
        np.random.mtrand._rand = real
        np.random.set_state(state)


def _observe(runner, kind):
    try:
        with warnings.catch_warnings():
            warnings.simplefilter("ignore")
            with InitRecorder() as rec:
                try:
                    runner(make_seed(kind))
                except (ValueError, TypeError, NotImplementedError) as e:   # NotImplementedError: deep copy of an
                    if not rec.instances:                                       # estimator holding a SystemRandom
                        return ("error", type(e).__name__)
                    return ("crash", f"{type(e).__name__}: {str(e)[:160]}",
                            sorted({f"{type(o).__name__}:{src_of(getattr(o, '_rng', None))}" for o in rec.instances}))
                except Exception as e:  # noqa - an unexpected exception of the library is an observation, not an abort
                    return ("crash", f"{type(e).__name__}: {str(e)[:160]}",
                            sorted({f"{type(o).__name__}:{src_of(getattr(o, '_rng', None))}" for o in rec.instances}))
        return ("ok", sorted({f"{type(o).__name__}:{src_of(getattr(o, '_rng', None))}" for o in rec.instances}))
    finally:
        pass


def model_sites(plan_line):
    """mechanism sites of a plan line -> (set of 'Mech:src', all-error?)"""
    toks = [t.split(":") for t in plan_line.split()]
    mech = set()
    for site, kind, src in toks:
        if site in MECHS or site == "emptyLeaf":
            mech.add(("PermuteAndFlip" if site == "emptyLeaf" else site) + ":" + src)
    return mech


SEED_KINDS = ["none", "globalSingleton", "int", "randomState", "systemRandom", "other"]


def correspondence(ctx):
    entries = all_entries()
    names = sorted({e[0] for e in entries}, key=lambda n: [x[0] for x in entries].index(n))
    lines = [f"plan {n} {k}" for n in names for k in SEED_KINDS]
    lines += [f"crs {k} {b}" for k in SEED_KINDS for b in (0, 1)]
    outs = leanio.run_driver("Rng", lines)
    plan = {(n, k): outs[i * len(SEED_KINDS) + j] for i, n in enumerate(names) for j, k in enumerate(SEED_KINDS)}
    # check_random_state itself
    base = len(names) * len(SEED_KINDS)
    crs = dp.utils.check_random_state
    for a, k in enumerate(SEED_KINDS):
        for b in (0, 1):
            try:
                got = src_of(crs(make_seed(k), bool(b)))
            except (ValueError, TypeError):
                got = "error"
            except Exception as e:  # noqa
                got = "crash:" + type(e).__name__
            want = outs[base + a * 2 + b]
            ctx.case(("crs", k, b))
            if got != want:
                ctx.disagree("check_random_state", {"seed": k, "secure": b}, want, got)
            else:
                ctx.trace_ok()
            if k in ("none", "globalSingleton") and b == 1 and got != "osCsprng":
                ctx.violation("C14:check_random_state:secure-none:not-os-csprng",
                              f"check_random_state({k}, secure=True) returned a {got} generator",
                              {"kind": "crs", "seed": k})
    for n in names:
        variants = [e for e in entries if e[0] == n and e[1] not in COPY_WAYS]      # copies of mechanisms: `copies`
        for k in SEED_KINDS:
            # clone / deepcopy of an estimator DUPLICATES a RandomState passed as random_state: numpy's global singleton
            # becomes an ordinary caller-owned RandomState in the copy
            def kind_for(v):
                return "randomState" if (k == "globalSingleton" and ("|clone" in v or "|deepcopy" in v)) else k
            want_all, seen_all = set(), set()
            for (_, v, runner, group) in variants:
                if "|seq:" in v and k not in ("none", "int"):
                    continue
                if v.startswith("big:") and k not in (("none",) if (ctx.tier == "quick" and ctx.scale == 1) else ("none", "int")):
                    continue
                if (v.startswith("degenerate:") or (n, v) in SLOW_VARIANTS) and k != "none":
                    continue
                want = model_sites(plan[(n, kind_for(v))])
                want_err = bool(want) and all(w.endswith(":error") for w in want)
                r = observe(runner, k)
                inp = {"entry": n, "variant": v, "random_state": k}
                ctx.case((n, v, k))
                observed = set(r[1]) if r[0] == "ok" else (set(r[2]) if r[0] == "crash" else set())
                if k == "none":
                    bad = sorted({d for d in LAST_DRAWS if (d[1], d[2]) not in STRUCTURAL_SITES})
                    ctx.count("global_draws_seen", len(LAST_DRAWS))
                    for meth, fname, func in bad[:3]:
                        ctx.violation(f"C14:{n}:global-numpy-draw:{fname}:{func}",
                                      f"{n} [{v}] with random_state=None drew from numpy's global generator: "
                                      f"{meth}() called in {fname}:{func} ({len([d for d in LAST_DRAWS if d[1:] == (fname, func)])} "
                                      f"call(s)); only initial centres, tree structure and row shuffling may",
                                      {"kind": "global-draw", "entry": n, "variant": v})
                    for ms in sorted(observed):
                        mech, src = ms.split(":", 1)
                        ok = src == "osCsprng" or (src == "freshGenerator" and mech in ("Staircase", "Bingham"))
                        if not ok:
                            ctx.violation(f"C14:{n}:{mech}:rng-not-os-csprng",
                                          f"{n} [{v}] with random_state=None constructed a {mech} whose _rng is "
                                          f"{src} (not secrets.SystemRandom)",
                                          {"kind": "rng-class", "entry": n, "variant": v})
                if v.startswith("degenerate:") and r[0] in ("crash", "error"):
                    ctx.count("degenerate_refusals")      # a call that raises releases nothing: a refusal
                    ctx.trace_ok()
                    continue
                if r[0] == "crash":
                    ctx.disagree("rng-provenance", inp, "returns" if not want_err else "raises ValueError/TypeError",
                                 "raised " + r[1], note="unexpected exception from the library")
                    continue
                if want_err:
                    if r[0] != "error":
                        ctx.disagree("rng-provenance", inp, plan[(n, kind_for(v))], sorted(observed),
                                     note="model: the call raises")
                    else:
                        ctx.trace_ok()
                    continue
                if r[0] == "error" or not observed <= want:
                    ctx.disagree("rng-provenance", inp, sorted(want), r[1] if r[0] == "error" else sorted(observed))
                    continue
                want_all |= want
                seen_all |= observed
                ctx.trace_ok()
            if seen_all != want_all:
                ctx.disagree("rng-provenance.coverage", {"entry": n, "random_state": k}, sorted(want_all), sorted(seen_all),
                             note="a mechanism site of the model's plan was never observed in any variant")
    copies(ctx)
    ctx.sample({"entry": "RandomForestClassifier", "random_state": "none",
                "model_plan": plan[("RandomForestClassifier", "none")]})
    ctx.sample({"entry": "median", "random_state": "none", "model_plan": plan[("median", "none")]})


def obtain_copy(name, way, kind):
    """-> ('error', exc name) | ('ok', copy, original)"""
    mk, _ = MECH_PARTS[name]
    try:
        with warnings.catch_warnings():
            warnings.simplefilter("ignore")
            m = mk(make_seed(kind))
    except Exception as e:  # noqa
        return ("ctor-error", type(e).__name__)
    try:
        c = COPY_WAYS[way][1](m)
    except Exception as e:  # noqa - e.g. NotImplementedError: a SystemRandom has no state to pickle
        return ("error", type(e).__name__)
    return ("ok", c, m)


def copies(ctx):
    """every public way of obtaining a mechanism instance other than the constructor: the class of the copy's `_rng`"""
    lines, cases = [], []
    for name in MECH_PARTS:
        for way, (mw, _) in COPY_WAYS.items():
            for k in SEED_KINDS:
                lines.append(f"copy {mw} {name} {k}")
                cases.append((name, way, k))
    outs = leanio.run_driver("Rng", lines)
    for (name, way, k), want in zip(cases, outs):
        r = obtain_copy(name, way, k)
        ctx.case(("copy", name, way, k))
        if r[0] == "ctor-error":
            got = "error"
        elif r[0] == "error":
            got = "error"
        else:
            got = src_of(r[1]._rng)
            if k == "none":
                ok = got == "osCsprng" or (got == "freshGenerator" and name in ("Staircase", "Bingham"))
                if not ok:
                    ctx.violation(f"C14:{name}:{way}:rng-not-os-csprng",
                                  f"{name}(random_state=None) obtained through {way} holds a {got} generator "
                                  f"(not secrets.SystemRandom)",
                                  {"kind": "copy-rng-class", "entry": name, "way": way})
        if got != want:
            ctx.disagree("rng-provenance.copy", {"mechanism": name, "way": way, "random_state": k}, want, got)
        else:
            ctx.trace_ok()


# ------------------------------------------------------------------------------------------------ black box

def same(a, b):
    if len(a) != len(b):
        return False
    for x, y in zip(a, b):
        if isinstance(x, str) or isinstance(y, str):
            if x != y:
                return False
        else:
            if not (x == y or (x != x and y != y)):
                return False
    return True


def states_equal(s1, s2):
    return s1[0] == s2[0] and np.array_equal(s1[1], s2[1]) and tuple(s1[2:]) == tuple(s2[2:])


def sig_for(entry, variant, what, component=None):
    if entry == "DecisionTreeClassifier" and variant == "empty-leaf-label":
        return "C14:DecisionTreeClassifier:empty-leaf-label:global-numpy"
    if entry == "quantile" and variant == "within-interval-uniform":
        return f"C14:quantile:within-interval-uniform:{what}"
    comp = "" if component in (None, "all") else ":" + component.split("[")[0]
    if "|seq:" in variant:
        return f"C14:{entry}:{variant.replace('|', ':')}{comp}:{what}"
    if variant in COPY_WAYS or variant.endswith("|clone") or variant.endswith("|deepcopy"):
        return f"C14:{entry}:{variant.split('|')[-1]}{comp}:{what}"
    return f"C14:{entry}{comp}:{what}"


def components(out):
    """-> list of (component name, list of values)"""
    if isinstance(out, dict):
        return [(n, [v]) for n, v in out["scalars"]] + [(n, list(v)) for n, v in out["groups"].items()]
    return [("all", list(out))] if len(out) else []


def identical_components(out1, out2):
    """names of the noise-carrying components that came out IDENTICAL in the two runs (every one of them must differ)"""
    c1, c2 = components(out1), dict(components(out2))
    return [(n, v) for n, v in c1 if n in c2 and same(v, c2[n])]


CONFIRM_ALT_SEEDS = 12
CONFIRM_ROUNDS = 12


def confirm_seed_dependence(runner, s, ident):
    """A released component may carry an atom (a mean clipped onto its bound, an integer-valued count, an empty bin), so
    two unseeded runs CAN coincide on it.  What the property forbids is that the component is a FUNCTION of the global
    seed.  That hypothesis predicts: the value at seed s is always v(s) and at another seed s' always v(s').  We look for
    an s' with v(s') ≠ v(s) and then alternate s, s', s, s', … CONFIRM_ROUNDS times; a component is kept (reported) only if
    every run reproduces its seed's value.  For OS-entropy output the chance of that pattern is ≤ (p_a·p_b)^rounds ≤
    4^-rounds whatever the atoms are; for globally-seeded output it is certain.  A component for which no s' changes the
    value is constant over our sample (saturated / noise-free) and is dropped: it shows no dependence on the seed."""
    def run_at(seed):
        np.random.seed(seed)
        random.seed(seed)
        return dict(components(runner(None)))
    kept = []
    try:
        with warnings.catch_warnings():
            warnings.simplefilter("ignore")
            alt = {}
            for j in range(1, CONFIRM_ALT_SEEDS + 1):
                s2 = (s * 2654435761 + 97 * j + 1) % (2 ** 31 - 1)
                if s2 == s:
                    continue
                c = run_at(s2)
                for name, v in ident:
                    if name not in alt and name in c and not same(v, c[name]):
                        alt[name] = (s2, c[name])
                if len(alt) == len(ident):
                    break
            for name, v in ident:
                if name not in alt:
                    continue
                s2, v2 = alt[name]
                ok = True
                for _ in range(CONFIRM_ROUNDS):
                    a, b = run_at(s), run_at(s2)
                    if not (name in a and name in b and same(a[name], v) and same(b[name], v2)):
                        ok = False
                        break
                if ok:
                    kept.append((name, v))
    except Exception:  # noqa - a crash here was already reported by the two primary runs; never alarm on it
        return kept
    return kept


def blackbox_one(entry, variant, runner, group, s):
    """-> (list of (signature, what) failures for one global seed, number of components, crash text or None)"""
    fails = []
    check_state = group in ("mechanism", "tool") or entry in NO_STRUCTURAL
    try:
        with warnings.catch_warnings():
            warnings.simplefilter("ignore")
            np.random.seed(s)
            random.seed(s)
            st_np, st_py = np.random.get_state(), random.getstate()
            out1 = runner(None)
            if check_state:
                if not states_equal(st_np, np.random.get_state()):
                    fails.append((sig_for(entry, variant, "consumes-global-state"),
                                  f"{entry} [{variant}] with random_state=None advanced numpy's global generator"))
                if random.getstate() != st_py:
                    fails.append((sig_for(entry, variant, "consumes-global-state"),
                                  f"{entry} [{variant}] with random_state=None advanced Python's global generator"))
            np.random.seed(s)
            random.seed(s)
            out2 = runner(None)
    except Exception as e:  # noqa - an unexpected exception of the library: reported per case, never an abort
        return fails, 0, f"{type(e).__name__}: {str(e)[:200]}"
    comps = components(out1)
    ident = identical_components(out1, out2)
    if ident:
        ident = confirm_seed_dependence(runner, s, ident)
    for name, vals in ident:
        fails.append((sig_for(entry, variant, "reproducible-under-global-seed", name),
                      f"{entry} [{variant}] with random_state=None: two runs after np.random.seed({s}); random.seed({s}) "
                      f"returned the same {name} = {str(vals[:4])[:100]}" + ("…" if len(vals) > 4 else "")))
    return fails, len(comps), None


def blackbox(ctx):
    r = ctx.fork("global-seeds")
    seeds = [0] + [r.randint(1, 2 ** 31 - 1) for _ in range(ctx.budget(1, 6))]
    saved = np.random.get_state(), random.getstate()
    try:
        for (entry, variant, runner, group) in all_entries():
            deg = variant.startswith("degenerate:")
            slow = (entry, variant) in SLOW_VARIANTS
            nbig = 1 if ctx.tier == "quick" and ctx.scale == 1 else 2
            for s in (seeds[:1] if (deg or slow) else seeds[:nbig] if variant.startswith("big:") else seeds):
                fails, n, crash = blackbox_one(entry, variant, runner, group, s)
                if deg and crash:
                    crash = None          # degenerate data: a call that raises is a refusal, nothing was released
                ctx.case(("bb", entry, variant, s) if n else None)
                data = {"kind": "blackbox", "entry": entry, "variant": variant, "global_seed": s}
                if crash:
                    ctx.disagree("blackbox.run", data, "returns", "raised " + crash,
                                 note="unexpected exception from the library")
                for sig, what in fails:
                    ctx.violation(sig, what, data)
                if not fails and not crash:
                    ctx.trace_ok()
    finally:
        np.random.set_state(saved[0])
        random.setstate(saved[1])


def _arm_workers():
    """loky worker processes inherit os.environ: make them apply the third-party shims (harness/worker_site) and import
    the same /repo tree before they unpickle library functions"""
    import os
    from .. import shim
    site = os.path.join(leanio.VERIF, "harness", "worker_site")
    pp = os.environ.get("PYTHONPATH", "")
    if site not in pp.split(os.pathsep):
        os.environ["PYTHONPATH"] = site + (os.pathsep + pp if pp else "")
    os.environ["VERIF_WORKER_SHIM"] = "1"
    os.environ["VERIF_REPO"] = shim.REPO
    os.environ.setdefault("PYTHONWARNINGS", "ignore")


def generate(ctx):
    """translator tie: the table of randomness sites is re-read from /repo's AST on every run and compared by Lean with
    the hand tables of DPL/Model/RngSites.lean (harness/translate/rngsites.py)"""
    from ..translate import rngsites
    from ..shim import REPO
    try:
        info = rngsites.generate(REPO, leanio.LEAN)
    except rngsites.TranslatorError as e:
        # a code shape the translator does not follow is a limit of the static tie, not a failed obligation
        return {"unavailable": [f"C14Sites: {e}"]}
    for k, v in info["sites"].items():
        ctx.count("translator_" + k, v)
    # obligations: no_global_draw, mech_ctor_secure, mech_draws_via_rng, secure_crs_calls, nonsecure_crs_outside_mechanisms,
    # noise_sites_match_plan, passes_closed, external_passes
    return {"build": ["DPL.Generated.C14Sites"], "obligations": info["obligations"]}


def check(ctx):
    _arm_workers()
    with seams.fresh_default_accountant():
        correspondence(ctx)
        blackbox(ctx)
    ctx.count("entry_variants", len(all_entries()))


def replay(ctx, data):
    _arm_workers()
    d = data["data"]
    ent = {(e, v): (f, g) for e, v, f, g in all_entries()}
    if d.get("kind") == "blackbox":
        f, g = ent[(d["entry"], d["variant"])]
        fails, _, _ = blackbox_one(d["entry"], d["variant"], f, g, int(d["global_seed"]))
        return bool(fails)
    if d.get("kind") == "rng-class":
        f, g = ent[(d["entry"], d["variant"])]
        r = observe(f, "none")
        if r[0] != "ok":
            return False
        for ms in r[1]:
            mech, src = ms.split(":", 1)
            if not (src == "osCsprng" or (src == "freshGenerator" and mech in ("Staircase", "Bingham"))):
                return True
        return False
    if d.get("kind") == "copy-rng-class":
        r = obtain_copy(d["entry"], d["way"], "none")
        if r[0] != "ok":
            return False
        g = src_of(r[1]._rng)
        return not (g == "osCsprng" or (g == "freshGenerator" and d["entry"] in ("Staircase", "Bingham")))
    if d.get("kind") == "global-draw":
        f, g = ent[(d["entry"], d["variant"])]
        observe(f, "none")
        return any((x[1], x[2]) not in STRUCTURAL_SITES for x in LAST_DRAWS)
    if d.get("kind") == "crs":
        return src_of(dp.utils.check_random_state(make_seed(d["seed"]), True)) != "osCsprng"
    return False
