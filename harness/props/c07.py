"""C07 — tools: the noise matches one record's true influence and the epsilon split adds up (DESIGN.md §6 C07).

(K) trace correspondence: the real tool call with every mechanism interposed and FORCED, against the Lean release plan
    (lean/DPL/Model/PlanTools.lean) run by Drivers/Tools.lean on the same data (doubles as bit patterns) and outputs.
(S) the property itself, directly on the implementation: the tool is run on D and on a neighbour D' (one record
    replaced) under identical forced outputs; invocations are paired up; identical configuration, max_i d_i/sens_i <= 1
    and sum_i eps_i d_i/sens_i <= eps (x2 when the record moves between histogram bins); for the quantile family the
    exact density of the released value (from the interposed Exponential objects) must not change by more than e^eps.
"""
import math
import warnings

from ..shim import dp, np
from .. import gen, leanio, seams
from ..gen import f2b, b2f
from ..core import unjson_float

PROPERTY = "C07"
LEAN_MODULE = "DPL.Properties.C07"
TRUSTED = [
    "modelled, not verified: numpy's clip / mean / var / nan-functions / sum (pairwise summation vs the model's "
    "sequential sum: inputs compared to 1e-9 relative), np.histogram / np.histogramdd bin assignment (the model "
    "compares against the bin edges the implementation returns), ndarray.sort, int() truncation",
    "the reshaping of an n-d array into records x output cells (np.nditer order over the kept axes, C order over the "
    "reduced axes) is done by the harness with np.moveaxis/reshape; it is tied to the implementation's slicing in "
    "_wrap_axis by the per-cell mechanism inputs, not modelled in Lean; likewise epsilon/len(quant) of a quantile list",
    "quantile family: the step from the coded interval representation (sorted clipped data, interval sizes as measure, "
    "utilities -|i - q k|) to the rank form used in rank_exp_density_dp is tied by correspondence (utilities, measures, "
    "release compared with the Lean construction) and by the exact density check on the implementation, not proved",
    "sequential/adaptive composition of the per-cell releases (sum of epsilons) and parallel composition over "
    "histogram bins are cited, not re-proved; the mechanisms' own guarantees are C01/C02",
]
UNPROVED = [
    "tool_privloss for the nan-variants — scalar and axis= forms — is proved only in the NaN-free region "
    "(nanmean/nanvar/nanstd[_axis]_privloss_partial; nansum[_axis]_privloss_partial on all data when 0 lies within the "
    "bounds): the code configures the sensitivity with array.size although NaNs do not contribute (counter-examples "
    "proved in Lean)",
    "weighted histograms: hist_sens is about counts; with weights the input moves by the weight (counter-example proved)",
    "float rounding of epsilon/size summed over the cells is validated numerically (1e-9), not proved",
]
RULE = ("cases = tool x epsilon x array shape (1-3 dims) x axis/keepdims x bounds (scalar/per-column, any sign, zero "
        "width) x dtype x quantile list x bin specification x weights, data inside/on/outside the bounds (NaN for "
        "nan-variants), generated from the seed; each case gets neighbours by single-record replacement (random, "
        "corner-to-corner, NaN<->value); non-trivial = at least one invocation's input moved; distinct by "
        "(tool, shape, axis, keepdims, dtype, bounds kind, neighbour kind)")

STAT_TOOLS = ["mean", "var", "std", "sum", "nanmean", "nanvar", "nanstd", "nansum", "count_nonzero"]
HIST_TOOLS = ["histogram", "histogram2d", "histogramdd"]
QUANT_TOOLS = ["quantile", "percentile", "median"]
MAXSIZE = float(2 ** 63 - 1)
SLACK = 1e-9


# ----------------------------------------------------------------------------------------------- helpers

def _dtype(name):
    return {None: None, "float64": np.float64, "float32": np.float32, "float16": np.float16, "int": int,
            "intp": np.intp}[name]


NARROW = {"float32": (np.float32, 24), "float16": (np.float16, 11)}      # dtype, bits of precision


def reduced_axes(ndim, axis):
    if axis is None:
        return tuple(range(ndim))
    if isinstance(axis, int):
        axis = (axis,)
    return tuple(sorted(ndim + a if a < 0 else a for a in axis))


def layout(case):
    """(mode, red_axes, red_shape, kept_shape, one_dim_output): mode 'scalar' (the tool's scalar path) or 'axis'"""
    shape = tuple(case["shape"])
    axis = case.get("axis")
    axis_t = tuple(axis) if isinstance(axis, list) else axis
    keepdims = case.get("keepdims", False)
    red = reduced_axes(len(shape), axis_t)
    kept = tuple(s for i, s in enumerate(shape) if i not in red)
    red_shape = tuple(shape[i] for i in red)
    if axis is None and not keepdims:
        return "scalar", red, red_shape, (), False
    dummy = np.zeros(shape).sum(axis=axis_t, keepdims=keepdims)
    if not isinstance(dummy, np.ndarray):
        return "scalar", red, red_shape, (), False
    return "axis", red, red_shape, kept, dummy.ndim == 1


def as_array(case, data=None):
    a = np.array([unjson_float(x) for x in (case["data"] if data is None else data)], dtype=float)
    return a.reshape(case["shape"])


def as_input(case, arr):
    """the object handed to the tool: the float array, an integer ndarray, or a nested Python list of ints"""
    ad = case.get("arr_dtype")
    if ad == "int64":
        return arr.astype(np.int64)
    if ad == "list":
        return arr.astype(np.int64).tolist()
    return arr


def records_matrix(arr, red):
    mv = np.moveaxis(arr, red, range(len(red)))
    nrec = int(np.prod([arr.shape[i] for i in red])) if red else 1
    return mv.reshape(nrec, -1)


def replace_record(arr, red, rec, new):
    out = arr.copy()
    mv = np.moveaxis(out, red, range(len(red)))
    red_shape = tuple(arr.shape[i] for i in red)
    idx = np.unravel_index(rec, red_shape) if red_shape else ()
    mv[idx] = np.asarray(new, dtype=float).reshape(mv[idx].shape)
    return out


def bounds_of(case):
    l, u = case["bounds"]
    if isinstance(l, list):
        return (np.array([unjson_float(x) for x in l], dtype=float), np.array([unjson_float(x) for x in u], dtype=float))
    return (unjson_float(l), unjson_float(u))


def cell_bounds(case, ncell):
    l, u = bounds_of(case)
    if isinstance(l, np.ndarray):
        if l.size == 1:
            return [(float(l[0]), float(u[0]))] * ncell
        return [(float(a), float(b)) for a, b in zip(l, u)]
    return [(float(l), float(u))] * ncell


class Forced:
    """deterministic forced outputs, one per invocation index; valid for every mechanism class the tools use"""

    def __init__(self, seed):
        self.seed = seed

    def __call__(self, call, idx):
        r = gen.SplitMix64(self.seed * 7919 + idx)
        if call.cls == "Exponential":
            return int(r.randint(0, len(call.params["utility"]) - 1))
        if call.cls == "GeometricTruncated":
            return int(r.randint(0, 60))
        lo, hi = float(call.params["lower"]), float(call.params["upper"])
        if not (math.isfinite(lo) and math.isfinite(hi)):
            return r.uniform(-1.0, 1.0)
        return lo + (hi - lo) * r.u01()

    def value(self, cls, idx, lo=0.0, hi=1.0, n_util=1):
        c = seams.Call(cls, {"lower": lo, "upper": hi, "utility": [0] * n_util}, None, "", None)
        return self(c, idx)


def run_tool(case, arr=None, sample=None, weights="same", forced_seed=1):
    """call the real tool with interposed, forced mechanisms.  Returns (calls, release, exception)"""
    fam = case["family"]
    tool = case["tool"]
    eps = case["eps"]
    forced = Forced(forced_seed)
    rs = seams.ScriptedRandomState(uniforms=[case.get("uni", 0.5)] * 4096)
    fn = getattr(dp.tools, tool)
    exc = None
    out = None
    with warnings.catch_warnings():
        warnings.simplefilter("ignore")
        with np.errstate(all="ignore"):
            with seams.interpose(force=forced) as calls:
                try:
                    if fam == "stat":
                        axis = case.get("axis")
                        axis = tuple(axis) if isinstance(axis, list) else axis
                        kw = dict(epsilon=eps, axis=axis, keepdims=case.get("keepdims", False), random_state=rs,
                                  accountant=dp.BudgetAccountant())
                        if tool != "count_nonzero":
                            kw["bounds"] = bounds_of(case)
                            kw["dtype"] = _dtype(case.get("dtype"))
                        out = fn(as_input(case, arr), **kw)
                    elif fam == "quant":
                        axis = case.get("axis")
                        axis = tuple(axis) if isinstance(axis, list) else axis
                        kw = dict(epsilon=eps, bounds=bounds_of(case), axis=axis, keepdims=case.get("keepdims", False),
                                  random_state=rs, accountant=dp.BudgetAccountant())
                        arr = as_input(case, arr)
                        if tool == "median":
                            out = fn(arr, **kw)
                        else:
                            q = case["quant"]
                            q = [unjson_float(x) for x in q] if isinstance(q, list) else unjson_float(q)
                            if tool == "percentile":
                                q = [x * 100 for x in q] if isinstance(q, list) else q * 100
                            out = fn(arr, q, **kw)
                    else:
                        w = None if case.get("weights") is None else np.array(case["weights"] if isinstance(weights, str) else weights, dtype=float)
                        kw = dict(epsilon=eps, bins=hist_bins(case), range=hist_range(case), weights=w,
                                  density=case.get("density"), random_state=rs, accountant=dp.BudgetAccountant())
                        s = np.array(sample, dtype=float)
                        if tool == "histogram":
                            out = fn(s[:, 0], **kw)
                        elif tool == "histogram2d":
                            out = fn(s[:, 0], s[:, 1], **kw)
                        else:
                            out = fn(s, **kw)
                except Exception as e:  # noqa
                    exc = e
    return list(calls), out, exc


def hist_bins(case):
    b = case["bins"]
    if isinstance(b, int):
        return b
    if case["tool"] == "histogram":
        return np.array(b, dtype=float) if isinstance(b, list) else b
    return [x if isinstance(x, int) else np.array(x, dtype=float) for x in b]


def hist_range(case):
    rg = case.get("range")
    if rg is None:
        return None
    if case["tool"] == "histogram":
        return tuple(rg[0])
    return [tuple(x) for x in rg]


# ----------------------------------------------------------------------------------------------- generators

def gen_bounds(r, ncols=None):
    def one():
        m = r.u01()
        if m < 0.15:
            l = float(r.randint(-5, 5))
            u = l + float(r.randint(0, 6))
        elif m < 0.3:
            l, u = 0.0, 1.0
        elif m < 0.5:
            l = r.uniform(1.0, 20.0)          # 0 not in [l, u]
            u = l + r.loguniform(1e-3, 10.0)
        elif m < 0.65:
            u = -r.uniform(1.0, 20.0)
            l = u - r.loguniform(1e-3, 10.0)
        elif m < 0.72:
            l = r.uniform(-3, 3)
            u = l                               # zero width
        else:
            l = r.uniform(-10, 10)
            u = l + r.loguniform(1e-6, 50.0)
        return l, u
    if ncols is None:
        return one()
    ls, us = zip(*[one() for _ in range(ncols)])
    return list(ls), list(us)


def gen_value(r, l, u, nan_p=0.0, zero_p=0.0):
    if nan_p and r.chance(nan_p):
        return float("nan")
    if zero_p and r.chance(zero_p):
        return 0.0
    w = (u - l) if u > l else 1.0
    m = r.u01()
    if m < 0.5:
        return r.uniform(l, u) if u > l else l
    if m < 0.6:
        return l
    if m < 0.7:
        return u
    if m < 0.9:
        return r.uniform(l - 2 * w, u + 2 * w)
    if m < 0.95:
        return r.choice([-1e6, 1e6, l - 1e-9 * max(1, abs(l)), u + 1e-9 * max(1, abs(u))])
    return float(r.randint(-3, 3))


def gen_shape(r, max_n):
    m = r.u01()
    n = 1 + int(max_n * r.u01() ** 2) if not r.chance(0.15) else r.randint(1, 3)
    n = max(1, min(n, max_n))
    if m < 0.4:
        return (n,)
    if m < 0.85:
        return (n, r.randint(1, 6)) if r.chance(0.7) else (r.randint(1, 6), n)
    a = max(1, int(round(n ** 0.5)))
    return (a, r.randint(1, 4), max(1, n // a // 2) if r.chance(0.5) else r.randint(1, 3))


def gen_axis(r, ndim):
    m = r.u01()
    if m < 0.3:
        return None, False
    if m < 0.4:
        return None, True
    k = r.chance(0.25)
    if ndim == 1:
        return r.choice([0, -1]), k
    if m < 0.8:
        return r.choice(list(range(ndim)) + [-1]), k
    axes = r.sample(range(ndim), r.randint(1, ndim))
    return sorted(axes), k


def gen_stat_case(r, max_n, tool=None):
    tool = tool or r.choice(STAT_TOOLS)
    shape = gen_shape(r, max_n)
    axis, keepdims = gen_axis(r, len(shape))
    case = {"family": "stat", "tool": tool, "eps": r.epsilon(1e-3, 20.0), "shape": list(shape), "axis": axis,
            "keepdims": keepdims}
    mode, red, red_shape, kept, one_dim = layout(case)
    ncell = int(np.prod(kept)) if mode == "axis" else 1
    per_col = mode == "axis" and one_dim and tool != "count_nonzero" and r.chance(0.5)
    if per_col:
        ls, us = gen_bounds(r, ncell if r.chance(0.85) else 1)
        case["bounds"] = [ls, us]
    else:
        l, u = gen_bounds(r)
        case["bounds"] = [l, u]
    if tool == "count_nonzero":
        case["bounds"] = [0.0, 1.0]
    dt = None
    m = r.u01()
    if tool in ("sum", "nansum") and m < 0.3:
        dt = r.choice(["int", "intp"]) if tool == "sum" else None
    elif tool != "count_nonzero" and m < 0.45:
        dt = r.choice(["float64", "float64", "float32"])
    case["dtype"] = dt
    if dt == "float32" and r.chance(0.7):      # bounds representable in float32: then the model applies as is
        def rnd(x):
            return float(np.float32(round(x * 64) / 64))
        b = case["bounds"]
        case["bounds"] = [[rnd(x) for x in b[0]], [max(rnd(x), rnd(y)) for x, y in zip(b[0], b[1])]] \
            if isinstance(b[0], list) else [rnd(b[0]), max(rnd(b[0]), rnd(b[1]))]
    nan_p = r.choice([0.0, 0.0, 0.15, 0.5, 0.85]) if tool.startswith("nan") else 0.0
    zero_p = 0.4 if tool == "count_nonzero" else 0.0
    cb = cell_bounds(case, ncell)
    nrec = int(np.prod(red_shape)) if red_shape else 1
    M = np.empty((nrec, ncell))
    for c in range(ncell):
        for i in range(nrec):
            M[i, c] = gen_value(r, cb[c][0], cb[c][1], nan_p, zero_p)
    arr = np.empty(shape)
    mv = np.moveaxis(arr, red, range(len(red)))
    mv[...] = M.reshape(mv.shape)
    if nan_p == 0.0 and case.get("dtype") in (None, "float64") and r.chance(0.15):
        # integer-typed input (ndarray of ints or a plain list of ints) with the same, generally non-integer, bounds
        case["arr_dtype"] = r.choice(["int64", "list"])
        if r.chance(0.5) and not isinstance(case["bounds"][0], list) and tool != "count_nonzero":
            lo = float(r.randint(-3, 3)) + r.choice([0.5, 0.9, 0.1, 0.75])
            case["bounds"] = [lo, lo + r.choice([0.2, 0.7, 1.7, 2.4])]
            cb = cell_bounds(case, ncell)
        arr = np.trunc(np.clip(arr, -1e6, 1e6))
        # integers near the bounds, so that records get clipped at a fractional bound
        mv = np.moveaxis(arr, red, range(len(red)))
        Mi = np.empty((nrec, ncell))
        for c in range(ncell):
            l, u = cb[c]
            for i in range(nrec):
                Mi[i, c] = float(r.randint(int(math.floor(l)) - 2, int(math.ceil(u)) + 2))
        mv[...] = Mi.reshape(mv.shape)
    case["data"] = arr.ravel().tolist()
    case["nan_p"] = nan_p
    return case


NARROW_TOOLS = ["mean", "nanmean", "sum", "nansum", "var", "std", "nanvar", "nanstd"]
UNREPRESENTABLE = [(0.0, 0.7), (-0.7, -0.1), (0.0, 0.1), (0.1, 0.7), (-0.3, 0.0), (0.0, 1.1), (-1.3, 0.0), (0.3, 0.9),
                   (0.0, 3.3), (-0.9, 0.6), (0.5, 2.9), (-2.9, -0.5), (0.0, 0.3), (1.1, 1.9)]


def gen_narrow_case(r):
    """the `dtype=` keyword (float32, float16; int for sum) crossed with bounds the dtype CANNOT represent, few records
    (1, 2, 4, 8: sizes where a narrow accumulation can be exact) mostly sitting on one bound (the lower bound 0 half of
    the time), scalar or axis-0 layout; the neighbours are corner-to-corner / far out of bounds"""
    tool = r.choice(NARROW_TOOLS)
    m = r.u01()
    dt = "float32" if m < 0.45 else ("float16" if m < 0.9 else "int")
    if dt == "int" and tool != "sum":
        # mean/var/std with an integer dtype: numpy truncates the statistic itself (see the report of this round: the
        # UNCHANGED code moves a mean by 1 with sensitivity 2/3); nan-variants refuse integer dtypes.  Not generated.
        dt = "float16"
    n = r.choice([1, 1, 2, 2, 4, 4, 8, 3, 5])
    ncol = r.choice([0, 0, 1, 2, 3])
    shape, axis = ([n], None) if ncol == 0 else ([n, ncol], 0)
    if ncol == 0 and r.chance(0.3):
        axis = 0
    case = {"family": "stat", "tool": tool, "eps": r.epsilon(1e-3, 20.0), "shape": shape, "axis": axis,
            "keepdims": False, "dtype": dt}

    def one():
        if r.chance(0.6):
            return r.choice(UNREPRESENTABLE)
        u = r.uniform(0.05, 20.0)
        k = r.randint(0, 3)
        return (0.0, u) if k == 0 else ((-u, 0.0) if k == 1 else ((u, u + r.uniform(0.05, 20.0)) if k == 2 else
                                                                   (-u - r.uniform(0.05, 20.0), -u)))
    if ncol >= 1 and r.chance(0.5):
        bs = [one() for _ in range(ncol)]
        case["bounds"] = [[float(b[0]) for b in bs], [float(b[1]) for b in bs]]
    else:
        b = one()
        case["bounds"] = [float(b[0]), float(b[1])]
    ncell = max(ncol, 1)
    cb = cell_bounds(case, ncell)
    nan_p = r.choice([0.0, 0.0, 0.3]) if tool.startswith("nan") else 0.0
    M = np.empty((n, ncell))
    for c in range(ncell):
        l, u = cb[c]
        side = l if (l == 0 or (u != 0 and r.chance(0.5))) else u
        for i in range(n):
            M[i, c] = float("nan") if (nan_p and r.chance(nan_p)) else (side if r.chance(0.85) else gen_value(r, l, u))
    case["data"] = M.reshape(shape).ravel().tolist()
    case["nan_p"] = nan_p
    return case


def gen_neighbour(r, case, kind=None):
    """{'rec': index of the record along the reduced axes (C order), 'new': one value per output cell, 'kind': …}"""
    mode, red, red_shape, kept, _ = layout(case)
    ncell = int(np.prod(kept)) if mode == "axis" else 1
    nrec = int(np.prod(red_shape)) if red_shape else 1
    cb = cell_bounds(case, ncell)
    arr = as_array(case)
    M = records_matrix(arr, red)
    rec = r.randint(0, nrec - 1)
    tool = case["tool"]
    nanable = tool.startswith("nan")
    kind = kind or r.choice(["random", "random", "corner", "corner", "nan", "far", "far"] if nanable
                            else ["random", "corner", "corner", "far"])
    new = []
    for c in range(ncell):
        l, u = cb[c]
        old = M[rec, c]
        if tool == "count_nonzero":
            new.append(0.0 if (old != 0 or r.chance(0.2)) and not r.chance(0.1) else r.choice([1.0, 2.5, -1.0]))
        elif kind == "corner":
            # corner-to-corner: as far from the old (clipped) value as the bounds allow
            far = u if (old != old or abs(old - l) <= abs(old - u)) else l
            new.append(far if r.chance(0.7) else (far + (1.0 if far == u else -1.0) * r.loguniform(1e-3, 1e3)))
        elif kind == "nan":
            new.append(r.uniform(l, u) if old != old else float("nan"))
        elif kind == "far":
            # a record far outside the bounds replaces / is replaced by an ordinary one (value -> value also next to NaNs)
            w = (u - l) if u > l else 1.0
            new.append(r.choice([u + w * r.loguniform(1.0, 1e3), l - w * r.loguniform(1.0, 1e3)]))
        else:
            new.append(gen_value(r, l, u, 0.2 if nanable else 0.0))
    if case.get("arr_dtype"):
        new = [float(r.choice([math.floor(cb[c][0]) - 1, math.floor(cb[c][0]), math.ceil(cb[c][1]), math.ceil(cb[c][1]) + 1,
                               r.randint(int(math.floor(cb[c][0])) - 2, int(math.ceil(cb[c][1])) + 2)])) for c in range(ncell)]
        kind = kind + "-int"
    return {"rec": rec, "new": new, "kind": kind}


def make_corner_case(r, case):
    """move every other record to one corner of its bounds so that the replaced record swings the statistic most"""
    if case.get("arr_dtype"):
        return case
    mode, red, red_shape, kept, _ = layout(case)
    ncell = int(np.prod(kept)) if mode == "axis" else 1
    cb = cell_bounds(case, ncell)
    arr = as_array(case)
    M = records_matrix(arr, red).copy()
    for c in range(ncell):
        l, u = cb[c]
        side = r.choice([l, u])
        for i in range(M.shape[0]):
            if M[i, c] == M[i, c] and r.chance(0.9):
                M[i, c] = side if case["tool"] != "count_nonzero" else M[i, c]
    out = np.empty(case["shape"])
    mv = np.moveaxis(out, red, range(len(red)))
    mv[...] = M.reshape(mv.shape)
    c2 = dict(case)
    c2["data"] = out.ravel().tolist()
    return c2


def gen_quant_case(r, max_n):
    tool = r.choice(QUANT_TOOLS)
    shape = gen_shape(r, max_n)
    axis, keepdims = gen_axis(r, len(shape))
    case = {"family": "quant", "tool": tool, "eps": r.epsilon(1e-3, 20.0), "shape": list(shape), "axis": axis,
            "keepdims": keepdims, "dtype": None}
    mode, red, red_shape, kept, one_dim = layout(case)
    ncell = int(np.prod(kept)) if mode == "axis" else 1
    if mode == "axis" and one_dim and r.chance(0.4):
        ls, us = gen_bounds(r, ncell)
        case["bounds"] = [ls, us]
    else:
        l, u = gen_bounds(r)
        if r.chance(0.1):
            u = l + r.choice([0.0, 1e-7, 5e-6, 2e-5])     # around min_separation
        case["bounds"] = [l, u]
    if tool != "median":
        nrec_q = int(np.prod(red_shape)) if red_shape else 1

        def q1():
            # includes extreme, not exactly representable ranks: 0 < q*k < 1 and k-1 < q*k < k
            ext = r.uniform(0.05, 0.98) / max(nrec_q, 1)
            return r.choice([0.0, 1.0, 0.5, 0.25, 0.9, r.u01(), r.u01(), ext, 1.0 - ext])
        if r.chance(0.45):
            case["quant"] = [q1() for _ in range(r.randint(2, 4))]
        else:
            case["quant"] = q1()
    cb = cell_bounds(case, ncell)
    nrec = int(np.prod(red_shape)) if red_shape else 1
    M = np.empty((nrec, ncell))
    ties = r.chance(0.3)
    for c in range(ncell):
        for i in range(nrec):
            v = gen_value(r, cb[c][0], cb[c][1])
            if ties and i > 0 and r.chance(0.4):
                v = M[r.randint(0, i - 1), c]
            M[i, c] = v
    if r.chance(0.15):
        case["arr_dtype"] = r.choice(["int64", "list"])
        for c in range(ncell):
            l, u = cb[c]
            for i in range(nrec):
                M[i, c] = float(r.randint(int(math.floor(l)) - 2, int(math.ceil(u)) + 2))
    arr = np.empty(shape)
    mv = np.moveaxis(arr, red, range(len(red)))
    mv[...] = M.reshape(mv.shape)
    case["data"] = arr.ravel().tolist()
    case["uni"] = r.choice([0.0, 0.5, r.u01()])
    return case


def gen_hist_case(r, max_n, weights=None):
    tool = r.choice(HIST_TOOLS)
    ndim = {"histogram": 1, "histogram2d": 2}.get(tool) or r.randint(1, 3)
    n = max(1, int(max_n * r.u01() ** 1.5))
    rg = []
    for _ in range(ndim):
        a = r.choice([0.0, -1.0, r.uniform(-5, 5)])
        rg.append([a, a + r.choice([1.0, 2.0, r.loguniform(0.1, 10)])])
    case = {"family": "hist", "tool": tool, "eps": r.epsilon(1e-3, 20.0), "ndim": ndim, "range": rg,
            "density": r.choice([None, None, True, False])}
    m = r.u01()
    maxb = 8 if ndim == 1 else (5 if ndim == 2 else 3)

    def edges(d):
        k = r.randint(1, maxb)
        pts = sorted({round(r.uniform(rg[d][0], rg[d][1]), 6) for _ in range(k + 1)})
        if len(pts) < 2:
            pts = [rg[d][0], rg[d][1]]
        return pts
    if m < 0.4:
        case["bins"] = r.randint(1, maxb)
    elif m < 0.6 and ndim > 1:
        case["bins"] = [r.randint(1, maxb) for _ in range(ndim)]
    elif m < 0.8:
        case["bins"] = edges(0) if tool == "histogram" else [edges(d) for d in range(ndim)]
        if r.chance(0.5):
            case["range"] = None          # explicit edges: the range is not needed
    elif ndim > 1:
        case["bins"] = [edges(d) if r.chance(0.5) else r.randint(1, maxb) for d in range(ndim)]
    else:
        case["bins"] = r.randint(1, maxb)
    if case["range"] is None and not _all_edges(case):
        case["range"] = rg
    rows = [[gen_hist_value(r, rg[d]) for d in range(ndim)] for _ in range(n)]
    case["sample"] = rows
    use_w = r.chance(0.4) if weights is None else weights
    if use_w:
        kind = r.choice(["ones", "unit", "big", "neg", "dyadic", "dyadic"])
        if kind == "dyadic":
            # weights in (0, 1] on a dyadic grid: bin totals are exact and land on x.5, x.25, … — the break-points of any
            # integer conversion of the weighted count (truncation, rounding half to even, …)
            grid = r.choice([[0.5, 1.0], [0.5, 1.0], [0.25, 0.5, 0.75, 1.0], [0.125, 0.25, 0.375, 0.5, 0.625, 0.75, 0.875, 1.0]])
            case["weights"] = [r.choice(grid) for _ in range(n)]
            case["wgrid"] = grid
        else:
            case["weights"] = [1.0 if kind == "ones" else (r.u01() if kind == "unit" else
                               (r.uniform(0, 5) if kind == "big" else r.uniform(-2, 2))) for _ in range(n)]
        case["wkind"] = kind
    else:
        case["weights"] = None
    return case


def _all_edges(case):
    b = case["bins"]
    if isinstance(b, int):
        return False
    if case["tool"] == "histogram":
        return True
    return all(isinstance(x, list) for x in b)


def gen_hist_value(r, rg):
    a, b = rg
    m = r.u01()
    if m < 0.7:
        return r.uniform(a, b)
    if m < 0.8:
        return r.choice([a, b])
    return r.uniform(a - (b - a), b + (b - a))


def gen_hist_neighbour(r, case):
    n = len(case["sample"])
    rec = r.randint(0, n - 1)
    if case.get("wkind") == "dyadic" and r.chance(0.6):
        heavy = [i for i, w in enumerate(case["weights"]) if w == 1.0]      # a weight-1 record leaves / moves
        if heavy:
            rec = r.choice(heavy)
    rg = case["range"] or [[min(x), max(x)] for x in ([case["bins"]] if case["tool"] == "histogram" else case["bins"])]
    new = [gen_hist_value(r, rg[d]) for d in range(case["ndim"])]
    if r.chance(0.15):
        new = list(case["sample"][rec])          # same place (only the weight may change)
    w = None
    if case["weights"] is not None:
        w = case["weights"][rec] if r.chance(0.3) else r.choice([0.0, 1.0, r.uniform(0, 5), r.uniform(-2, 2)])
        if case.get("wkind") == "ones":
            w = 1.0
        elif case.get("wkind") == "unit":
            w = r.u01()
        elif case.get("wkind") == "dyadic":
            w = case["weights"][rec] if r.chance(0.5) else r.choice(case["wgrid"])
            m = r.u01()
            if m < 0.35:        # leaves the range (or enters it, when the old record was outside)
                a, b = rg[0]
                new = list(new)
                new[0] = b + (b - a)
            elif m < 0.5:
                new = list(case["sample"][rec])
    return {"rec": rec, "new": new, "w": w, "kind": "hist" + ("-dyadic" if case.get("wkind") == "dyadic" else "")}


# ----------------------------------------------------------------------------------------------- (S) direct check

def call_cfg(c):
    p = c.params
    cfg = [c.cls] + [float(p.get(k)) if p.get(k) is not None else None for k in ("epsilon", "delta", "sensitivity", "lower", "upper")]
    if c.cls == "Exponential":
        cfg.append(tuple(float(x) for x in p["utility"]))
        cfg.append(bool(p.get("monotonic")))
    return cfg


def quantile_breakpoints(case, col):
    """the sorted array `quantile` builds for one cell: clipped data with the (min-separated) bounds appended"""
    l, u = col["bounds"]
    if u - l < 1e-5:
        mid = (u + l) / 2
        l, u = mid - 1e-5 / 2, mid + 1e-5 / 2
    a = np.sort(np.append(np.clip(np.asarray(col["data"], dtype=float), l, u), [l, u]))
    return a


def exp_law(c, a):
    """(breakpoints, log selection probability per interval, interval lengths) of a constructed Exponential mechanism
    of the quantile tool; reads epsilon, sensitivity, monotonic, utility, measure from the interposed object.
    `a` = the harness' reconstruction of the sorted array; it is used for the interval lengths when it agrees with the
    mechanism's measure (or when the mechanism has none), otherwise the measure itself is laid out from the lower bound"""
    p = c.params
    ut = np.array([float(x) for x in p["utility"]])
    eps, sens = float(p["epsilon"]), float(p["sensitivity"])
    scale = eps / sens / (2 - bool(p.get("monotonic"))) if sens / eps > 0 else float("inf")
    lens = np.diff(a)
    consistent = True
    if p.get("measure") is not None:
        ms = np.array([float(x) for x in p["measure"]])
        span = max(float(np.sum(np.abs(ms))), 1e-300)
        if ms.shape != lens.shape or not np.allclose(ms, lens, rtol=1e-9, atol=1e-12 * span):
            consistent = False
            lens = ms
            a = a[0] + np.concatenate([[0.0], np.cumsum(ms)])
    else:
        ms = np.ones_like(ut)
    if len(ut) != len(lens):
        return None
    lw = scale * (ut - ut.max())
    with np.errstate(divide="ignore", invalid="ignore"):
        t = lw + np.log(ms)                       # -inf where the measure is zero
        tf = t[np.isfinite(t)]
        lz = (tf.max() + np.log(np.sum(np.exp(tf - tf.max())))) if tf.size else float("nan")
    return a, t - lz, lens, consistent


def density_log_ratio(c1, c2, a1, a2):
    """max over outputs y of |log dens_D(y) - log dens_D'(y)|; an atom (positive probability on a zero-length
    interval) counts as an infinite ratio unless the other dataset has an atom of comparable mass at the same point"""
    L1, L2 = exp_law(c1, a1), exp_law(c2, a2)
    if L1 is None or L2 is None:
        return float("inf"), ("utility/measure/interval counts do not match", 0, 0), False
    a1, lp1, len1, ok1 = L1
    a2, lp2, len2, ok2 = L2
    worst, where = 0.0, (0.0, 0, 0)
    with np.errstate(divide="ignore", invalid="ignore"):
        ld1 = lp1 - np.log(len1)
        ld2 = lp2 - np.log(len2)
    atoms1 = {float(a1[i]): lp1[i] for i in range(len(len1)) if len1[i] <= 0 and lp1[i] > -np.inf}
    atoms2 = {float(a2[i]): lp2[i] for i in range(len(len2)) if len2[i] <= 0 and lp2[i] > -np.inf}
    for pt in set(atoms1) | set(atoms2):
        d = abs(atoms1.get(pt, -np.inf) - atoms2.get(pt, -np.inf)) if (pt in atoms1 and pt in atoms2) else float("inf")
        if d > worst:
            worst, where = d, (pt - float(a1[0]), -1, -1)
    pts = np.unique(np.concatenate([a1, a2]))
    span = max(a1[-1] - a1[0], 1e-300)
    for lo, hi in zip(pts[:-1], pts[1:]):
        if hi - lo <= 1e-12 * span:
            continue
        y = 0.5 * (lo + hi)
        i1 = min(max(int(np.searchsorted(a1, y, side="right")) - 1, 0), len(len1) - 1)
        i2 = min(max(int(np.searchsorted(a2, y, side="right")) - 1, 0), len(len2) - 1)
        d = abs(ld1[i1] - ld2[i2])
        if d != d:
            d = float("inf")
        if d > worst:
            worst, where = d, (float(y - a1[0]), int(i1), int(i2))
    return worst, where, ok1 and ok2


def probabilities_consistent(c, a):
    """the mechanism's own cumulative probabilities agree with the law recomputed from utility and measure"""
    L = exp_law(c, a)
    if L is None:
        return False
    got = np.asarray(c.obj._probabilities, dtype=float)
    if not np.all(np.isfinite(got)):
        return True     # exp underflow in the mechanism itself (huge epsilon x utility range): C12's business, not C07's
    with np.errstate(over="ignore", invalid="ignore"):
        pr = np.exp(np.minimum(L[1], 0.0))
    cum = np.cumsum(pr)
    return got.shape == cum.shape and np.allclose(got, cum, rtol=0, atol=1e-9)


def quantile_columns(case, arr):
    """per invocation (quantile-major, then cell): the cell's data and bounds"""
    mode, red, red_shape, kept, _ = layout(case)
    M = records_matrix(arr, red)
    ncell = M.shape[1] if mode == "axis" else 1
    cb = cell_bounds(case, ncell)
    q = case.get("quant", 0.5) if case["tool"] != "median" else 0.5
    nq = len(q) if isinstance(q, list) else 1
    cols = []
    for _ in range(nq):
        for c in range(ncell):
            cols.append({"data": M[:, c] if mode == "axis" else M[:, 0], "bounds": cb[c]})
    return cols


def hist_bin_of(case, edges, row):
    idx = []
    for d, e in enumerate(edges):
        e = np.asarray(e, dtype=float)
        x = row[d]
        if not (e[0] <= x <= e[-1]):
            return None
        idx.append(len(e) - 2 if x == e[-1] else int(np.searchsorted(e, x, side="right")) - 1)
    return tuple(idx)


def noise_of(case, ncall):
    """absolute rounding noise of the statistic handed to each invocation (float64 or float32 accumulation); the
    comparison d <= sens is made up to this noise so that rounding of numpy's own arithmetic is never reported"""
    if case["family"] != "stat":
        return [0.0] * ncall
    tool = case["tool"]
    u = 2.0 ** -23 if case.get("dtype") == "float32" else (2.0 ** -10 if case.get("dtype") == "float16" else 2.0 ** -52)
    mode, red, red_shape, kept, _ = layout(case)
    n = int(np.prod(red_shape)) if red_shape else 1
    out = []
    for l, hi in cell_bounds(case, ncall):
        m = max(abs(l), abs(hi))
        w = hi - l
        k = 64.0 * (1 + math.log2(max(n, 2)))
        if tool in ("mean", "nanmean"):
            out.append(k * u * m)
        elif tool in ("sum", "nansum"):
            out.append(k * u * m * n)
        elif tool in ("var", "nanvar", "std", "nanstd"):
            out.append(k * u * (m * w + w * w + (m * m if case.get("dtype") in NARROW else 0.0)))
        else:
            out.append(0.0)
    return out


def narrow_exact(case, cols, l, u):
    """mean / sum in a NARROW dtype (float32, float16): is the accumulation in that dtype EXACT for each of the given
    columns, whatever the order of the additions?  Sufficient: every clipped value, converted to the dtype, is a multiple
    of one quantum q (the smallest spacing among them) and sum |v| <= 2^p q (every partial sum is then representable);
    for the means the divisor (number of non-NaN values) is a power of two.  Then the narrow dtype adds NO rounding of its
    own beyond the conversion of the clipped values (which maps [l, u] into the rounded bounds), and the displacement is
    compared with the sensitivity up to DOUBLE rounding only: an allowance proportional to the dtype's epsilon would
    hide an input that is not confined to the bounds AS ROUNDED TO THE DTYPE (the sensitivity is computed from those)."""
    tool = case["tool"]
    if case.get("dtype") not in NARROW or tool not in ("mean", "nanmean", "sum", "nansum"):
        return False
    dt, p = NARROW[case["dtype"]]
    with np.errstate(all="ignore"):
        for col in cols:
            c = np.clip(np.asarray(col, dtype=float), l, u)
            if tool.startswith("nan"):
                c = c[~np.isnan(c)]
            elif np.isnan(c).any():
                return False
            v = c.astype(dt)
            if not np.isfinite(v).all():
                return False
            k = v.size
            if tool in ("mean", "nanmean") and (k == 0 or k & (k - 1)):
                return False
            nz = v[v != 0]
            if nz.size == 0:
                continue
            q = float(np.min(np.spacing(np.abs(nz))))
            if q <= 0 or float(np.sum(np.abs(nz.astype(float)))) > (2.0 ** p) * q:
                return False
            S = abs(float(np.sum(nz.astype(float))))
            if tool in ("mean", "nanmean") and S != 0 and S / k < float(np.finfo(dt).tiny):
                return False                    # the quotient would be subnormal (bits may be lost)
    return True


def classify(case, nb, site, touched_nan):
    tool = case["tool"]
    if case["family"] == "hist" and case.get("weights") is not None and site in ("sensitivity", "budget"):
        w_old = float(case["weights"][nb["rec"]])
        w_new = float(nb["w"]) if nb.get("w") is not None else w_old
        if not (0 <= w_old <= 1 and 0 <= w_new <= 1):     # weights in [0, 1] cannot move a count by more than 1
            return "C07:histogram:weights"
    if tool in ("nanmean", "nanvar", "nanstd") and touched_nan and site in ("sensitivity", "budget"):
        return f"C07:{tool}:size-counts-nans"
    if tool == "nansum" and touched_nan and site in ("sensitivity", "budget"):
        return "C07:nansum:nan-to-value"
    return f"C07:{tool}:{site}"


KNOWN_NAN_SUFFIXES = (":size-counts-nans", ":nan-to-value")


def clipped_statistic(tool, col, l, u, dtype=None):
    """what the tool must hand to its mechanism for one cell: the statistic of the CLIPPED sub-array (numpy, harness side)"""
    c = np.clip(np.asarray(col, dtype=float), l, u)
    dt = NARROW[dtype][0] if dtype in NARROW else None
    with np.errstate(all="ignore"), warnings.catch_warnings():
        warnings.simplefilter("ignore")
        if tool in ("nanmean", "mean"):
            return float((np.nanmean if tool.startswith("nan") else np.mean)(c, dtype=dt))
        if tool in ("nanvar", "nanstd", "var", "std"):
            return float((np.nanvar if tool.startswith("nan") else np.var)(c, dtype=dt))
        if tool in ("nansum", "sum"):
            return float((np.nansum if tool.startswith("nan") else np.sum)(c, dtype=dt))
    return None


def refine_nan_signature(case, nb, sig, i, va, vb, M1, M2, noise):
    """A sensitivity violation of a nan-variant in a slice with NaNs is one of the recorded defects only if the inputs
    ARE the statistics of the clipped slices (then the sensitivity is what is wrong: it counts NaNs / ignores NaN->value).
    If an input is not the clipped statistic, a record reached the statistic unclipped: a different defect."""
    tool = case["tool"]
    if not sig.endswith(KNOWN_NAN_SUFFIXES) or case.get("dtype") in ("int", "intp"):
        return sig
    ncell = M1.shape[1]
    if i >= ncell:
        return sig
    l, u = cell_bounds(case, ncell)[i]
    for v, M in ((va, M1), (vb, M2)):
        e = clipped_statistic(tool, M[:, i], l, u, case.get("dtype"))
        if e is None or e != e or v != v:
            continue
        if abs(e - v) > noise + 1e-9 * max(abs(e), abs(v)):
            return f"C07:{tool}:out-of-bounds-not-clipped"
    if tool == "nansum":
        old, new = M1[nb["rec"], i], M2[nb["rec"], i]
        if old == old and new == new:          # value -> value: not the NaN->value defect
            return "C07:nansum:sensitivity"
    return sig


def direct_check(case, nb, forced_seed=1):
    """Run the tool on D and D'.  Returns (violation | None, info) with violation = (signature, what, data)"""
    fam = case["family"]
    data = {"case": case, "neighbour": nb, "forced_seed": forced_seed}
    factor = 1.0
    touched_nan = False
    nan_cols = np.zeros(0, dtype=bool)
    qcols1 = qcols2 = []
    if fam == "hist":
        s1 = [list(map(float, row)) for row in case["sample"]]
        s2 = [list(row) for row in s1]
        s2[nb["rec"]] = list(nb["new"])
        w1 = case["weights"]
        w2 = None
        if w1 is not None:
            w2 = list(w1)
            w2[nb["rec"]] = nb["w"]
        c1, o1, e1 = run_tool(case, sample=s1, forced_seed=forced_seed)
        c2, o2, e2 = run_tool(case, sample=s2, weights=w2, forced_seed=forced_seed)
    else:
        arr = as_array(case)
        mode, red, red_shape, kept, _ = layout(case)
        arr2 = replace_record(arr, red, nb["rec"], [unjson_float(x) for x in nb["new"]])
        M1, M2 = records_matrix(arr, red), records_matrix(arr2, red)
        nan_cols = np.isnan(M1).any(axis=0) | np.isnan(M2).any(axis=0)
        touched_nan = bool(nan_cols.any())
        if fam == "quant":
            qcols1, qcols2 = quantile_columns(case, arr), quantile_columns(case, arr2)
        c1, o1, e1 = run_tool(case, arr=arr, forced_seed=forced_seed)
        c2, o2, e2 = run_tool(case, arr=arr2, forced_seed=forced_seed)
    info = {"calls": len(c1), "moved": 0, "exc": type(e1).__name__ if e1 else None}
    if (e1 is None) != (e2 is None) or (e1 is not None and type(e1) is not type(e2)):
        return (classify(case, nb, "exception-differs", touched_nan),
                f"{case['tool']}: D raises {type(e1).__name__ if e1 else None}, D' raises {type(e2).__name__ if e2 else None}",
                data), info
    if e1 is not None:
        return None, info
    if len(c1) != len(c2):
        return (classify(case, nb, "call-count", touched_nan),
                f"{case['tool']}: {len(c1)} mechanism invocations on D, {len(c2)} on D'", data), info
    if fam == "hist":
        edges = [o1[1]] if case["tool"] == "histogram" else (list(o1[1:]) if case["tool"] == "histogram2d" else list(o1[1]))
        edges2 = [o2[1]] if case["tool"] == "histogram" else (list(o2[1:]) if case["tool"] == "histogram2d" else list(o2[1]))
        if any(not np.array_equal(a, b) for a, b in zip(edges, edges2)):
            return (f"C07:{case['tool']}:edges-depend-on-data", f"{case['tool']}: bin edges differ between D and D'", data), info
        b_old = hist_bin_of(case, edges, s1[nb["rec"]])
        b_new = hist_bin_of(case, edges, s2[nb["rec"]])
        if b_old is not None and b_new is not None and b_old != b_new:
            factor = 2.0
        info["bins"] = (b_old, b_new)
    eps = float(case["eps"])
    total = 0.0
    worst = (0.0, None)
    qsum = 0.0
    noises = noise_of(case, len(c1))
    noises_dt = list(noises)
    if fam == "stat" and case.get("dtype") in NARROW and len(c1) == M1.shape[1]:
        n64 = noise_of(dict(case, dtype=None), len(c1))
        cbs = cell_bounds(case, len(c1))
        for i in range(len(c1)):
            if narrow_exact(case, (M1[:, i], M2[:, i]), cbs[i][0], cbs[i][1]):
                noises[i] = n64[i]
                info["narrow_exact"] = info.get("narrow_exact", 0) + 1
    first_known = None
    for i, (a, b) in enumerate(zip(c1, c2)):
        ca, cb_ = call_cfg(a), call_cfg(b)
        same = len(ca) == len(cb_) and all((x == y) or (isinstance(x, float) and isinstance(y, float) and x != x and y != y)
                                           for x, y in zip(ca, cb_))
        if not same:
            return (classify(case, nb, "config-differs", touched_nan),
                    f"{case['tool']}: invocation {i} configured differently on D and D': {ca[:6]} vs {cb_[:6]}", data), info
        if a.cls == "Exponential":
            if i >= len(qcols1):
                return (classify(case, nb, "call-count", touched_nan), f"{case['tool']}: more Exponential invocations "
                        f"({len(c1)}) than (quantile, cell) pairs ({len(qcols1)})", data), info
            a1, a2 = quantile_breakpoints(case, qcols1[i]), quantile_breakpoints(case, qcols2[i])
            if not (probabilities_consistent(a, a1) and probabilities_consistent(b, a2)):
                # The mechanism's own float evaluation of its law (C01/C12's subject) deviates from the exact law of
                # the configured (utility, measure, epsilon): e.g. exp underflow after subtracting the maximum utility
                # of a zero-measure interval.  C07 is about the configured mechanism; only counted here.
                info["selection_law_mismatch"] = True
            lr, where, cons = density_log_ratio(a, b, a1, a2)
            if not cons:
                info["inconsistent_measure"] = True
            qsum += lr
            if lr > 0:
                info["moved"] += 1
            e_i = float(a.params["epsilon"])
            if lr > e_i * (1 + SLACK) + 1e-12:
                data["offending"] = {"index": i, "log_ratio": lr, "where": where, "epsilon": e_i}
                return (classify(case, nb, "density-ratio", touched_nan),
                        f"{case['tool']}: invocation {i}: density of the released value changes by a factor e^{lr:.6g} > "
                        f"e^{e_i:.6g} at offset {where[0]!r} above the lower bound (intervals {where[1]}/{where[2]}; -1 = point mass)",
                        data), info
            continue
        va, vb = float(a.value), float(b.value)
        sens = float(a.params["sensitivity"])
        e_i = float(a.params["epsilon"])
        if va == vb or (va != va and vb != vb):
            continue
        d = abs(va - vb)
        info["moved"] += 1
        d_adj = max(0.0, d - noises[i]) if d == d else d
        ratio = (d_adj / sens if sens > 0 else float("inf")) if d_adj > 0 else 0.0
        if d != d:
            ratio = float("inf")
        total += e_i * ratio
        if ratio > worst[0]:
            worst = (ratio, i)
        if not ratio <= 1 + SLACK:
            off = {"index": i, "cls": a.cls, "input_D": va, "input_D'": vb, "sensitivity": sens, "epsilon": e_i}
            tn = touched_nan
            if fam == "stat" and len(c1) == len(nan_cols):
                tn = bool(nan_cols[i])          # NaNs in THIS cell's sub-array (D or D')
            sig = classify(case, nb, "sensitivity", tn)
            if fam == "stat":
                sig = refine_nan_signature(case, nb, sig, i, va, vb, M1, M2, noises_dt[i])
            v_here = (sig, f"{case['tool']}: invocation {i} ({a.cls}) input moves {va!r} -> {vb!r} (|d|={d:.6g}) but "
                           f"sensitivity={sens:.6g} (ratio {ratio:.6g})"
                           + (" — the input is not the statistic of the clipped data" if sig.endswith("not-clipped") else ""),
                      dict(data, offending=off))
            if sig.endswith(KNOWN_NAN_SUFFIXES):
                # a recorded defect: remember it, but keep looking at the other cells for a different one
                if first_known is None:
                    first_known = v_here
                continue
            return v_here, info
    if first_known is not None:
        return first_known, info
    if not total <= eps * factor * (1 + SLACK):
        data["offending"] = {"sum": total, "epsilon": eps, "factor": factor}
        return (classify(case, nb, "budget", touched_nan),
                f"{case['tool']}: sum_i eps_i d_i/sens_i = {total:.9g} > eps*{factor:g} = {eps * factor:.9g} over {len(c1)} invocations",
                data), info
    if not qsum <= eps * (1 + SLACK) + 1e-12 * max(1, len(c1)):
        data["offending"] = {"sum_log_ratio": qsum, "epsilon": eps}
        return (classify(case, nb, "budget", touched_nan),
                f"{case['tool']}: summed log density ratio {qsum:.9g} > eps = {eps:.9g} over {len(c1)} invocations", data), info
    # the epsilons handed out must not exceed the caller's epsilon when every invocation is touched (split identity)
    if fam != "hist":
        esum = sum(float(c.params["epsilon"]) for c in c1)
        if not esum <= eps * (1 + SLACK):
            data["offending"] = {"sum_eps": esum, "epsilon": eps}
            return (classify(case, nb, "budget", touched_nan),
                    f"{case['tool']}: the {len(c1)} invocations are configured with epsilons summing to {esum:.9g} > eps = {eps:.9g}",
                    data), info
    return None, info


# ----------------------------------------------------------------------------------------------- (K) correspondence

def bits(xs):
    return " ".join(str(f2b(float(x))) for x in xs)


LEAN_TOOL = {"count_nonzero": "count"}


def lean_lines(case, calls, out, forced_seed=1):
    """driver lines for one real run + a comparison plan.  Returns [(line, expect)] where expect describes what the
    answer must be compared with; None if this configuration has no model line"""
    fam = case["family"]
    forced = Forced(forced_seed)
    eps = float(case["eps"])
    res = []
    if fam == "stat":
        tool = case["tool"]
        dt = case.get("dtype")
        lt = LEAN_TOOL.get(tool, tool)
        if dt in ("int", "intp"):
            lt = "intsum"
        if dt == "float32":
            b = case["bounds"]
            flat = (b[0] + b[1]) if isinstance(b[0], list) else b
            if any(float(np.float32(x)) != x for x in flat):
                return None
        arr = as_array(case)
        mode, red, red_shape, kept, _ = layout(case)
        M = records_matrix(arr, red)
        tol_in = 1e-5 if dt == "float32" else 1e-9
        if mode == "scalar":
            l, u = cell_bounds(case, 1)[0]
            o = [c.forced for c in calls]
            if len(o) != 1:
                return [("scalar-bad", {"kind": "count", "n": 1})]
            line = f"scalar {lt} {bits([eps, l, u, o[0]])} {bits(M[:, 0])}"
            res.append((line, {"kind": "trace", "calls": calls, "release": [out], "tol_in": tol_in, "scale": [scale_of(tool, l, u, M.shape[0])]}))
        else:
            ncell = M.shape[1]
            cb = cell_bounds(case, ncell)
            o = [c.forced for c in calls]
            if len(o) != ncell:
                return [("axis-bad", {"kind": "count", "n": ncell})]
            bl = []
            for l, u in cb:
                bl += [l, u]
            line = f"axis {lt} {f2b(eps)} {ncell} {M.shape[0]} {bits(bl)} {bits(o)} {bits(M.ravel())}"
            # `_wrap_axis` stores the releases in an array of the caller's `dtype` (float when none was given)
            res.append((line, {"kind": "trace", "calls": calls, "release": list(np.asarray(out, dtype=float).ravel()),
                               "cast": np.float32 if dt == "float32" else None,
                               "tol_in": tol_in, "scale": [scale_of(tool, l, u, M.shape[0]) for l, u in cb]}))
        return res
    if fam == "hist":
        if not calls:
            return None
        tool = case["tool"]
        edges = [out[1]] if tool == "histogram" else (list(out[1:]) if tool == "histogram2d" else list(out[1]))
        dd = 0 if tool == "histogram" else 1
        w = case["weights"]
        parts = [f"hist {dd} {1 if w is not None else 0} {1 if case.get('density') else 0} {f2b(eps)} {f2b(MAXSIZE)} {len(edges)}"]
        for e in edges:
            parts.append(f"{len(e)} {bits(e)}")
        rows = case["sample"]
        parts.append(str(len(rows)))
        for i, row in enumerate(rows):
            parts.append(bits(list(row) + [1.0 if w is None else w[i]]))
        parts.append(bits([c.forced for c in calls]))
        res.append((" ".join(parts), {"kind": "hist", "calls": calls, "release": list(np.asarray(out[0], dtype=float).ravel())}))
        return res
    # quantile family: one line per (quantile, cell)
    arr = as_array(case)
    mode, red, red_shape, kept, _ = layout(case)
    M = records_matrix(arr, red)
    ncell = M.shape[1] if mode == "axis" else 1
    cb = cell_bounds(case, ncell)
    q = case.get("quant", 0.5) if case["tool"] != "median" else 0.5
    qs = [unjson_float(x) for x in q] if isinstance(q, list) else [unjson_float(q)]
    if case["tool"] == "percentile":
        qs = [float(np.asarray(x * 100) / 100) for x in qs]
    e_q = eps / len(qs) if len(qs) > 1 else eps
    e_c = e_q / ncell if mode == "axis" else e_q
    rel = np.asarray(out, dtype=float).ravel()
    if np.isnan(M).any():
        return None
    if len(calls) != len(qs) * ncell:
        return [("quant-bad", {"kind": "count", "n": len(qs) * ncell})]
    k = 0
    for qi, qv in enumerate(qs):
        for c in range(ncell):
            l, u = cb[c]
            call = calls[k]
            line = f"quantile {bits([e_c, l, u, 1e-5, qv])} {int(call.forced)} {f2b(case.get('uni', 0.5))} {bits(M[:, c] if mode == 'axis' else M[:, 0])}"
            res.append((line, {"kind": "quant", "call": call, "eps": e_c, "release": float(rel[k])}))
            k += 1
    return res


def scale_of(tool, l, u, n):
    m = max(abs(l), abs(u), 1e-300)
    if tool in ("mean", "nanmean"):
        return m
    if tool in ("var", "nanvar", "std", "nanstd"):
        return max((u - l) ** 2, m * m * 1e-6, 1e-300)
    if tool in ("sum", "nansum"):
        return m * n
    return float(n)


def close(a, b, rel, abs_=0.0):
    return gen.rel_close(float(a), float(b), rel, abs_)


def compare_answer(ctx, case, line, expect, ans):
    """True when model and implementation agree on this line"""
    w = ans.split()
    kind = expect["kind"]
    if kind == "count":
        ctx.disagree("tools.calls", {"case": brief(case)}, ans, f"implementation made a different number of invocations than {expect['n']}")
        return False
    if w[0] in ("bad-op", "bad-trace"):
        ctx.disagree("tools.driver", {"case": brief(case)}, ans, "driver could not run the line")
        return False
    if kind == "trace":
        calls = expect["calls"]
        n = int(w[0])
        if n != len(calls):
            ctx.disagree("tools.calls", {"case": brief(case)}, n, len(calls), "number of mechanism invocations")
            return False
        pos = 1
        for i, c in enumerate(calls):
            mk = w[pos]
            vals = [b2f(int(x)) for x in w[pos + 1:pos + 7]]
            pos += 7
            p = c.params
            impl = [float(p["epsilon"]), float(p.get("delta", 0.0)), float(p["sensitivity"]), float(p["lower"]), float(p["upper"])]
            if mk != c.cls:
                ctx.disagree("tools.trace", {"case": brief(case), "call": i}, mk, c.cls, "mechanism class")
                return False
            for name, mv, iv in zip(("epsilon", "delta", "sensitivity", "lower", "upper"), vals[:5], impl):
                if not close(mv, iv, 1e-9, 1e-300):
                    ctx.disagree("tools.trace", {"case": brief(case), "call": i, "field": name}, mv, iv)
                    return False
            sc = expect["scale"][i] if i < len(expect["scale"]) else 1.0
            if not close(vals[5], float(c.value), expect["tol_in"], 1e-11 * sc if expect["tol_in"] < 1e-6 else 1e-5 * sc):
                ctx.disagree("tools.trace", {"case": brief(case), "call": i, "field": "input"}, vals[5], float(c.value))
                return False
        assert w[pos] == "R"
        rel = [b2f(int(x)) for x in w[pos + 1:]]
        impl_rel = expect["release"]
        rtol = 1e-12
        if expect.get("cast") is not None:
            # the releases live in a float32 array (and `std` takes its square root there): compare at float32 precision
            rel = [float(expect["cast"](x)) for x in rel]
            rtol = 3e-7
        if len(rel) != len(impl_rel) or any(not close(a, b, rtol) for a, b in zip(rel, impl_rel)):
            ctx.disagree("tools.release", {"case": brief(case)}, rel[:6], impl_rel[:6])
            return False
        return True
    if kind == "hist":
        calls = expect["calls"]
        n = int(w[0])
        if n != len(calls):
            ctx.disagree("tools.calls", {"case": brief(case)}, n, len(calls), "number of mechanism invocations")
            return False
        mk = w[1]
        vals = [b2f(int(x)) for x in w[2:7]]
        c = calls[0]
        p = c.params
        impl = [float(p["epsilon"]), float(p.get("delta", 0.0)), float(p["sensitivity"]), float(p["lower"]), float(p["upper"])]
        if mk != c.cls or any(not close(a, b, 1e-9) for a, b in zip(vals, impl)):
            ctx.disagree("tools.trace", {"case": brief(case)}, [mk] + vals, [c.cls] + impl, "histogram mechanism configuration")
            return False
        i0 = w.index("I")
        r0 = w.index("R")
        ins = [b2f(int(x)) for x in w[i0 + 1:r0]]
        rel = [b2f(int(x)) for x in w[r0 + 1:]]
        for i, (mv, cc) in enumerate(zip(ins, calls)):
            if not close(mv, float(cc.value), 1e-9):
                # weighted sums sit on integer break-points of int(): skip when the float sum is within rounding
                ctx.disagree("tools.trace", {"case": brief(case), "call": i, "field": "input"}, mv, float(cc.value))
                return False
        impl_rel = expect["release"]
        if len(rel) != len(impl_rel) or any(not close(a, b, 1e-12) for a, b in zip(rel, impl_rel)):
            ctx.disagree("tools.release", {"case": brief(case)}, rel[:6], impl_rel[:6])
            return False
        return True
    if kind == "quant":
        c = expect["call"]
        if w[0] == "nan":
            ctx.disagree("tools.quantile", {"case": brief(case)}, "nan", "mechanism built")
            return False
        n = int(w[0])
        iu, im, iw, ir = w.index("U"), w.index("M"), w.index("W"), w.index("R")
        ut = [b2f(int(x)) for x in w[iu + 1:im]]
        ms = [b2f(int(x)) for x in w[im + 1:iw]]
        wt = [b2f(int(x)) for x in w[iw + 1:ir]]
        rel = b2f(int(w[ir + 1]))
        p = c.params
        if c.cls != "Exponential" or not close(float(p["epsilon"]), expect["eps"], 1e-9) or float(p["sensitivity"]) != 1.0 \
                or bool(p.get("monotonic")):
            ctx.disagree("tools.quantile", {"case": brief(case)}, ["Exponential", expect["eps"], 1.0],
                         [c.cls, p["epsilon"], p["sensitivity"], p.get("monotonic")], "mechanism configuration")
            return False
        iut = [float(x) for x in p["utility"]]
        if p.get("measure") is None:
            ctx.disagree("tools.quantile", {"case": brief(case), "field": "measure"}, ms[:8], None, "the mechanism has no base measure")
            return False
        ims = [float(x) for x in p["measure"]]
        span = max(sum(abs(x) for x in ims), 1e-300)
        if len(iut) != n or any(not close(a, b, 1e-9, 1e-12) for a, b in zip(ut, iut)):
            ctx.disagree("tools.quantile", {"case": brief(case), "field": "utility"}, ut[:8], iut[:8])
            return False
        if len(ims) != n or any(not close(a, b, 1e-9, 1e-13 * span) for a, b in zip(ms, ims)):
            ctx.disagree("tools.quantile", {"case": brief(case), "field": "measure"}, ms[:8], ims[:8])
            return False
        # selection law: the mechanism's cumulative probabilities vs the model's weights
        tot = sum(wt)
        if 0 < tot < 1e-290:
            ctx.boundary_skipped += 1          # denormal weights: the normalised law is dominated by rounding
        elif tot > 0 and math.isfinite(tot):
            cum = np.cumsum(np.array(wt) / tot)
            got = np.asarray(c.obj._probabilities, dtype=float)
            if got.shape != cum.shape or not np.allclose(got, cum, rtol=0, atol=1e-9):
                ctx.disagree("tools.quantile", {"case": brief(case), "field": "probabilities"}, cum[:8].tolist(), got[:8].tolist())
                return False
        if expect["release"] is not None and not close(rel, expect["release"], 1e-12, 1e-13 * span):
            ctx.disagree("tools.quantile", {"case": brief(case), "field": "release"}, rel, expect["release"])
            return False
        return True
    return True


def brief(case):
    c = {k: v for k, v in case.items() if k not in ("data", "sample", "weights")}
    for k in ("data", "sample", "weights"):
        if case.get(k) is not None:
            c[k] = case[k] if len(case[k]) <= 24 else list(case[k][:24]) + ["…"]
    return c


# ----------------------------------------------------------------------------------------------- check

def case_key(case, nb):
    b = case.get("bounds")
    bk = None if b is None else ("col" if isinstance(b[0], list) else ("zero" if b[0] == b[1] else ("pos" if b[0] > 0 else ("neg" if b[1] < 0 else "mixed"))))
    shape = tuple(case.get("shape") or (len(case.get("sample", [])), case.get("ndim")))
    ax = case.get("axis")
    return (case["tool"], shape, tuple(ax) if isinstance(ax, list) else ax, case.get("keepdims"), case.get("dtype"), bk,
            nb.get("kind"), case.get("weights") is not None, str(case.get("bins"))[:30], str(case.get("quant"))[:30])


def report(ctx, sig, what, data, cap=4):
    """at most `cap` violations per signature reach the runner (its list is bounded: a flood of one recorded defect
    must not crowd out a different one); the rest are only counted"""
    seen = ctx.__dict__.setdefault("_sig_counts", {})
    seen[sig] = seen.get(sig, 0) + 1
    ctx.count("violations:" + sig)
    if seen[sig] <= cap:
        ctx.violation(sig, what, data)


def one_case(ctx, r, case, n_nb, lines, pending):
    """direct check on n_nb neighbours + queue the correspondence lines of the base run"""
    fam = case["family"]
    if fam == "hist":
        calls, out, exc = run_tool(case, sample=case["sample"])
    else:
        calls, out, exc = run_tool(case, arr=as_array(case))
    if exc is not None:
        ctx.case(None)
        ctx.count("tool_raised:" + type(exc).__name__)
        if not isinstance(exc, (ValueError, TypeError)):
            raise exc
        return
    ll = lean_lines(case, calls, out)
    if ll:
        for line, expect in ll:
            pending.append((case, len(lines), expect))
            lines.append(line)
    else:
        ctx.count("no_model_line")
    for j in range(n_nb):
        if fam == "hist":
            nb = gen_hist_neighbour(r, case)
            base = case
        else:
            base = make_corner_case(r, case) if (j % 3 == 1) else case
            nb = gen_neighbour(r, base, "corner" if j % 3 == 1 else None)
        v, info = direct_check(base, nb)
        ctx.case(case_key(base, nb) if info.get("moved") else None)
        ctx.count("neighbour_pairs")
        ctx.count("invocations_paired", info.get("calls", 0))
        if info.get("selection_law_mismatch"):
            ctx.count("exponential_float_law_deviates_from_configured_law")
        if info.get("inconsistent_measure"):
            ctx.count("quantile_measure_not_interval_lengths")
        if v:
            report(ctx, v[0], v[1], v[2])


FIXED_WITNESS = {
    "nanmean": ({"family": "stat", "tool": "nanmean", "eps": 1.0, "shape": [4], "axis": None, "keepdims": False,
                 "bounds": [0.0, 1.0], "dtype": None, "data": [0.0, "nan", "nan", "nan"]},
                {"rec": 0, "new": [1.0], "kind": "witness"}),
    "nanvar": ({"family": "stat", "tool": "nanvar", "eps": 1.0, "shape": [4], "axis": None, "keepdims": False,
                "bounds": [0.0, 1.0], "dtype": None, "data": [0.0, 0.0, "nan", "nan"]},
               {"rec": 0, "new": [1.0], "kind": "witness"}),
    "nanstd": ({"family": "stat", "tool": "nanstd", "eps": 1.0, "shape": [4], "axis": None, "keepdims": False,
                "bounds": [0.0, 1.0], "dtype": None, "data": [0.0, 0.0, "nan", "nan"]},
               {"rec": 0, "new": [1.0], "kind": "witness"}),
    "nansum": ({"family": "stat", "tool": "nansum", "eps": 1.0, "shape": [2], "axis": None, "keepdims": False,
                "bounds": [5.0, 6.0], "dtype": None, "data": [5.5, "nan"]},
               {"rec": 1, "new": [5.5], "kind": "witness"}),
    "histogram": ({"family": "hist", "tool": "histogram", "eps": 1.0, "ndim": 1, "range": [[0.0, 1.0]], "bins": 1,
                   "density": None, "sample": [[0.5]], "weights": [3.0]},
                  {"rec": 0, "new": [2.0], "w": 3.0, "kind": "witness"}),
}


def witness(name, sig):
    def run(ctx):
        case, nb = FIXED_WITNESS[name]
        v, info = direct_check(case, nb)
        if v and v[0] == sig:
            return True, v[1]
        return False, "witness no longer fails" + (f" with this signature (got {v[0]})" if v else "")
    return run


def _wit_int_dtype(ctx):
    """mean / var / std with dtype=int: the statistic itself is truncated to an integer before it reaches the mechanism"""
    import warnings as _w
    out = []
    for name, (a1, a2) in (("mean", ([2.9, 2.9, 2.9], [0.5, 2.9, 2.9])),):
        ins = []
        for arr in (a1, a2):
            with _w.catch_warnings():
                _w.simplefilter("ignore")
                with seams.interpose(force=lambda c, i: c.value) as calls:
                    getattr(dp.tools, name)(np.array(arr), epsilon=1.0, bounds=(0.5, 2.9), dtype=int, random_state=0,
                                            accountant=dp.BudgetAccountant())
            ins.append((float(calls[0].value), float(calls[0].params["sensitivity"])))
        out.append((name, ins))
    (v1, s1), (v2, _s2) = out[0][1]
    fails = abs(v1 - v2) > s1 * (1 + 1e-9)
    return fails, (f"tools.mean([2.9, 2.9, 2.9], bounds=(0.5, 2.9), dtype=int) hands the mechanism {v1!r}, the neighbour "
                   f"[0.5, 2.9, 2.9] hands it {v2!r}: displacement {abs(v1 - v2)!r} with configured sensitivity {s1!r} "
                   f"(np.mean(..., dtype=int) truncates the statistic itself; the same for var and std; nanmean(dtype=int) "
                   f"raises TypeError)")


WITNESSES = {
    "C07:mean|var|std:int-dtype-truncates-statistic": _wit_int_dtype,
    "C07:nanmean:size-counts-nans": witness("nanmean", "C07:nanmean:size-counts-nans"),
    "C07:nanvar:size-counts-nans": witness("nanvar", "C07:nanvar:size-counts-nans"),
    "C07:nanstd:size-counts-nans": witness("nanstd", "C07:nanstd:size-counts-nans"),
    "C07:nansum:nan-to-value": witness("nansum", "C07:nansum:nan-to-value"),
    "C07:histogram:weights": witness("histogram", "C07:histogram:weights"),
}


def check(ctx):
    r = ctx.fork("cases")
    max_n = 40 if ctx.tier == "quick" else 400
    lines, pending = [], []
    # fixed witnesses of the recorded defects go through the same path (their violations carry the known signatures)
    for name, (case, nb) in FIXED_WITNESS.items():
        v, info = direct_check(case, nb)
        ctx.case(case_key(case, nb))
        if v:
            report(ctx, v[0], v[1], v[2])
    n_stat = ctx.budget(1000, 9000)
    n_quant = ctx.budget(320, 2400)
    n_hist = ctx.budget(400, 3000)
    for i in range(n_stat):
        tool = STAT_TOOLS[i % len(STAT_TOOLS)]
        mn = max_n if i % 5 else min(max_n, 8)
        one_case(ctx, r, gen_stat_case(r, mn, tool), 3, lines, pending)
    # narrow dtypes x bounds the dtype cannot represent x extreme replacements: direct check only, own random stream
    rn = ctx.fork("narrow-dtype")
    for i in range(ctx.budget(300, 3000)):
        case = gen_narrow_case(rn)
        calls, out, exc = run_tool(case, arr=as_array(case))
        if exc is not None:
            ctx.case(None)
            ctx.count("tool_raised:" + type(exc).__name__)
            if not isinstance(exc, (ValueError, TypeError)):
                raise exc
            continue
        for kind in ("corner", "far", "corner"):
            nb = gen_neighbour(rn, case, kind)
            v, info = direct_check(case, nb)
            ctx.case(case_key(case, nb) if info.get("moved") else None)
            ctx.count("neighbour_pairs")
            ctx.count("narrow_dtype_pairs")
            ctx.count("narrow_dtype_exact_cells", info.get("narrow_exact", 0))
            if v:
                report(ctx, v[0], v[1], v[2])
    for i in range(n_quant):
        one_case(ctx, r, gen_quant_case(r, max_n if i % 4 else 6), 3, lines, pending)
    for i in range(n_hist):
        hc = gen_hist_case(r, max_n if i % 3 else 6)
        one_case(ctx, r, hc, 6 if hc.get("wkind") == "dyadic" else 3, lines, pending)
    ctx.count("driver_lines", len(lines))
    if lines:
        outs = leanio.run_driver("Tools", lines)
        for case, idx, expect in pending:
            if compare_answer(ctx, case, lines[idx], expect, outs[idx]):
                ctx.trace_ok()
    if pending:
        c0 = pending[0][0]
        ctx.sample({"case": brief(c0), "driver_answer": outs[pending[0][1]][:300] if lines else None})


def replay(ctx, data):
    d = data["data"]
    v, info = direct_check(d["case"], d["neighbour"], d.get("forced_seed", 1))
    return v is not None


def generate(ctx):
    """translator tie: the mechanism configurations of _mean/_var/_sum (sensitivity, lower, upper) and the per-cell epsilon
    of _wrap_axis are re-read from /repo's AST on every run, translated to Lean terms over ℝ, and the generated file proves
    that they ARE the calls of the model's plans (meanPlan_call, varPlan_call, sumPlan_call; harness/anchors.py)"""
    from .. import anchors
    from ..shim import REPO
    r = anchors.build(REPO, "C07", ["DPL.Model.PlanTools"], anchors.c07_specs(), opens="", postlude=anchors.C07_POST)
    ctx.count("formula_anchors", r["obligations"])
    if r["errors"]:
        r["unavailable"] = r["errors"]      # anchors that could not be located / translated (not failed obligations)
    return r
