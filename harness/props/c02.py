"""C02 — calibrated noise laws satisfy the (eps, delta) inequality (DESIGN.md §6 C02).

(K) correspondence: the calibration each mechanism ACTUALLY USES — read off `randomise` under scripted randomness
    (ratio of the noise to the unit-parameter run), the public `effective_epsilon()`, the parameter handed to
    `rng.geometric`, break-points of the sampler located by bisection on the double grid, and (where the output is not
    affine in it) the stored `_scale` / `_noise_bound` — against the Lean model `DPL/Model/Calibration.lean` run on
    IEEE doubles by `Drivers/Continuous.lean`, rel. 1e-9.
(S) direct check, exactly the quantifier of the property: from the implementation's measured parameter the hockey-stick
    divergence H_{e^eps}(M(x) || M(x+t)) (both directions) is evaluated in closed form with 60-digit decimals
    (`harness/contlaw.py`) over displacements 0 < t <= sensitivity and positions in the domain; violation when
    H > delta (1 + 1e-5) + 1e-13, or — for delta = 0 — when the effective epsilon sup log(p/q) exceeds eps (1 + 1e-9).
"""
import math
import warnings
from decimal import Decimal as D
from fractions import Fraction

from ..shim import dp, np
from .. import gen, leanio, seams
from .. import contlaw as cl
from ..contlaw import d
from ..gen import f2b, b2f

PROPERTY = "C02"
LEAN_MODULE = "DPL.Properties.C02"
TRUSTED = [
    "modelled, not verified: CPython/numpy float arithmetic = IEEE binary64 = Lean `Float` (+,-,*,/,sqrt,pow bit-exact; "
    "exp/log to 1 ulp); `math.erfc` / `math.erf` = the model's numerical `erfcFloat` / `erfFloat` (relative 1e-13 resp. "
    "absolute 1.2e-16, measured on every run)",
    "the noise LAW is the ideal real-valued law with the calibrated parameter (Laplace / uniform / staircase / normal / "
    "discrete normal densities); that the samplers realise these laws from their uniforms is C03's business, the "
    "granularity of double-precision uniforms is not modelled",
    "cited, not re-proved (explicit hypotheses of the Lean theorems, never axioms): Canonne-Kamath-Steinke 2020 Thm 7 "
    "(discrete Gaussian), Mironov 2012 Thm 1 (snapping). No longer cited (now proved in Lean): Balle & Wang 2018 Thm 8, "
    "sufficiency (Phi(D/2s - eps s/D) - e^eps Phi(-D/2s - eps s/D) <= delta => the normal law is (eps,delta)-DP: "
    "gauss_dp_of_balleWang), Holohan et al. 2020 Lemma 3.4 (bounded_domain_normaliser_bound), Geng et al. 2018 "
    "(bounded_noise_dp), the classical Gaussian tail bound (gauss_classical_dp); erfc := 2/sqrt(pi) int_x^inf e^-t^2, "
    "normal law = Mathlib's gaussianReal",
    "the direct check evaluates closed-form divergences with python `decimal` at 60 digits (harness/contlaw.py); it is "
    "search support and residual validation, not counted as an obligation",
]
UNPROVED = [
    "on which side of the root the numerically solved calibrations settle (bounded-domain scale, analytic and discrete "
    "Gaussian sigma) is not provable even in exact arithmetic (a bracket midpoint is returned); it is decided on every "
    "run by the direct hockey-stick check",
    "analytic Gaussian: PROVED that objective <= 0 at the returned scale implies (eps,delta)-DP of the normal law "
    "(analytic_gauss_dp_of_private_side, true erfc); the residual is the side of the root (first item) and that the "
    "double-precision erfc of the code tracks the true one. Truncation of the discrete-Gaussian sums and the rtol=1e-6 "
    "stopping rule: validated numerically only. (The classical Gaussian for eps <= 1 is PROVED end to end: "
    "gauss_classical_dp, gauss_classical_dp_full_true.)",
    "bounded-domain Laplace: PROVED (eps,delta)-DP for every scale b with _f(b) <= b (bounded_domain_dp_of_fixpoint); "
    "that the returned bracket midpoint satisfies _f(b) <= b is the residual (first item). Bounded-noise Laplace: "
    "PROVED end to end (bounded_noise_dp = bounded_noise_dp_full, delta <= 1/2)",
    "floating-point rounding of the calibrations (theorems over the reals)",
]
RULE = ("parameter points (mechanism, eps in [1e-3,50] within the mechanism's admissible range, delta in [0,1) as "
        "admitted incl. 0/tiny/>=0.5, sensitivity in [0,1e6] incl. 0, domains of width 1e-3..inf at various offsets, "
        "gamma in [0,1] incl. 0, 1, default) generated from the seed; for each the calibration actually used is measured "
        "on the running implementation, compared with the Lean model on doubles, and the divergence is evaluated for "
        "displacements t in {sens, sens/2, random fractions, tiny} and several positions (both directions); a point is "
        "non-trivial when sens > 0 (there is a displacement to test); distinct by (mechanism, parameter bits)")

M = dp.mechanisms
ETA = float(np.finfo(float).epsneg)
REL_DELTA = D("1e-5")
ABS_DELTA = D("1e-13")
REL_EPS = D("1e-9")
UNIT_U = (0.75, 0.0, 0.0, 0.5)      # standard Laplace sample = log(0.25)


def quiet(f, *a, **k):
    with warnings.catch_warnings():
        warnings.simplefilter("ignore")
        with np.errstate(all="ignore"):
            return f(*a, **k)


# =========================================================================================== measurement seams

BACKEND = ["system"]     # which scripted generator the measurements hand to the mechanism: "system" | "numpy"
NUMPY_BACKEND_MECHS = ("Laplace", "LaplaceTruncated", "LaplaceFolded", "LaplaceBoundedDomain", "LaplaceBoundedNoise",
                       "Uniform", "Gaussian", "GaussianAnalytic", "Geometric")


def srng(uniforms=(), normals=()):
    """the scripted generator of the current back-end: a secrets.SystemRandom subclass (random / normalvariate — what
    random_state=None gives) or an np.random.RandomState subclass (random(size) / standard_normal — what an int seed or
    a RandomState gives; the mechanisms switch on AttributeError / TypeError)"""
    if BACKEND[0] == "numpy":
        return seams.ScriptedRandomState(uniforms=uniforms, normals=normals)
    return seams.ScriptedSystemRandom(uniforms=uniforms, normals=normals)


class backend:
    def __init__(self, name):
        self.name = name

    def __enter__(self):
        self.old = BACKEND[0]
        BACKEND[0] = self.name

    def __exit__(self, *a):
        BACKEND[0] = self.old


TYPES = [None]     # {parameter name: type tag} applied by `mk` to the constructor arguments of the point being measured
TYPE_TAGS = ("float32", "float16", "float64", "int", "int64", "int32")


def cast(v, tag):
    if tag is None or tag == "float":
        return v
    if tag == "int":
        return int(v)
    return getattr(np, tag)(v)


def quantise(v, tag):
    """the python float (the exact real number) the parameter has once it is given in type `tag`, or None when the value
    is not representable there (overflow, underflow to 0, non-integral for an integer type)"""
    if tag in (None, "float", "float64"):
        return float(v)
    if not math.isfinite(v):
        return None
    if tag in ("int", "int64", "int32"):
        q = round(v)
        if q != v and not (abs(v) >= 1 and abs(q - v) <= 0.5):
            return None
        if abs(q) >= (2 ** 31 if tag == "int32" else 2 ** 53):
            return None
        return float(q)
    with np.errstate(all="ignore"):
        q = float(getattr(np, tag)(v))
    if not math.isfinite(q) or (q == 0) != (v == 0):
        return None
    return q


class typed:
    def __init__(self, types):
        self.types = types

    def __enter__(self):
        self.old = TYPES[0]
        TYPES[0] = self.types

    def __exit__(self, *a):
        TYPES[0] = self.old


FACTORY = {}       # class name -> callable used INSTEAD of the constructor (a live object, see `Live`)


def mk(cls, params, **kw):
    """construct the mechanism — or, inside `Live.installed()`, hand back the live object with its rng re-armed"""
    name = cls if isinstance(cls, str) else cls.__name__
    f = FACTORY.get(name)
    if f is not None:
        return f(**kw)
    c = getattr(M, name)
    if TYPES[0]:
        params = {k: cast(v, TYPES[0].get(k)) for k, v in params.items()}
    return quiet(c, **params, **kw)       # overflow / divide warnings of extreme parameters are not the subject here


class Live:
    """ONE mechanism object that lives through a sequence construct -> use -> assign new parameters -> measure again.
    Its rng is a scripted generator owned by the harness; `live(random_state=new)` copies the script of `new` into it
    (the object keeps the generator it was constructed with: nothing private is touched)."""

    def __init__(self, mech, params, warm):
        self.mech = mech
        if mech == "Staircase":
            self.rng = seams.ScriptedRandomState(uniforms=warm["u"], geometrics=warm["g"])
        else:
            self.rng = seams.ScriptedSystemRandom(uniforms=warm["u"], bits=warm["bits"], normals=warm["n"])
        self.obj = getattr(M, mech)(**params, random_state=self.rng)

    def __call__(self, **kw):
        new = kw.get("random_state")
        if new is not None:
            for a in ("u", "bits", "normals", "gammas", "g"):
                if hasattr(self.rng, a):
                    setattr(self.rng, a, list(getattr(new, a, [])))
            for a in ("n_uniform", "n_bits", "n_normal", "n_gamma", "n_geom"):
                if hasattr(self.rng, a):
                    setattr(self.rng, a, 0)
            if hasattr(new, "cycle"):
                self.rng.cycle = new.cycle
            self.rng.log = new.log          # the caller reads the log of the generator it passed in
        return self.obj

    def installed(self):
        import contextlib

        @contextlib.contextmanager
        def cm():
            old = FACTORY.get(self.mech)
            FACTORY[self.mech] = self
            try:
                yield self
            finally:
                if old is None:
                    FACTORY.pop(self.mech, None)
                else:
                    FACTORY[self.mech] = old
        return cm()


def lap_unit(us=UNIT_U):
    """the standard Laplace variate the library's own sampler function produces for these four uniforms (the real code's
    `Laplace._laplace_sampler`; falls back to the unit-parameter run `Laplace(1, 0, 1).randomise(0)`)"""
    f = getattr(M.Laplace, "_laplace_sampler", None)
    if f is not None:
        return float(quiet(f, *us))
    m = M.Laplace(epsilon=1.0, delta=0.0, sensitivity=1.0, random_state=seams.ScriptedSystemRandom(us))
    return -float(quiet(m.randomise, 0.0))


def measure_laplace_scale(cls, params, value=0.0, us=UNIT_U):
    """scale used by `randomise` = noise / (unit-parameter noise); for truncated/folded the uniforms are chosen so that
    the noisy value stays inside the domain.  Returns (scale, relative precision of the measurement)."""
    L0 = lap_unit(us)
    m = mk(cls, params, random_state=srng(us))
    out = float(quiet(m.randomise, value))
    noise = out - value
    if L0 == 0:
        return float("nan"), 1.0, out
    scale = -noise / L0
    prec = 4 * abs(math.ulp(max(abs(out), abs(value)))) / abs(noise) if noise != 0 else 0.0
    return scale, prec, out


def small_uniforms(target):
    """four uniforms whose standard Laplace variate is log(1 - u1) ~ -target (second pair contributes exactly 0)"""
    u1 = -math.expm1(-min(target, 1.38))
    return (u1, 0.0, 0.0, 0.5)


def measure_inside(cls, params, lower, upper, expect):
    """scale of a truncated/folded Laplace measured with a (positive) noise that stays strictly inside the domain;
    measured at two noise magnitudes that must agree (guards against a truncated / reflected reading)"""
    lo, hi = float(lower), float(upper)
    if math.isinf(hi):
        v = 0.0 if math.isinf(lo) else lo
        room = math.inf
    elif math.isinf(lo):
        room = max(1.0, abs(hi))
        v = hi - room
    else:
        # the point of least magnitude that leaves room above it: best resolution of the (positive) noise
        v = max(0.0, lo) if hi > max(0.0, lo) else lo + (hi - lo) * 0.25
        room = hi - v
    if not room > 0:
        return float("nan"), 1.0
    target = 1.38
    if expect > 0 and math.isfinite(room):
        target = min(target, 0.5 * room / expect)
    for _ in range(40):
        s1, p1, o1 = measure_laplace_scale(cls, params, v, small_uniforms(target))
        s2, p2, o2 = measure_laplace_scale(cls, params, v, small_uniforms(target / 2))
        if o1 == v and o2 == v and expect > 0 and expect * target <= 16 * math.ulp(v if v else 1e-300):
            # the noise the calibration calls for is below the spacing of the doubles around every admissible value: it
            # is absorbed by `value - scale * L` and cannot be read off the outputs (granularity of doubles: not modelled)
            return float("nan"), 1.0
        inside = all((math.isinf(lo) or o > lo) and (math.isinf(hi) or o < hi) for o in (o1, o2))
        if inside and (s1 == s2 or abs(s1 - s2) <= max(1e-7, 4 * (p1 + p2)) * abs(s1)):
            return s1, p1
        target /= 8
    return float("nan"), 1.0


def measure_bounded_domain(params):
    """scale used by LaplaceBoundedDomain.randomise: (out - value) / L with an accepted first draw"""
    lo, hi = float(params["lower"]), float(params["upper"])
    m0 = mk("LaplaceBoundedDomain", params)
    # the scale randomise will use: the cached one if the object already calibrated, else what it is about to calibrate
    stored = float(m0._scale) if getattr(m0, "_scale", None) is not None else float(quiet(m0._find_scale))
    if not (stored > 0) or math.isinf(stored) or lo == hi:
        return stored, stored, 0.0
    if math.isinf(hi) and math.isinf(lo):
        v, room = 0.0, stored
    elif math.isinf(hi):
        v, room = lo, stored            # noise must be positive here: use the mirrored uniform below
    elif math.isinf(lo):
        v, room = hi, stored
    else:
        v, room = lo + (hi - lo) * 0.75, (hi - lo) * 0.5
    target = min(1.38, 0.5 * room / stored)
    us = small_uniforms(target)                     # L = log(1-u1) < 0  -> noisy = v + scale * L < v
    if math.isinf(hi) and not math.isinf(lo):
        us = (us[0], 1.0 - 2 ** -53, 0.0, 0.5)      # cos(pi u2) = -1 -> L > 0
    L = lap_unit(us)                                # the standard Laplace variate for these uniforms
    m = mk("LaplaceBoundedDomain", params, random_state=srng(us))
    out = float(quiet(m.randomise, v))
    noise = out - v
    if noise == 0:
        return stored, float("nan"), 1.0
    prec = 4 * math.ulp(max(abs(out), abs(v))) / abs(noise)
    return stored, noise / L, prec


def measure_gauss_sigma(cls, params):
    """the standard deviation of the noise randomise adds: the noise is sigma (c1 n1 + c2 n2) in its two normal draws;
    c1 sigma and c2 sigma are read off with the scripts (1, 0) and (0, 1), and the noise has s.d. sigma sqrt(c1^2 + c2^2)
    (= sigma for the coded (n1 + n2)/sqrt 2)"""
    outs = []
    m = None
    for script in ([1.0, 0.0], [0.0, 1.0]):
        m = quiet(mk, cls, params, random_state=srng(normals=script))
        outs.append(float(quiet(m.randomise, 0.0)))
    return math.hypot(outs[0], outs[1]), float(m._scale)


def measure_uniform(params):
    m = mk("Uniform", params, random_state=srng([0.0]))
    return -float(quiet(m.randomise, 0.0))


def measure_bounded_noise(params):
    """(scale, bound) stored after the first randomise + (scale measured from the output, acceptance probes)"""
    us = small_uniforms(4e-4)
    L0 = lap_unit(us)
    m = mk("LaplaceBoundedNoise", params, random_state=srng(us))
    out = float(quiet(m.randomise, 0.0))
    scale_m = out / L0 if L0 != 0 else float("nan")
    return float(m._scale), float(m._noise_bound), scale_m


def bounded_noise_accepts(params, ratio):
    """does the sampler accept a first draw whose magnitude is `ratio` (in units of the scale)?"""
    # |L| = ratio with two equal halves so that magnitudes up to ~70 are reachable
    h = ratio / 2
    u = -math.expm1(-h)
    us1 = (u, 0.0, u, 0.0)
    small = small_uniforms(4e-4)
    # second batch (2 samples): the array is reshaped (4, 2): [u1a u1b][u2a u2b][u3a u3b][u4a u4b]
    us2 = (small[0], small[0], 0.0, 0.0, 0.0, 0.0, 0.5, 0.5)
    L1 = lap_unit(us1)
    m = mk("LaplaceBoundedNoise", params, random_state=srng(us1 + us2))
    out = float(quiet(m.randomise, 0.0))
    sc = float(m._scale)
    return abs(out - sc * L1) <= 1e-12 * abs(sc * L1), abs(L1)


def staircase_run(params, u_sign, g, u_unif, u_bin):
    rng = seams.ScriptedRandomState(uniforms=[u_sign, u_unif, u_bin], geometrics=[g])
    m = mk("Staircase", params, random_state=rng)
    out = float(quiet(m.randomise, 0.0))
    p = [e[1] for e in rng.log if e[0] == "geometric"]
    return out, (p[0] if p else float("nan")), float(m.gamma)


def staircase_threshold(params):
    """smallest double u with binary_rv = 1 (i.e. the threshold q0 of `u < q0`), by bisection on the double grid"""
    top = 1.0 - 2 ** -53
    out_a, p, gamma = staircase_run(params, 0.75, 1, 0.5, 0.0)
    out_b, _, _ = staircase_run(params, 0.75, 1, 0.5, top)
    sens = params["sensitivity"]
    if out_a == out_b:
        # the binary draw never changes the output: the threshold is <= 0 (always second sub-step) or >= 1 (always first)
        first, second = gamma * 0.5 * sens, (gamma + (1 - gamma) * 0.5) * sens
        return (1.0 if abs(out_a - first) <= abs(out_a - second) else 0.0), p, gamma

    def is_second(u):
        o, _, _ = staircase_run(params, 0.75, 1, 0.5, u)
        return o != out_a
    lo, hi = f2b(0.0), f2b(top)          # invariant: not second(lo), second(hi)
    while hi - lo > 1:
        mid = (lo + hi) // 2
        if is_second(b2f(mid)):
            hi = mid
        else:
            lo = mid
    return b2f(hi), p, gamma


# =========================================================================================== generators

def g_eps(r, lo=1e-3, hi=50.0):
    m = r.u01()
    if m < 0.25:
        c = [x for x in (1e-3, 0.01, 0.1, 0.5, 1.0, 2.0, 5.0, 10.0, 30.0, 50.0) if lo <= x <= hi]
        return r.choice(c)
    return min(hi, max(lo, r.loguniform(lo, hi)))


def g_delta(r, zero_p=0.35, hi=0.999, lo=1e-12):
    if zero_p and r.chance(zero_p):
        return 0.0
    m = r.u01()
    if m < 0.35:
        return r.loguniform(lo, 1e-3)
    if m < 0.8 or hi <= 0.5:
        return r.uniform(1e-3, min(hi, 0.49))
    return r.uniform(0.5, hi)


def g_sens(r, zero_p=0.04):
    if r.chance(zero_p):
        return 0.0
    m = r.u01()
    if m < 0.3:
        return 1.0
    if m < 0.5:
        return float(r.randint(1, 100))
    if m < 0.55:
        return 1e6
    return r.loguniform(1e-6, 1e6)


def g_domain(r, sens, allow_inf=True, min_width_over_sens=None):
    """(lower, upper) of width in [1e-3, inf]"""
    m = r.u01()
    s = sens if sens > 0 else 1.0
    if allow_inf and m < 0.08:
        k = r.randint(0, 2)
        c = r.choice([0.0, 1.0, -5.0, r.uniform(-100, 100)])
        return [(-math.inf, math.inf), (c, math.inf), (-math.inf, c)][k]
    if m < 0.2:
        w = 1e-3
    elif m < 0.4:
        w = s
    elif m < 0.7:
        w = s * r.loguniform(1.0, 1e3)
    elif m < 0.8:
        w = s * r.uniform(0.05, 1.0)
    else:
        w = r.loguniform(1e-3, 1e6)
    w = max(w, 1e-3)
    if min_width_over_sens is not None:
        w = max(w, s * min_width_over_sens)
    k = r.u01()
    if k < 0.35:
        lo = 0.0
    elif k < 0.55:
        lo = -w / 2
    elif k < 0.8:
        lo = r.uniform(-10, 10) * w
    else:
        lo = r.uniform(-1000, 1000) * w
    return lo, lo + w


def g_ts(r, sens):
    """displacements 0 < t <= sens (as exact decimals)"""
    if sens <= 0:
        return []
    s = d(sens)
    out = [s, s / 2, s * d(r.uniform(0.5, 1.0)), s * d(r.loguniform(1e-6, 0.5))]
    return out


def g_positions(r, lo, hi, t, outside):
    """positions x (decimal) such that x and x + t are 'in the domain' (plus a few outside when the mechanism admits them)"""
    lo, hi = d(lo), d(hi)
    xs = []
    if lo == cl.NINF and hi == cl.INF:
        xs = [D(0), d(r.uniform(-50, 50))]
    elif hi == cl.INF:
        xs = [lo, lo + t * d(r.uniform(0, 3)), lo + d(r.loguniform(1e-3, 1e3))]
    elif lo == cl.NINF:
        xs = [hi - t, hi - t - t * d(r.uniform(0, 3)), hi - t - d(r.loguniform(1e-3, 1e3))]
    else:
        w = hi - lo
        if t <= w:
            room = w - t
            xs = [lo, lo + room, lo + room / 2, lo + room * d(r.u01())]
        else:
            xs = []
        if outside:
            xs += [lo - t / 2, hi - t / 2, lo - t * d(r.uniform(0, 5)), hi + t * d(r.uniform(0, 5)), (lo + hi) / 2 - t / 2]
    return xs


# =========================================================================================== verdicts

def slack_eps(eps):
    """the epsilon at which the hockey-stick divergence is evaluated when delta > 0.  Inside the property's range
    (eps <= 50) exactly eps.  Beyond it (the huge-epsilon region probed for noise-free shortcuts) the divergence is
    hypersensitive to the LAST BIT of the scale — sens / b = eps (1 + 1e-16) already gives H ~ eps * 1e-16 — so the
    property's own relative slack on epsilon (1e-9, stated for delta = 0) is applied as well."""
    e = d(eps)
    return e * (1 + REL_EPS) if e > 50 else e


def verdict(eps, delta, P, Q):
    """None if the pair satisfies the property's inequality, else (kind, measured, allowed)"""
    if delta == 0:
        e = cl.sup_log_ratio(P, Q)
        allowed = d(eps) * (1 + REL_EPS)
        if e > allowed:
            return ("eff-eps", e, allowed)
        return None
    H = cl.hockey_stick(P, Q, cl.dexp(slack_eps(eps)))
    allowed = d(delta) * (1 + REL_DELTA) + ABS_DELTA
    if H > allowed:
        return ("hockey-stick", H, allowed)
    return None


def fmt(x):
    try:
        return f"{float(x):.12g}"
    except Exception:
        return str(x)


class Point:
    """one parameter point of one mechanism"""
    __slots__ = ("mech", "params", "meas", "lines", "note", "types")

    def __init__(self, mech, params, types=None):
        self.mech = mech
        self.params = params          # the exact real numbers (python floats / ints), what the model sees
        self.types = types or None    # {name: tag}: the TYPE in which each is handed to the constructor (default: as is)
        self.meas = None
        self.lines = []
        self.note = None

    def key(self):
        return (self.mech,) + tuple(sorted((k, f2b(v) if isinstance(v, float) else v) for k, v in self.params.items())) \
            + (tuple(sorted(self.types.items())) if self.types else ())


# =========================================================================================== per-mechanism logic
# each mechanism: gen(r) -> params ; measure(pt) ; lines(pt) ; compare(ctx, pt, outs) ; direct(ctx, pt, r)

def B(x):
    return str(f2b(float(x)))


def ok_vals(out):
    w = out.split()
    if not w or w[0] != "ok":
        return None
    return w[1:]


def close(a, b, rel=1e-9, abs_=0.0):
    return gen.rel_close(float(a), float(b), rel, abs_)


def report(ctx, pt, sig, kind, measured, allowed, extra):
    what = (f"{pt.mech}({', '.join(f'{k}={v!r}' for k, v in pt.params.items())}): {kind} = {fmt(measured)} exceeds the allowed "
            f"{fmt(allowed)} with the calibrated parameter {pt.meas!r}; {extra}")
    if isinstance(pt.note, dict) and "live" in pt.note:
        # the same parameters on a FRESH object satisfy the property: the live object kept a calibration made for the
        # parameters it had before the assignment
        sig = f"C02:{pt.mech}:stale-calibration"
        what = (f"live object: {pt.mech}({pt.note['live']['constructed_with']}) -> {pt.note['live']['warm_up']} -> assign "
                f"{pt.note['live']['assigned']} -> randomise still uses the old calibration: " + what)
        extra = {"case": extra_json(extra), "live": pt.note["live"]}
    if pt.types:
        sig += ":typed-parameters"
        what = (f"with the parameters given as {pt.types} (same real numbers): " + what)
        extra = {"case": extra_json(extra), "types": pt.types}
    if isinstance(pt.note, dict) and pt.note.get("backend") == "numpy":
        sig += ":numpy-backend"
        what = "with random_state = a numpy RandomState (the `except AttributeError/TypeError` branch of randomise): " + what
        extra = {"case": extra_json(extra), "backend": "numpy"}
    n = ctx.counters.get("sig:" + sig, 0)
    ctx.count("sig:" + sig)
    if n < 5:       # the runner keeps 200 violations in all: repetitions must not crowd out a different signature
        ctx.violation(sig, what, {"mech": pt.mech, "params": pt.params, "meas": pt.meas, "case": extra_json(extra),
                                  "kind": kind, "measured": fmt(measured), "allowed": fmt(allowed)})


def extra_json(e):
    return e if isinstance(e, (dict, list, str)) else str(e)


# ---------------------------------------------------------------- Laplace / truncated / folded

def lap_family_gen(mech):
    def g(r):
        eps = g_eps(r)
        delta = g_delta(r)
        sens = g_sens(r)
        p = {"epsilon": eps, "delta": delta, "sensitivity": sens}
        if mech != "Laplace":
            lo, hi = g_domain(r, sens)
            p["lower"], p["upper"] = lo, hi
        return p
    return g


def lap_expected(p):
    return p["sensitivity"] / (p["epsilon"] - math.log1p(-p["delta"]))


def lap_measure(pt):
    cls = getattr(M, pt.mech)
    if pt.mech == "Laplace":
        s, prec, _ = measure_laplace_scale(cls, pt.params)
    else:
        s, prec = measure_inside(cls, pt.params, pt.params["lower"], pt.params["upper"], lap_expected(pt.params))
    pt.meas = {"scale": s, "prec": prec}


def lap_lines(pt):
    p = pt.params
    return [f"lap {B(p['epsilon'])} {B(p['delta'])} {B(p['sensitivity'])}"]


def lap_compare(ctx, pt, outs):
    v = ok_vals(outs[0])
    model = b2f(int(v[0]))
    tol = max(1e-9, pt.meas["prec"])
    if tol > 1e-6 or pt.meas["scale"] != pt.meas["scale"]:
        ctx.boundary_skipped += 1
        return True
    if not close(model, pt.meas["scale"], tol, 1e-300):
        ctx.disagree(f"calibration.{pt.mech}.scale", pt.params, model, pt.meas["scale"])
        return False
    return True


def lap_law(mech, x, b, lo, hi):
    if mech == "Laplace":
        return cl.laplace(x, b)
    if mech == "LaplaceTruncated":
        return cl.truncated_laplace(x, b, lo, hi)
    if mech == "LaplaceFolded":
        return cl.folded_laplace(x, b, lo, hi)
    if mech == "LaplaceBoundedDomain":
        return cl.bounded_domain_laplace(x, b, lo, hi)
    raise KeyError(mech)


def lap_direct(ctx, pt, r, cases=None):
    p = pt.params
    b = pt.meas["scale"]
    sens = p["sensitivity"]
    if sens == 0:
        return
    if b != b and pt.mech != "LaplaceBoundedDomain":
        ctx.count("scale_unmeasurable_below_output_resolution")
        ctx.boundary_skipped += 1
        return
    if not (b > 0) or math.isinf(b):
        report(ctx, pt, f"C02:{pt.mech}:no-positive-scale", "scale", b, 0, "the calibrated scale is not a positive number")
        return
    # the measurement of b through the outputs has relative precision `prec`: the upper end gets the benefit of doubt
    bd = d(b) * (1 + 2 * d(pt.meas.get("prec", 0.0)))
    lo, hi = d(p.get("lower", -math.inf)), d(p.get("upper", math.inf))
    if cases is None:
        cases = []
        for t in g_ts(r, sens):
            if pt.mech == "LaplaceBoundedDomain" and hi - lo < t:
                t = hi - lo                 # inputs are clamped into the domain: no two inputs are further apart
            if pt.mech == "Laplace":
                xs = [D(0)]
            else:
                xs = g_positions(r, lo, hi, t, outside=pt.mech != "LaplaceBoundedDomain")
            for x in xs[:5]:
                cases.append((x, t))
    for x, t in cases:
        P = lap_law(pt.mech, x, bd, lo, hi)
        Q = lap_law(pt.mech, x + t, bd, lo, hi)
        for dirn, (A_, B_) in (("x||x+t", (P, Q)), ("x+t||x", (Q, P))):
            v = verdict(p["epsilon"], p["delta"], A_, B_)
            ctx.count("divergences")
            if v:
                report(ctx, pt, f"C02:{pt.mech}:{v[0]}", v[0], v[1], v[2], {"x": str(x), "t": str(t), "direction": dirn})
                return


# ---------------------------------------------------------------- bounded domain

def bd_gen(r):
    eps = g_eps(r)
    delta = g_delta(r, zero_p=0.6)
    sens = g_sens(r)
    if r.chance(0.12):
        lo, hi = g_domain(r, sens)                                   # includes sens > width
    else:
        lo, hi = g_domain(r, sens, min_width_over_sens=1.0)
    return {"epsilon": eps, "delta": delta, "sensitivity": sens, "lower": lo, "upper": hi}


def bd_measure(pt):
    stored, used, prec = quiet(measure_bounded_domain, pt.params)
    pt.meas = {"scale": stored, "used": used, "prec": prec}


def bd_lines(pt):
    p = pt.params
    diam = p["upper"] - p["lower"]
    return [f"bd {B(p['epsilon'])} {B(p['delta'])} {B(p['sensitivity'])} {B(diam)}"]


def bd_compare(ctx, pt, outs):
    v = ok_vals(outs[0])
    model = b2f(int(v[0]))
    ok = True
    s = pt.meas["scale"]
    if not (close(model, s, 1e-9, 1e-300) or (model != model and s != s)):
        ctx.disagree("calibration.LaplaceBoundedDomain.scale", pt.params, [model, int(v[1])], s)
        ok = False
    u = pt.meas["used"]
    if u == u and s == s and s > 0 and pt.meas["prec"] < 1e-7 and not close(u, s, max(1e-9, pt.meas["prec"])):
        ctx.disagree("calibration.LaplaceBoundedDomain.sampler-scale", pt.params, s, u,
                     note="randomise uses a scale different from the calibrated one")
        pt.meas["scale"] = u          # the law is the sampler's
        ok = False
    return ok


def bd_direct(ctx, pt, r, cases=None):
    p = pt.params
    s = pt.meas["scale"]
    if p["sensitivity"] == 0 or p["lower"] == p["upper"]:
        return
    if s != s:
        ctx.count("bounded_domain_nan_scale")
        ctx.note(f"LaplaceBoundedDomain({p}) calibrates scale = nan (sensitivity > domain width): no law to check "
                 f"(randomise would not terminate — C12's business)")
        return
    lap_direct(ctx, pt, r, cases)


# ---------------------------------------------------------------- bounded noise

def bn_gen(r):
    return {"epsilon": g_eps(r), "delta": g_delta(r, zero_p=0, hi=0.4999), "sensitivity": g_sens(r)}


def bn_measure(pt):
    sc, bound, sc_m = measure_bounded_noise(pt.params)
    pt.meas = {"scale": sc, "bound": bound, "scale_sampler": sc_m}
    ratio = bound / sc if sc > 0 else 0.0
    if 1e-3 < ratio < 17:
        inside, _ = bounded_noise_accepts(pt.params, ratio * (1 - 1e-6))
        outside, _ = bounded_noise_accepts(pt.params, ratio * (1 + 1e-6))
        pt.meas["accepts_inside"] = bool(inside)
        pt.meas["accepts_outside"] = bool(outside)


def bn_lines(pt):
    p = pt.params
    return [f"bnoise {B(p['epsilon'])} {B(p['delta'])} {B(p['sensitivity'])}"]


def bn_compare(ctx, pt, outs):
    v = ok_vals(outs[0])
    ms, mb = b2f(int(v[0])), b2f(int(v[1]))
    ok = True
    if not close(ms, pt.meas["scale"], 1e-12, 0):
        ctx.disagree("calibration.LaplaceBoundedNoise.scale", pt.params, ms, pt.meas["scale"])
        ok = False
    if not close(mb, pt.meas["bound"], 1e-9, 0):
        ctx.disagree("calibration.LaplaceBoundedNoise.bound", pt.params, mb, pt.meas["bound"])
        ok = False
    if pt.meas["scale"] > 0 and not close(pt.meas["scale_sampler"], pt.meas["scale"], 1e-9):
        ctx.disagree("calibration.LaplaceBoundedNoise.sampler-scale", pt.params, pt.meas["scale"], pt.meas["scale_sampler"])
        pt.meas["scale"] = pt.meas["scale_sampler"]
        ok = False
    if pt.meas.get("accepts_inside") is False or pt.meas.get("accepts_outside") is True:
        ctx.disagree("calibration.LaplaceBoundedNoise.sampler-bound", pt.params, pt.meas["bound"],
                     [pt.meas.get("accepts_inside"), pt.meas.get("accepts_outside")],
                     note="acceptance region of randomise differs from the stored noise bound")
        ok = False
    return ok


def bn_direct(ctx, pt, r, cases=None):
    p = pt.params
    if p["sensitivity"] == 0:
        return
    sc, bound = pt.meas["scale"], pt.meas["bound"]
    if not (sc > 0 and bound > 0):
        report(ctx, pt, "C02:LaplaceBoundedNoise:no-positive-scale", "scale/bound", sc, 0, "degenerate calibration")
        return
    ts = [c[1] for c in cases] if cases else g_ts(r, p["sensitivity"])
    for t in ts:
        t = d(t)
        if math.isinf(bound):       # exp(epsilon) overflowed: no truncation at all, the noise is plain Laplace(sens/eps)
            P, Q = cl.laplace(D(0), d(sc)), cl.laplace(t, d(sc))
        else:
            P = cl.bounded_noise_laplace(D(0), d(sc), d(bound))
            Q = cl.bounded_noise_laplace(t, d(sc), d(bound))
        for dirn, (A_, B_) in (("x||x+t", (P, Q)), ("x+t||x", (Q, P))):
            v = verdict(p["epsilon"], p["delta"], A_, B_)
            ctx.count("divergences")
            if v:
                report(ctx, pt, f"C02:LaplaceBoundedNoise:{v[0]}", v[0], v[1], v[2],
                       {"x": "0", "t": str(t), "direction": dirn})
                return


# ---------------------------------------------------------------- uniform

def un_gen(r):
    dl = r.choice([0.5, 0.5, r.uniform(1e-3, 0.5), r.loguniform(1e-12, 1e-3), r.uniform(0.3, 0.5)])
    return {"delta": dl, "sensitivity": g_sens(r)}


def un_measure(pt):
    pt.meas = {"half_width": measure_uniform(pt.params)}


def un_lines(pt):
    return [f"unif {B(pt.params['delta'])} {B(pt.params['sensitivity'])}"]


def un_compare(ctx, pt, outs):
    model = b2f(int(ok_vals(outs[0])[0]))
    if not close(model, pt.meas["half_width"], 1e-12, 0):
        ctx.disagree("calibration.Uniform.half-width", pt.params, model, pt.meas["half_width"])
        return False
    return True


def un_direct(ctx, pt, r, cases=None):
    p = pt.params
    if p["sensitivity"] == 0:
        return
    w = pt.meas["half_width"]
    if not (w > 0) or math.isinf(w):
        report(ctx, pt, "C02:Uniform:no-positive-width", "half width", w, 0, "degenerate calibration")
        return
    ts = [c[1] for c in cases] if cases else g_ts(r, p["sensitivity"])
    for t in ts:
        t = d(t)
        P, Q = cl.uniform(D(0), d(w)), cl.uniform(t, d(w))
        for dirn, (A_, B_) in (("x||x+t", (P, Q)), ("x+t||x", (Q, P))):
            H = cl.hockey_stick(A_, B_, D(1))
            ctx.count("divergences")
            allowed = d(p["delta"]) * (1 + REL_DELTA) + ABS_DELTA
            if H > allowed:
                report(ctx, pt, "C02:Uniform:hockey-stick", "hockey-stick", H, allowed,
                       {"x": "0", "t": str(t), "direction": dirn})
                return


# ---------------------------------------------------------------- staircase

def st_gen(r):
    eps = g_eps(r)
    m = r.u01()
    if m < 0.25:
        gamma = None
    elif m < 0.35:
        gamma = r.choice([0.0, 1.0])
    elif m < 0.45:
        gamma = r.loguniform(1e-9, 1e-2)
    else:
        gamma = r.u01()
    p = {"epsilon": eps, "sensitivity": g_sens(r)}
    if gamma is not None:
        p["gamma"] = gamma
    return p


def st_measure(pt):
    p = pt.params
    if p["sensitivity"] == 0:
        _, pg, gamma = staircase_run(p, 0.75, 1, 0.5, 0.0)
        pt.meas = {"geom_p": pg, "gamma": gamma, "q0": None, "draws": []}
        return
    q0, pg, gamma = staircase_threshold(p)
    pt.meas = {"geom_p": pg, "gamma": gamma, "q0": q0, "draws": []}


def st_lines(pt, r=None):
    p = pt.params
    g = pt.meas["gamma"]
    lines = [f"stairg {B(p['epsilon'])}", f"stairp {B(p['epsilon'])} {B(g)}"]
    rr = gen.SplitMix64(f2b(p['epsilon']) ^ (f2b(p['sensitivity']) * 3) ^ (f2b(g) * 7))
    for _ in range(3):
        u1, G, u3, u4 = rr.u01(), rr.choice([1, 1, 2, 3, rr.randint(1, 40)]), rr.u01(), rr.u01()
        out, _, _ = staircase_run(p, u1, G, u3, u4)
        pt.meas["draws"].append((u1, G, u3, u4, out))
        lines.append(f"stairn {B(p['epsilon'])} {B(g)} {B(p['sensitivity'])} {B(u1)} {G} {B(u3)} {B(u4)}")
    return lines


def st_compare(ctx, pt, outs):
    p = pt.params
    ok = True
    gdef = b2f(int(ok_vals(outs[0])[0]))
    if "gamma" not in p and not close(gdef, pt.meas["gamma"], 1e-12):
        ctx.disagree("calibration.Staircase.default-gamma", p, gdef, pt.meas["gamma"])
        ok = False
    v = ok_vals(outs[1])
    mp, mq = b2f(int(v[0])), b2f(int(v[1]))
    if not close(mp, pt.meas["geom_p"], 1e-12, 2e-16):
        ctx.disagree("calibration.Staircase.geometric-p", p, mp, pt.meas["geom_p"])
        ok = False
    q0 = pt.meas["q0"]
    # exp(eps/2) = inf gives gamma = 0 and a threshold 0/0 = nan: `u < nan` is never true, i.e. threshold 0 in effect
    if q0 is not None and not (close(mq, q0, 1e-12, 2e-16) or (mq >= 1.0 and q0 >= 1.0 - 2 ** -52)
                               or (mq != mq and q0 == 0.0)):
        ctx.disagree("calibration.Staircase.binary-threshold", p, mq, q0)
        ok = False
    for (u1, G, u3, u4, out), o in zip(pt.meas["draws"], outs[2:]):
        mo = b2f(int(ok_vals(o)[0]))
        near = q0 is not None and abs(u4 - mq) <= 1e-12
        if near:
            ctx.boundary_skipped += 1
            continue
        if not close(mo, out, 1e-12, 0):
            ctx.disagree("calibration.Staircase.noise", {"params": p, "draws": [u1, G, u3, u4]}, mo, out)
            ok = False
    return ok


def st_direct(ctx, pt, r, cases=None):
    """effective epsilon of the staircase law built from the SAMPLER's parameters: heights of the two sub-steps of
    level k are  h0_k = (1-b) b^k q0 / (2 gamma s),  h1_k = (1-b) b^k (1-q0) / (2 (1-gamma) s);  under a shift of at most
    s the density moves between neighbouring sub-steps only, so
        eff = max |log h0_k/h1_k|, |log h1_k/h0_{k+1}|, |log 1/b|.
    q0 and p = 1-b are doubles: a value within 2^-51 (four roundings at 1.0) of the measured one is given the benefit of doubt."""
    p = pt.params
    if p["sensitivity"] == 0 or pt.meas["q0"] is None:
        return
    eps = d(p["epsilon"])
    u = D(2) ** -51
    gamma = d(pt.meas["gamma"])
    q0 = d(pt.meas["q0"])
    pg = d(pt.meas["geom_p"])
    allowed = eps * (1 + REL_EPS)

    def lo_abs(f, lo, hi):
        """lower bound of |f| over [lo, hi] for a monotone f"""
        a, b_ = f(lo), f(hi)
        if (a <= 0 <= b_) or (b_ <= 0 <= a):
            return D(0)
        return min(abs(a), abs(b_))
    # b = 1 - p
    b_lo, b_hi = max(1 - pg - u, D(0)), min(1 - pg + u, D(1))
    if b_hi <= 0:
        return
    e_levels = -(b_hi.ln())                     # smallest possible |log b|
    worst = ("level ratio 1/b", e_levels)
    if 0 < gamma < 1:
        q_lo, q_hi = max(q0 - u, D(0)), min(q0 + u, D(1))
        odds = (1 - gamma) / gamma

        def r1(q):
            if q <= 0:
                return cl.NINF
            if q >= 1:
                return cl.INF
            return (q / (1 - q) * odds).ln()
        e1 = lo_abs(r1, q_lo, q_hi)
        # r2 = -r1 - log b : smallest |r2| over the box
        cands = []
        for q in (q_lo, q_hi):
            for bb in (b_lo, b_hi):
                a = r1(q)
                if a in (cl.INF, cl.NINF) or bb <= 0:
                    cands.append(None)
                else:
                    cands.append(-a - bb.ln())
        if any(c is None for c in cands):
            e2 = D(0)
        elif min(cands) <= 0 <= max(cands):
            e2 = D(0)
        else:
            e2 = min(abs(c) for c in cands)
        if e1 > worst[1]:
            worst = ("first/second sub-step of a level", e1)
        if e2 > worst[1]:
            worst = ("second sub-step / next level", e2)
    ctx.count("divergences")
    if worst[1] > allowed:
        report(ctx, pt, "C02:Staircase:eff-eps", "eff-eps", worst[1], allowed, {"pair": worst[0]})


# ---------------------------------------------------------------- Gaussian family

def ga_gen(mech):
    def g(r):
        eps = g_eps(r, hi=1.0) if mech == "Gaussian" else g_eps(r)
        delta = g_delta(r, zero_p=0)
        return {"epsilon": eps, "delta": delta, "sensitivity": g_sens(r)}
    return g


def ga_measure(pt):
    used, stored = measure_gauss_sigma(getattr(M, pt.mech), pt.params)
    pt.meas = {"sigma": used, "stored": stored}


def ga_lines(pt):
    p = pt.params
    op = "gauss" if pt.mech == "Gaussian" else "ag"
    return [f"{op} {B(p['epsilon'])} {B(p['delta'])} {B(p['sensitivity'])}"]


def ga_compare(ctx, pt, outs):
    p = pt.params
    v = ok_vals(outs[0])
    model = b2f(int(v[0]))
    ok = True
    if not close(pt.meas["sigma"], pt.meas["stored"], 1e-12, 1e-300):
        ctx.disagree(f"calibration.{pt.mech}.sampler-sigma", p, pt.meas["stored"], pt.meas["sigma"],
                     note="randomise uses a sigma different from the calibrated one")
        ok = False
    if not close(model, pt.meas["sigma"], 1e-9, 1e-300):
        ctx.disagree(f"calibration.{pt.mech}.sigma", p, model, pt.meas["sigma"])
        ok = False
    return ok


def ga_direct(ctx, pt, r, cases=None):
    p = pt.params
    if p["sensitivity"] == 0:
        return
    s = pt.meas["sigma"]
    if not (s > 0) or math.isinf(s):
        report(ctx, pt, f"C02:{pt.mech}:no-positive-sigma", "sigma", s, 0, "degenerate calibration")
        return
    ts = [c[1] for c in cases] if cases else g_ts(r, p["sensitivity"])
    allowed = d(p["delta"]) * (1 + REL_DELTA) + ABS_DELTA
    for t in ts:
        H = cl.gaussian_hockey_stick(d(t), d(s), slack_eps(p["epsilon"]))
        ctx.count("divergences")
        if H > allowed:
            sig = f"C02:{pt.mech}:hockey-stick"
            if pt.mech == "GaussianAnalytic":
                # phi(-x) = (1 + erf(-x/sqrt 2))/2 carries an absolute rounding error of 2^-54 which the objective
                # multiplies by e^eps: an excess explained by that is the cancellation defect, anything larger is not
                if H - d(p["delta"]) <= 4 * cl.dexp(d(p["epsilon"])) * D(2) ** -53:
                    sig = "C02:GaussianAnalytic:erf-cancellation"
            report(ctx, pt, sig, "hockey-stick", H, allowed, {"x": "0", "t": str(t)})
            return


def dg_gen(r, budget_sigma=250.0):
    for _ in range(100):
        eps = g_eps(r)
        delta = g_delta(r, zero_p=0)
        sens = r.choice([1, 1, 1, 2, 3, r.randint(1, 30), 0]) if r.chance(0.97) else r.randint(31, 2000)
        est = (sens or 1) * math.sqrt(2 * math.log(1.25 / min(delta, 0.9))) / eps
        if est <= budget_sigma:
            return {"epsilon": eps, "delta": delta, "sensitivity": int(sens)}
    return {"epsilon": 1.0, "delta": 1e-3, "sensitivity": 1}


class _Timeout(Exception):
    pass


def with_timeout(seconds, f, *a, **k):
    """run f under SIGALRM (main thread only; falls back to a plain call elsewhere)"""
    import signal
    import threading
    if threading.current_thread() is not threading.main_thread():
        return f(*a, **k)

    def h(*_):
        raise _Timeout()
    old = signal.signal(signal.SIGALRM, h)
    signal.alarm(seconds)
    try:
        return f(*a, **k)
    finally:
        signal.alarm(0)
        signal.signal(signal.SIGALRM, old)


def dg_measure(pt):
    if pt.params["epsilon"] > 700:
        # np.exp(epsilon) overflows: guard the constructor (the root finder may never return)
        try:
            m = with_timeout(3, quiet, mk, "GaussianDiscrete", pt.params)
        except _Timeout:
            pt.meas = {"sigma": float("nan"), "timeout": True}
            return
    else:
        m = quiet(mk, "GaussianDiscrete", pt.params)
    pt.meas = {"sigma": float(m._scale)}


def dg_lines(pt):
    p = pt.params
    return [f"dg {B(p['epsilon'])} {B(p['delta'])} {p['sensitivity']} {B(0.5)} {B(1e-6)} {B(1e-12)}"]


def dg_compare(ctx, pt, outs):
    v = ok_vals(outs[0])
    if pt.meas.get("timeout"):
        ctx.count("discrete_gauss_constructor_timeout")
        return True
    if v is None:
        ctx.disagree("calibration.GaussianDiscrete.sigma", pt.params, outs[0], pt.meas["sigma"])
        return False
    model = b2f(int(v[0]))
    if not close(model, pt.meas["sigma"], 1e-9, 0):
        # the bisection halves a bracket 20 times: a 1-ulp difference of exp can flip a sign test only if the
        # objective is within rounding of 0 at a midpoint; then the two results differ by a whole bracket
        ctx.disagree("calibration.GaussianDiscrete.sigma", pt.params, model, pt.meas["sigma"])
        return False
    return True


def dg_direct(ctx, pt, r, cases=None):
    p = pt.params
    sens = p["sensitivity"]
    if sens == 0:
        return
    s = pt.meas["sigma"]
    if pt.meas.get("timeout"):
        # GaussianDiscrete(epsilon > 709) never returns from its constructor at HEAD (np.exp(epsilon) = inf, objective
        # inf * 0 = nan, the bisection never moves).  A mechanism that is never constructed releases nothing: this is not
        # a violation of C02 (whose quantifier ends at epsilon = 50 anyway) - counted as an observation, see DESIGN 11.5
        ctx.count("observed_outside_property:GaussianDiscrete_constructor_does_not_return_for_epsilon_above_709")
        return
    if not (s > 0) or math.isinf(s):
        report(ctx, pt, "C02:GaussianDiscrete:no-positive-sigma", "sigma", s, 0, "degenerate calibration")
        return
    ts = [int(c[1]) for c in cases] if cases else sorted({sens, 1, max(1, sens // 2), r.randint(1, sens)}, reverse=True)
    allowed = d(p["delta"]) * (1 + REL_DELTA) + ABS_DELTA
    for t in ts:
        H = cl.discrete_gaussian_hockey_stick(t, d(s), slack_eps(p["epsilon"]))
        ctx.count("divergences")
        if H > allowed:
            # classify: is the returned midpoint below the smallest private sigma by no more than the bracket
            # tolerance (the rtol = 1e-6 stopping rule), or is the calibration wrong altogether?
            H_up = cl.discrete_gaussian_hockey_stick(t, d(s) * (1 + D("2e-6")), d(p["epsilon"]))
            sig = "C02:GaussianDiscrete:midpoint-nonprivate" if H_up <= allowed else "C02:GaussianDiscrete:hockey-stick"
            report(ctx, pt, sig, "hockey-stick", H, allowed,
                   {"x": "0", "t": str(t), "H_at_sigma_times_1+2e-6": fmt(H_up)})
            return


# ---------------------------------------------------------------- snapping

def sn_gen(r):
    sens = g_sens(r, zero_p=0.03)
    eps = g_eps(r)
    lo, hi = g_domain(r, sens, allow_inf=False)
    if sens > 0 and r.chance(0.55):
        # a domain of several rounding cells (lambda < 2 / eps in the sensitivity-1 frame) around its centre, so that the
        # Laplace scale randomise really uses can be read off the break-points of its output; sensitivities below and above 1
        if r.chance(0.5):
            sens = r.loguniform(1e-3, 1e3)
        w = sens * (10.0 / min(eps, 50.0) + 2.0) * r.loguniform(1.5, 100.0)
        lo = r.choice([0.0, -w / 2, r.uniform(-3, 3) * w])
        hi = lo + w
    return {"epsilon": eps, "sensitivity": sens, "lower": lo, "upper": hi}


def snap_out(params, value, bit, u):
    """Snapping.randomise(value) with the sign bit and the uniform u in (2^-32, 1) scripted through getrandbits:
    bits = [sign, 52 mantissa bits, a 32-bit word whose bit length sets the exponent]"""
    f, e = math.frexp(u)                       # u = f 2^e, f in [0.5, 1)
    mant = int(f * (1 << 53)) - (1 << 52)
    j = -e
    rng = seams.ScriptedSystemRandom(bits=[bit, mant, 1 << (31 - j)])
    return float(quiet(mk("Snapping", params, random_state=rng).randomise, value))


def measure_snapping_scale(params):
    """the Laplace scale Snapping.randomise REALLY uses, in its sensitivity-1 frame, read off the sampler: with the input
    at the centre of the domain and the sign positive the output is  round_to_multiple_of_lambda(x0 + scale |log u|)
    (lambda = the power of two in [scale, 2 scale)); it steps from cell 0 to cell 1 at |log u| = L1 and from 1 to 2 at L2,
    with  scale (L2 - L1) = lambda  whatever the offset x0.  lambda is the output step divided by the sensitivity.
    Returns (scale, lambda) or None when the domain holds fewer than three cells."""
    lo, hi, sens = params["lower"], params["upper"], params["sensitivity"]
    if not (sens > 0 and hi > lo):
        return None
    value = lo + (hi - lo) / 2

    def f(L):
        return snap_out(params, value, 1, math.exp(-L))
    o0, o1 = f(0.25), f(1.25)
    if not o1 > o0:
        return None

    def boundary(La, Lb, oa):
        """smallest L (as |log u| of a double u) whose output differs from oa; f(La) == oa, f(Lb) != oa"""
        ua, ub = f2b(math.exp(-La)), f2b(math.exp(-Lb))        # ua > ub as doubles
        while ua - ub > 1:
            mid = (ua + ub) // 2
            if snap_out(params, value, 1, b2f(mid)) == oa:
                ua = mid
            else:
                ub = mid
        return -math.log(b2f(ub)), snap_out(params, value, 1, b2f(ub))
    L1, o1b = boundary(0.25, 1.25, o0)
    o3 = f(3.3)
    if not o3 > o1b:
        return None
    L2, o2 = boundary(L1 + 1e-9 if L1 + 1e-9 < 3.3 else L1, 3.3, o1b)
    lam_est = (o1b - o0) / sens
    if not (lam_est > 0 and math.isfinite(lam_est)):
        return None
    lam = 2.0 ** round(math.log2(lam_est))
    if abs(lam_est / lam - 1) > 1e-3 or abs((o2 - o1b) / (o1b - o0) - 1) > 1e-3 or not L2 > L1:
        return None
    return lam / (L2 - L1), lam


def sn_measure(pt):
    m = mk("Snapping", pt.params)
    pt.meas = {"eff": float(m.effective_epsilon()), "bound": float(m._bound)}
    if BACKEND[0] == "system" and FACTORY.get("Snapping") is None:
        try:
            r = measure_snapping_scale(pt.params)
        except (seams.ScriptExhausted, OverflowError, ValueError, ZeroDivisionError):
            r = None
        if r is not None:
            pt.meas["scale_used"], pt.meas["lambda"] = r


def sn_lines(pt):
    p = pt.params
    return [f"snap {B(ETA)} {B(p['epsilon'])} {B(p['sensitivity'])} {B(p['lower'])} {B(p['upper'])}"]


def sn_compare(ctx, pt, outs):
    v = ok_vals(outs[0])
    mb, me = b2f(int(v[0])), b2f(int(v[1]))
    ok = True
    if not close(mb, pt.meas["bound"], 1e-15, 0):
        ctx.disagree("calibration.Snapping.bound", pt.params, mb, pt.meas["bound"])
        ok = False
    if not close(me, pt.meas["eff"], 1e-13, 0):
        ctx.disagree("calibration.Snapping.effective-epsilon", pt.params, me, pt.meas["eff"])
        ok = False
    su = pt.meas.get("scale_used")
    if su is None:
        ctx.count("snapping_sampler_scale_unmeasurable")
    elif not close(1.0 / su, pt.meas["eff"], 1e-9, 0):
        ctx.disagree("calibration.Snapping.sampler-scale", pt.params, 1.0 / pt.meas["eff"], su,
                     note="the Laplace scale randomise uses (sensitivity-1 frame) is not 1 / effective_epsilon()")
        ok = False
    return ok


def sn_direct(ctx, pt, r, cases=None):
    """Mironov: snapping with internal epsilon e' on [-B, B] (sensitivity 1) is (e' (1 + 12 B eta) + 2 eta)-DP"""
    p = pt.params
    e_int = Fraction(pt.meas["eff"])
    if p["sensitivity"] == 0:
        return
    Bq = (Fraction(p["upper"]) - Fraction(p["lower"])) / 2 / Fraction(p["sensitivity"])
    eta = Fraction(ETA)
    achieved = e_int * (1 + 12 * Bq * eta) + 2 * eta
    allowed = Fraction(p["epsilon"]) * (1 + Fraction(1, 10 ** 9))
    ctx.count("divergences")
    if not (e_int > 0):
        report(ctx, pt, "C02:Snapping:non-positive-internal-epsilon", "internal epsilon", float(e_int), 0,
               "the internal epsilon must be positive")
    elif achieved > allowed:
        report(ctx, pt, "C02:Snapping:eff-eps", "eff-eps", float(achieved), float(allowed),
               {"internal_epsilon": pt.meas["eff"], "B": float(Bq)})
        return
    su = pt.meas.get("scale_used")
    if su is not None:
        # the internal epsilon the SAMPLER really uses: 1 / (Laplace scale in the sensitivity-1 frame, measured above)
        e_used = 1 / Fraction(su)
        ach = e_used * (1 + 12 * Bq * eta) + 2 * eta
        ctx.count("divergences")
        if ach > allowed * (1 + Fraction(1, 10 ** 9)):          # 1e-9: resolution of the break-point measurement
            report(ctx, pt, "C02:Snapping:sampler-scale", "eff-eps", float(ach), float(allowed),
                   {"scale_used_by_randomise": su, "lambda": pt.meas.get("lambda"), "internal_epsilon_used": float(e_used),
                    "effective_epsilon()": pt.meas["eff"], "B": float(Bq)})


MECHS = {
    # name: (gen, measure, lines, compare, direct, weight)
    "Laplace": (lap_family_gen("Laplace"), lap_measure, lap_lines, lap_compare, lap_direct, 10),
    "LaplaceTruncated": (lap_family_gen("LaplaceTruncated"), lap_measure, lap_lines, lap_compare, lap_direct, 8),
    "LaplaceFolded": (lap_family_gen("LaplaceFolded"), lap_measure, lap_lines, lap_compare, lap_direct, 8),
    "LaplaceBoundedDomain": (bd_gen, bd_measure, bd_lines, bd_compare, bd_direct, 14),
    "LaplaceBoundedNoise": (bn_gen, bn_measure, bn_lines, bn_compare, bn_direct, 10),
    "Uniform": (un_gen, un_measure, un_lines, un_compare, un_direct, 6),
    "Staircase": (st_gen, st_measure, st_lines, st_compare, st_direct, 8),
    "Gaussian": (ga_gen("Gaussian"), ga_measure, ga_lines, ga_compare, ga_direct, 8),
    "GaussianAnalytic": (ga_gen("GaussianAnalytic"), ga_measure, ga_lines, ga_compare, ga_direct, 12),
    "GaussianDiscrete": (dg_gen, dg_measure, dg_lines, dg_compare, dg_direct, 6),
    "Snapping": (sn_gen, sn_measure, sn_lines, sn_compare, sn_direct, 10),
}

FIXED = [
    ("Laplace", {"epsilon": 1.0, "delta": 0.0, "sensitivity": 1.0}),
    ("Laplace", {"epsilon": 1e-3, "delta": 0.999, "sensitivity": 1e6}),
    ("LaplaceTruncated", {"epsilon": 1.0, "delta": 0.5, "sensitivity": 1.0, "lower": 0.0, "upper": 1.0}),
    ("LaplaceFolded", {"epsilon": 0.5, "delta": 0.1, "sensitivity": 2.0, "lower": -1.0, "upper": 0.5}),
    ("LaplaceBoundedDomain", {"epsilon": 1.0, "delta": 0.0, "sensitivity": 1.0, "lower": 0.0, "upper": 10.0}),
    ("LaplaceBoundedDomain", {"epsilon": 1e-3, "delta": 0.0, "sensitivity": 1.0, "lower": 0.0, "upper": 10.0}),
    ("LaplaceBoundedDomain", {"epsilon": 1.0, "delta": 0.0, "sensitivity": 1.5, "lower": 0.0, "upper": 1.0}),
    ("LaplaceBoundedNoise", {"epsilon": 1.0, "delta": 0.1, "sensitivity": 1.0}),
    ("Uniform", {"delta": 0.5, "sensitivity": 1.0}),
    ("Staircase", {"epsilon": 1.0, "sensitivity": 1.0}),
    ("Staircase", {"epsilon": 50.0, "sensitivity": 1.0, "gamma": 0.5}),
    ("Gaussian", {"epsilon": 1.0, "delta": 1e-5, "sensitivity": 1.0}),
    ("GaussianAnalytic", {"epsilon": 1.0, "delta": 1e-5, "sensitivity": 1.0}),
    ("GaussianAnalytic", {"epsilon": 30.0, "delta": 1e-3, "sensitivity": 1.0}),
    ("GaussianAnalytic", {"epsilon": 50.0, "delta": 1e-12, "sensitivity": 1.0}),
    ("GaussianDiscrete", {"epsilon": 1.0, "delta": 1e-3, "sensitivity": 1}),
    ("GaussianDiscrete", {"epsilon": 50.0, "delta": 1e-12, "sensitivity": 1}),
    ("GaussianDiscrete", {"epsilon": 0.5, "delta": 1e-9, "sensitivity": 3}),
    ("Snapping", {"epsilon": 1.0, "sensitivity": 1.0, "lower": 0.0, "upper": 1000.0}),
    ("Snapping", {"epsilon": 1e-3, "sensitivity": 1e-6, "lower": 0.0, "upper": 1e6}),
    ("Snapping", {"epsilon": 1.0, "sensitivity": 0.1, "lower": 0.0, "upper": 10.0}),
    ("Snapping", {"epsilon": 1.0, "sensitivity": 10.0, "lower": 0.0, "upper": 1000.0}),
    ("Snapping", {"epsilon": 0.3, "sensitivity": 1e-3, "lower": -1.0, "upper": 1.0}),
    ("Snapping", {"epsilon": 5.0, "sensitivity": 1e3, "lower": 0.0, "upper": 1e5}),
    # sensitivity / epsilon tiny but non-zero: only sensitivity == 0 may be noise-free
    ("GaussianAnalytic", {"epsilon": 1.0, "delta": 1e-5, "sensitivity": 1e-9}),
    ("GaussianAnalytic", {"epsilon": 1e9, "delta": 1e-5, "sensitivity": 1.0}),
    ("Gaussian", {"epsilon": 1.0, "delta": 1e-5, "sensitivity": 1e-12}),
    ("Laplace", {"epsilon": 1e8, "delta": 0.0, "sensitivity": 1e-3}),
    ("GaussianDiscrete", {"epsilon": 1e7, "delta": 1e-5, "sensitivity": 1}),
]


# narrow-type quotients that round DOWN (less noise than the double-precision calibration of the same real parameters)
FIXED_TYPED = [
    ("LaplaceBoundedNoise", {"epsilon": 50.0, "delta": 1e-9, "sensitivity": 1.0}, {"sensitivity": "float32"}),
    ("LaplaceBoundedNoise", {"epsilon": 50.0, "delta": 1e-9, "sensitivity": 0.1}, {"sensitivity": "float16"}),
    ("LaplaceBoundedNoise", {"epsilon": 3.0, "delta": 1e-6, "sensitivity": 1.0}, {"sensitivity": "float32", "epsilon": "float32"}),
    ("Snapping", {"epsilon": 1.0, "sensitivity": 0.001, "lower": 0.0, "upper": 1e11}, {"sensitivity": "float32"}),
    ("Snapping", {"epsilon": 1.0, "sensitivity": 1.0, "lower": 0.0, "upper": 1e9}, {"lower": "float32", "upper": "float32"}),
    ("Gaussian", {"epsilon": 0.3, "delta": 1e-6, "sensitivity": 0.7}, {"sensitivity": "float32"}),
    ("GaussianAnalytic", {"epsilon": 7.0, "delta": 1e-6, "sensitivity": 0.7}, {"sensitivity": "float32", "epsilon": "float32"}),
    ("Laplace", {"epsilon": 0.3, "delta": 0.0, "sensitivity": 0.7}, {"sensitivity": "float32", "epsilon": "float16"}),
    ("Uniform", {"delta": 0.3, "sensitivity": 0.7}, {"sensitivity": "float32", "delta": "float32"}),
    ("Staircase", {"epsilon": 3.0, "sensitivity": 0.7, "gamma": 0.3}, {"sensitivity": "float32", "gamma": "float32"}),
    ("LaplaceTruncated", {"epsilon": 3.0, "delta": 0.0, "sensitivity": 0.7, "lower": 0.1, "upper": 0.9},
     {"lower": "float32", "upper": "float32", "sensitivity": "float32"}),
    ("LaplaceFolded", {"epsilon": 3.0, "delta": 0.0, "sensitivity": 0.7, "lower": 0.1, "upper": 0.9},
     {"lower": "float32", "upper": "float16"}),
    ("LaplaceBoundedDomain", {"epsilon": 3.0, "delta": 0.0, "sensitivity": 0.7, "lower": 0.1, "upper": 0.9},
     {"lower": "float32", "upper": "float32"}),
    ("LaplaceBoundedDomain", {"epsilon": 50.0, "delta": 0.0, "sensitivity": 0.3, "lower": 0.0, "upper": 0.1},
     {"lower": "float32", "upper": "float32", "sensitivity": "float32"}),
    ("GaussianDiscrete", {"epsilon": 1.0, "delta": 1e-3, "sensitivity": 2}, {"sensitivity": "int64", "epsilon": "float32"}),
]


def tiny_ratio(r, mech, p):
    """move a parameter point into the region sensitivity / epsilon in [1e-15, 1e-7] — tiny sensitivity with an ordinary
    epsilon, ordinary sensitivity with a huge epsilon (up to 1e9), or both — where only sensitivity == 0 (or epsilon == inf)
    may be noise-free: a `== 0` shortcut turned into a tolerance test releases the value unprotected there"""
    p = dict(p)
    ratio = r.loguniform(1e-15, 1e-7)
    mode = r.choice(["sens", "sens", "eps", "both"])
    if mech == "Gaussian":
        mode = "sens"
    if mech == "GaussianDiscrete":
        mode = "eps"
    if mech == "Uniform":
        p["sensitivity"] = p["delta"] * ratio
        return p
    if mode == "sens":
        p["sensitivity"] = p["epsilon"] * ratio
    elif mode == "eps":
        s = p["sensitivity"] if p["sensitivity"] > 0 else 1.0
        if mech == "GaussianDiscrete":
            s = int(r.choice([1, 1, 3]))
        eps = s / ratio
        if eps > 1e9:
            eps, s = 1e9, (1e9 * ratio if mech != "GaussianDiscrete" else s)
        p["epsilon"], p["sensitivity"] = eps, s
    else:
        p["epsilon"] = r.loguniform(50.0, 1e6)
        p["sensitivity"] = p["epsilon"] * ratio
    if "lower" in p:
        if mech == "LaplaceBoundedDomain":
            p["lower"], p["upper"] = g_domain(r, p["sensitivity"], min_width_over_sens=1.0)
        elif mech == "Snapping":
            p["lower"], p["upper"] = g_domain(r, p["sensitivity"], allow_inf=False)
        else:
            p["lower"], p["upper"] = g_domain(r, p["sensitivity"])
    return p


VALID = {
    # constraints a quantised parameter set must still satisfy (else that parameter stays a double)
    "Gaussian": lambda p: 0 < p["epsilon"] <= 1 and 0 < p["delta"] < 1,
    "GaussianAnalytic": lambda p: p["epsilon"] > 0 and 0 < p["delta"] < 1,
    "GaussianDiscrete": lambda p: p["epsilon"] > 0 and 0 < p["delta"] < 1,
    "LaplaceBoundedNoise": lambda p: p["epsilon"] > 0 and 0 < p["delta"] < 0.5,
    "Uniform": lambda p: 0 < p["delta"] <= 0.5,
    "Staircase": lambda p: p["epsilon"] > 0 and 0 <= p.get("gamma", 0.5) <= 1,
    "Snapping": lambda p: p["epsilon"] > 1e-6 and p["lower"] <= p["upper"],
}


def type_dimension(r, mech, p):
    """(params', types): the same mechanism with each parameter handed over in a randomly chosen numeric type — numpy
    float32 / float16 / float64, python int, numpy integer, python float.  The value is QUANTISED to that type first, so
    that `params'` (python floats) are exactly the real numbers the implementation receives and the model sees."""
    q = dict(p)
    types = {}
    for k in sorted(p):
        if k not in ("epsilon", "delta", "sensitivity", "lower", "upper", "gamma"):
            continue
        if mech == "GaussianDiscrete" and k == "sensitivity":
            tag = r.choice(["int", "int64", "int32"])
        else:
            tag = r.choice(["float32", "float32", "float16", "float64", "int", "int64", "float"])
        if tag == "float":
            continue
        v = quantise(p[k], tag)
        if v is None:
            continue
        trial = dict(q)
        trial[k] = int(v) if (mech == "GaussianDiscrete" and k == "sensitivity") else v
        ok = trial.get("lower", 0) <= trial.get("upper", 0) if "lower" in trial else True
        ok = ok and trial.get("epsilon", 1) + trial.get("delta", 0) > 0 and trial.get("delta", 0) < 1
        if ok and VALID.get(mech, lambda _: True)(trial):
            q = trial
            types[k] = tag
    return q, types


def gen_points(ctx, n):
    r = ctx.fork("points")
    names = list(MECHS)
    weights = [MECHS[k][5] for k in names]
    tot = sum(weights)
    pts = [Point(m, dict(p)) for m, p in FIXED]
    for m, p, t in FIXED_TYPED:
        q = {k: (quantise(v, t.get(k)) if isinstance(v, float) else v) for k, v in p.items()}
        pts.append(Point(m, q, dict(t)))
    n_dg_huge = 0
    for _ in range(n):
        x = r.u01() * tot
        for nm, w in zip(names, weights):
            x -= w
            if x < 0:
                break
        rr = r.fork(nm)
        if nm == "GaussianDiscrete":
            p = dg_gen(rr, 250.0 if ctx.tier == "quick" else 1500.0)
        else:
            p = MECHS[nm][0](rr)
        if rr.chance(0.12):
            if nm == "GaussianDiscrete":
                # an integer sensitivity >= 1 needs epsilon >= 1e7 to get there, where the constructor may not return
                # (guarded by a 3 s timeout): at most two such points per run
                n_dg_huge += 1
                if n_dg_huge > 2:
                    pts.append(Point(nm, p))
                    continue
            p = tiny_ratio(rr, nm, p)
        types = None
        if rr.chance(0.25):
            p, types = type_dimension(rr, nm, p)
        pts.append(Point(nm, p, types))
    return pts


def erf_correspondence(ctx):
    """the model's numerical erf against math.erf (the carrier operation the analytic Gaussian model relies on)"""
    r = ctx.fork("erf")
    xs = [0.0, 1.0, -1.0, 0.999999, 1.000001, 6.5, 6.6, -7.0, 30.0, 1e-300, 0.5]
    xs += [r.uniform(-7, 7) for _ in range(ctx.budget(400, 4000))]
    xs += [r.normal() for _ in range(ctx.budget(200, 2000))]
    outs = leanio.run_driver("Continuous", [f"erf {B(x)}" for x in xs])
    worst = 0.0
    for x, o in zip(xs, outs):
        v = b2f(int(ok_vals(o)[0]))
        e = abs(v - math.erf(x))
        worst = max(worst, e)
        if e > 2.3e-16:
            ctx.disagree("carrier.erf", x, v, math.erf(x))
    ctx.count("erf_points", len(xs))
    ctx.note(f"erf model vs math.erf: worst absolute difference {worst:.3g} over {len(xs)} points")
    ys = [0.0, 1.0, -1.0, 0.999999, 1.000001, 5.0, 26.0, 27.0, 28.0, -6.0, -7.0]
    ys += [r.uniform(-7, 27) for _ in range(ctx.budget(400, 4000))] + [r.normal() for _ in range(ctx.budget(200, 2000))]
    outs = leanio.run_driver("Continuous", [f"erfc {B(y)}" for y in ys])
    worst = 0.0
    for y, o in zip(ys, outs):
        v = b2f(int(ok_vals(o)[0]))
        t = math.erfc(y)
        e = abs(v - t) / t if t > 1e-300 else abs(v - t)
        worst = max(worst, e)
        if e > 1e-13:
            ctx.disagree("carrier.erfc", y, v, t)
    ctx.count("erfc_points", len(ys))
    ctx.note(f"erfc model vs math.erfc: worst relative difference {worst:.3g} over {len(ys)} points")


def typed_direct(ctx, pt, dseed):
    """direct check of a point whose parameters were handed over in narrow / integer types.  A violation is attributed:
    if it disappears once only `lower` / `upper` are given as doubles again, the cause is that the BOUNDS are kept (and
    computed with) in their narrow type — signature `C02:<Mech>:narrow-type-bounds`; otherwise `…:typed-parameters`."""
    from ..core import Ctx
    sc = Ctx(PROPERTY, ctx.tier, 0)
    MECHS[pt.mech][4](sc, pt, gen.SplitMix64(dseed))
    ctx.count("divergences", sc.counters.get("divergences", 0))
    if not sc.violations:
        return
    sig_override = None
    rest = {k: t for k, t in pt.types.items() if k not in ("lower", "upper")}
    if len(rest) < len(pt.types):
        pt2 = Point(pt.mech, pt.params, rest or None)
        try:
            with typed(pt2.types):
                MECHS[pt.mech][1](pt2)
            sc2 = Ctx(PROPERTY, ctx.tier, 0)
            MECHS[pt.mech][4](sc2, pt2, gen.SplitMix64(dseed))
            if not sc2.violations:
                sig_override = f"C02:{pt.mech}:narrow-type-bounds"
        except Exception:  # noqa
            pass
    for v in sc.violations[:2]:
        sig = sig_override or v["signature"]
        n = ctx.counters.get("sig:" + sig, 0)
        ctx.count("sig:" + sig)
        if n < 5:
            ctx.violation(sig, v["what"], v["data"])


def run_points(ctx, pts):
    r = ctx.fork("direct")
    # measure on the implementation
    good = []
    for pt in pts:
        try:
            with typed(pt.types):
                MECHS[pt.mech][1](pt)
        except seams.ScriptExhausted as e:
            ctx.disagree(f"calibration.{pt.mech}.measure", pt.params, "scripted randomness exhausted", str(e))
            continue
        except (ArithmeticError, ValueError, TypeError, RecursionError) as e:
            if pt.types:
                # e.g. a float16 bound makes `upper - lower` overflow in float16 and Snapping refuses "infinite" bounds:
                # a refusal releases nothing; counted, the narrow-type computation itself is reported where it calibrates
                ctx.count("typed_parameters_refused")
                ctx.note(f"typed {pt.mech} {pt.types} {pt.params}: {type(e).__name__}: {e}")
                continue
            # admissible parameters: the implementation must calibrate, not raise
            ctx.disagree(f"calibration.{pt.mech}.raises", pt.params, "a calibration", f"{type(e).__name__}: {e}")
            continue
        good.append(pt)
    # model on doubles
    lines, spans = [], []
    for pt in good:
        ls = MECHS[pt.mech][2](pt)
        spans.append((len(lines), len(ls)))
        lines += ls
    outs = leanio.run_driver("Continuous", lines) if lines else []
    for pt, (a, n) in zip(good, spans):
        if pt.types:
            # parameters handed over in a narrow / integer type: the model (double-precision calibration of the same real
            # numbers) is the REFERENCE, not a transcription of what the code does in that type; a difference is counted
            # and the direct check below decides whether the calibration in use is still on the private side
            from ..core import Ctx
            sc = Ctx(PROPERTY, ctx.tier, 0)
            try:
                okt = MECHS[pt.mech][3](sc, pt, outs[a:a + n])
            except (TypeError, ValueError, IndexError):
                okt = False
            if okt and not sc.disagreements:
                ctx.trace_ok()
            else:
                ctx.count("typed_calibration_differs_from_double")
                if sc.disagreements:
                    dd = sc.disagreements[0]
                    ctx.note(f"typed {pt.mech} {pt.types}: {dd['unit']} double-precision {dd['model']!r}, in use {dd['impl']!r}")
            continue
        try:
            ok = MECHS[pt.mech][3](ctx, pt, outs[a:a + n])
        except (TypeError, ValueError, IndexError) as e:
            ctx.disagree(f"calibration.{pt.mech}", pt.params, outs[a:a + n], f"unparseable model output: {e}")
            ok = False
        if ok:
            ctx.trace_ok()
    # direct property check
    for i, pt in enumerate(good):
        sens = pt.params.get("sensitivity", 0)
        ctx.case(pt.key() if sens else None)
        if pt.types:
            typed_direct(ctx, pt, r.fork(i).next())
            continue
        MECHS[pt.mech][4](ctx, pt, r.fork(i))
    # the same calibration must be in force on the numpy back-end (int seed / RandomState: the other branch of randomise)
    for i, pt in enumerate(good):
        if pt.mech not in NUMPY_BACKEND_MECHS or i % 2:
            continue
        pt2 = Point(pt.mech, pt.params, pt.types)
        pt2.note = {"backend": "numpy"}
        try:
            with backend("numpy"), typed(pt.types):
                MECHS[pt.mech][1](pt2)
        except seams.ScriptExhausted:
            ctx.count("numpy_backend_unmeasurable")
            continue
        except (ArithmeticError, ValueError, TypeError, AttributeError, RecursionError) as e:
            ctx.disagree(f"calibration.{pt.mech}.numpy-backend-raises", pt.params, "a calibration", f"{type(e).__name__}: {e}")
            continue
        same, key = same_meas(pt.meas, pt2.meas)
        ctx.case(None)
        if same:
            ctx.count("numpy_backend_same")
            ctx.trace_ok()
            continue
        ctx.disagree(f"calibration.{pt.mech}.numpy-backend", pt.params, {key: pt.meas.get(key)}, {key: pt2.meas.get(key)},
                     note="the noise randomise adds depends on the type of random_state")
        MECHS[pt.mech][4](ctx, pt2, r.fork(("np", i)))
    for pt in good[:40:7]:
        ctx.sample({"mechanism": pt.mech, "params": pt.params, "measured_on_implementation": pt.meas})



# =========================================================================================== live-object sequences

def warm_script(seed):
    r = gen.SplitMix64(seed)
    return {"u": [r.u01() for _ in range(3000)], "bits": [r.next() for _ in range(300)],
            "n": [r.normal() for _ in range(20)], "g": [r.randint(1, 4) for _ in range(20)]}


def harder(r, mech, p):
    """an assignment of new valid parameters that demands MORE noise (smaller epsilon / delta, larger sensitivity, wider
    domain): a calibration kept from before the assignment is then too weak for the new parameters"""
    opts = []
    if p.get("epsilon", 0) > 2e-3:
        opts.append("epsilon")
    if "sensitivity" in p and p["sensitivity"] < 1e5:
        opts.append("sensitivity")
    if p.get("delta", 0) > 1e-9:
        opts.append("delta")
    if mech in ("LaplaceBoundedDomain", "Snapping") and math.isfinite(p["upper"] - p["lower"]):
        opts.append("upper")
    if not opts:
        return {}
    picks = {r.choice(opts)}
    if r.chance(0.3):
        picks.add(r.choice(opts))
    a = {}
    for k in sorted(picks):
        if k == "epsilon":
            a[k] = max(1e-3, p[k] / r.choice([2.0, 4.0, 10.0]))
        elif k == "sensitivity":
            if mech == "GaussianDiscrete":
                a[k] = int(p[k] * r.choice([2, 3])) if p[k] else 1
            else:
                a[k] = p[k] * r.choice([2.0, 5.0, 10.0]) if p[k] else 1.0
        elif k == "delta":
            a[k] = p[k] / r.choice([2.0, 10.0, 100.0])
        elif k == "upper":
            a[k] = p[k] + (p["upper"] - p["lower"]) * r.choice([1.0, 9.0]) + (1.0 if p["upper"] == p["lower"] else 0.0)
    return a


def live_sequence(mech, p1, assigned, warm_seed, ops):
    """construct(p1) -> warm-up calls `ops` -> assign -> the Live object (ready to be measured) and a log of what ran"""
    live = Live(mech, p1, warm_script(warm_seed))
    ran = []
    for op in ops:
        try:
            if op == "randomise":
                quiet(live.obj.randomise, 0)
            else:
                f = getattr(live.obj, op)
                quiet(f) if op == "effective_epsilon" else quiet(f, 0)
            ran.append(op)
        except Exception as e:  # noqa  (NotImplementedError, an exhausted warm-up script …: the call was made)
            ran.append(f"{op}!{type(e).__name__}")
    for k, v in assigned.items():
        setattr(live.obj, k, v)
    return live, ran


def same_meas(a, b):
    for k in set(a) & set(b):
        x, y = a[k], b[k]
        if k in ("prec", "draws") or not isinstance(x, (int, float)) or isinstance(x, bool) or not isinstance(y, (int, float)):
            continue
        tol = max(1e-9, 4 * (a.get("prec", 0.0) or 0.0), 4 * (b.get("prec", 0.0) or 0.0))
        if not (close(x, y, tol, 1e-300) or (x != x and y != y)):
            return False, k
    return True, None


def live_case(ctx, mech, p1, assigned, warm_seed, ops, dseed):
    """measure the calibration a LIVE object uses after an attribute assignment; it must be the calibration of a fresh
    object built with the new parameters.  If it is not, the property's own inequality (direct check) decides."""
    from ..core import Ctx
    p2 = dict(p1)
    p2.update(assigned)
    live, ran = live_sequence(mech, p1, assigned, warm_seed, ops)
    pt_live = Point(mech, p2)
    pt_live.note = {"live": {"constructed_with": p1, "warm_up": ran, "assigned": assigned, "warm_seed": warm_seed,
                             "ops": ops, "dseed": dseed}}
    with live.installed():
        MECHS[mech][1](pt_live)
    pt_fresh = Point(mech, p2)
    MECHS[mech][1](pt_fresh)
    same, key = same_meas(pt_live.meas, pt_fresh.meas)
    if same:
        return "same"
    ctx.count("live_calibration_differs_from_fresh")
    scratch = Ctx(PROPERTY, ctx.tier, 0)
    MECHS[mech][4](scratch, pt_fresh, gen.SplitMix64(dseed))
    if scratch.violations:
        return "fresh-fails"            # reported by the ordinary points under its own signature
    before = ctx.counters.get("violations_raw", 0)
    MECHS[mech][4](ctx, pt_live, gen.SplitMix64(dseed))
    if ctx.counters.get("violations_raw", 0) > before or ctx.counters.get(f"sig:C02:{mech}:stale-calibration", 0):
        return "stale-violates"
    ctx.count("live_stale_but_private")
    ctx.note(f"live {mech}: after assigning {assigned} the object keeps {key}={pt_live.meas.get(key)!r} "
             f"(fresh: {pt_fresh.meas.get(key)!r}); the old calibration still satisfies the inequality")
    return "stale-private"


def run_live(ctx):
    r = ctx.fork("live")
    names = list(MECHS)
    n = ctx.budget(160, 3000)
    for i in range(n):
        mech = names[i % len(names)]
        rr = r.fork(i)
        p1 = dg_gen(rr, 60.0) if mech == "GaussianDiscrete" else MECHS[mech][0](rr)
        if mech == "Staircase":
            p1.setdefault("gamma", rr.u01())
        assigned = harder(rr, mech, p1)
        if not assigned:
            continue
        if mech == "GaussianDiscrete":
            q = dict(p1)
            q.update(assigned)
            if (q["sensitivity"] or 1) * math.sqrt(2 * math.log(1.25 / min(q["delta"], 0.9))) / q["epsilon"] > 250:
                continue
        ops = ["randomise"] + [o for o in ("effective_epsilon", "variance", "bias") if rr.chance(0.4)]
        if rr.chance(0.3):
            ops = ops[1:] + ops[:1]
        try:
            res = live_case(ctx, mech, p1, assigned, rr.next(), ops, rr.next())
        except seams.ScriptExhausted:
            ctx.count("live_unmeasurable")
            continue
        except (ArithmeticError, ValueError, TypeError, RecursionError) as e:
            ctx.disagree(f"live.{mech}.raises", {"constructed_with": p1, "assigned": assigned}, "a calibration",
                         f"{type(e).__name__}: {e}")
            continue
        ctx.case(("live", mech, i) if res != "same" else None)
        ctx.count("live_" + res)
        if res == "same":
            ctx.trace_ok()


def _honour_scale(ctx):
    """VERIF_SCALE=<n> multiplies every case budget by n (the escalated failing-input search runs at 10): lets the
    10x regime be exercised on demand, e.g. `VERIF_SCALE=10 ./check C02`"""
    import os
    v = os.environ.get("VERIF_SCALE")
    if v:
        try:
            ctx.scale = max(ctx.scale, int(v))
        except ValueError:
            pass


def check(ctx):
    _honour_scale(ctx)
    erf_correspondence(ctx)
    pts = gen_points(ctx, ctx.budget(700, 16000))
    # hints from a previous correspondence failure: re-run those parameter points first (failing-input search)
    for h in getattr(ctx, "hints", []) or []:
        u = h.get("unit", "")
        if u.startswith("calibration.") and isinstance(h.get("input"), dict):
            mech = u.split(".")[1]
            p = h["input"].get("params", h["input"])
            if mech in MECHS and isinstance(p, dict):
                from ..core import unjson_float
                pts.insert(0, Point(mech, {k: unjson_float(v) for k, v in p.items()}))
    run_points(ctx, pts)
    run_live(ctx)


def replay(ctx, data):
    from ..core import unjson_float as u
    dd = data["data"]
    params = {k: u(v) for k, v in dd["params"].items()}
    if dd["mech"] == "GaussianDiscrete":
        params["sensitivity"] = int(params["sensitivity"])
    case = dd.get("case")
    if isinstance(case, dict) and "live" in case:
        lv = case["live"]
        p1 = {k: u(v) for k, v in lv["constructed_with"].items()}
        asg = {k: u(v) for k, v in lv["assigned"].items()}
        if dd["mech"] == "GaussianDiscrete":
            p1["sensitivity"] = int(p1["sensitivity"])
            if "sensitivity" in asg:
                asg["sensitivity"] = int(asg["sensitivity"])
        before = ctx.counters.get("violations_raw", 0)
        live_case(ctx, dd["mech"], p1, asg, int(lv["warm_seed"]), list(lv["ops"]), int(lv["dseed"]))
        return ctx.counters.get("violations_raw", 0) > before
    pt = Point(dd["mech"], params)
    if isinstance(case, dict) and "types" in case:
        pt.types = dict(case["types"])
        case = case.get("case")
    if isinstance(case, dict) and case.get("backend") == "numpy":
        pt.note = {"backend": "numpy"}
        with backend("numpy"), typed(pt.types):
            MECHS[pt.mech][1](pt)
        case = case.get("case")
    else:
        with typed(pt.types):
            MECHS[pt.mech][1](pt)
    cases = None
    if isinstance(case, dict) and "t" in case:
        cases = [(D(case.get("x", "0")), D(case["t"]))]
    before = len(ctx.violations)
    MECHS[pt.mech][4](ctx, pt, ctx.fork("replay"), cases)
    return len(ctx.violations) > before


def _witness_midpoint(ctx):
    pt = Point("GaussianDiscrete", {"epsilon": 50.0, "delta": 1e-12, "sensitivity": 1})
    dg_measure(pt)
    H = cl.discrete_gaussian_hockey_stick(1, d(pt.meas["sigma"]), D(50))
    bad = H > D("1e-12") * (1 + REL_DELTA) + ABS_DELTA
    return bad, (f"GaussianDiscrete(epsilon=50, delta=1e-12, sensitivity=1) calibrates sigma={pt.meas['sigma']!r} (bracket "
                 f"midpoint at rtol 1e-6): H_e^50(M(0)||M(1)) = {fmt(H)} > delta")


def _witness_erf(ctx):
    p = {"epsilon": 34.94561054503816, "delta": 0.3637228042222831, "sensitivity": 0.5630391708285637}
    pt = Point("GaussianAnalytic", p)
    ga_measure(pt)
    H = cl.gaussian_hockey_stick(d(p["sensitivity"]), d(pt.meas["sigma"]), d(p["epsilon"]))
    bad = H > d(p["delta"]) * (1 + REL_DELTA) + ABS_DELTA
    return bad, (f"GaussianAnalytic({p}) calibrates sigma={pt.meas['sigma']!r}: H_e^eps(M(0)||M(sens)) = {fmt(H)} > delta "
                 f"(1 + erf(-x) cancels inside phi and is multiplied by e^eps)")


WITNESSES = {"C02:GaussianDiscrete:midpoint-nonprivate": _witness_midpoint,
             "C02:GaussianAnalytic:erf-cancellation": _witness_erf}


# live-object witnesses: construct -> randomise -> assign a smaller epsilon -> the old calibration is still used
_STALE = {
    "LaplaceBoundedNoise": {"epsilon": 1.0, "delta": 0.1, "sensitivity": 1.0},
    "LaplaceBoundedDomain": {"epsilon": 1.0, "delta": 0.0, "sensitivity": 1.0, "lower": 0.0, "upper": 10.0},
    "Gaussian": {"epsilon": 1.0, "delta": 1e-3, "sensitivity": 1.0},
    "GaussianAnalytic": {"epsilon": 1.0, "delta": 1e-3, "sensitivity": 1.0},
    "GaussianDiscrete": {"epsilon": 1.0, "delta": 1e-3, "sensitivity": 1},
    # not failing on HEAD (regression witnesses: these recompute their calibration on every call)
    "Laplace": {"epsilon": 1.0, "delta": 0.0, "sensitivity": 1.0},
    "LaplaceTruncated": {"epsilon": 1.0, "delta": 0.0, "sensitivity": 1.0, "lower": 0.0, "upper": 1.0},
    "LaplaceFolded": {"epsilon": 1.0, "delta": 0.0, "sensitivity": 1.0, "lower": 0.0, "upper": 1.0},
    "Uniform": {"delta": 0.25, "sensitivity": 1.0},
    "Staircase": {"epsilon": 1.0, "sensitivity": 1.0, "gamma": 0.5},
    # keeps `_bound` from construction: widening the domain afterwards leaves the internal epsilon too large for the new B
    "Snapping": {"epsilon": 1.0, "sensitivity": 1.0, "lower": -1e6, "upper": 1e6},
}
_STALE_ASSIGN = {"Uniform": {"delta": 0.025}, "Snapping": {"upper": 1.9e7}}


def _witness_stale(mech):
    def w(ctx):
        from ..core import Ctx
        c = Ctx(PROPERTY, "quick", 0)
        p1 = dict(_STALE[mech])
        asg = dict(_STALE_ASSIGN.get(mech, {"epsilon": 0.1}))
        res = live_case(c, mech, p1, asg, 12345, ["randomise"], 67890)
        hits = [v for v in c.violations if v["signature"] == f"C02:{mech}:stale-calibration"]
        return bool(hits), (hits[0]["what"][:600] if hits else f"{mech}: live calibration after assignment = fresh ({res})")
    return w


WITNESSES.update({f"C02:{m}:stale-calibration": _witness_stale(m) for m in _STALE})


def generate(ctx):
    """translator tie: the closed-form calibrations are re-read from /repo's AST on every run, translated to Lean terms
    over ℝ and proved equal to the model's (harness/anchors.py)"""
    from .. import anchors
    from ..shim import REPO
    r = anchors.build(REPO, "C02", ["DPL.Model.Calibration"], [s for s in anchors.c02_specs() if not s.get("disabled")],
                      opens="DPL.Cont")
    ctx.count("formula_anchors", r["obligations"])
    if r["errors"]:
        r["unavailable"] = r["errors"]      # anchors that could not be located / translated (not failed obligations)
    return r





def _witness_narrow_bounds(mech, params, types):
    def w(ctx):
        from ..core import Ctx
        q = {k: (quantise(v, types.get(k)) if isinstance(v, float) else v) for k, v in params.items()}
        pt = Point(mech, q, dict(types))
        with typed(pt.types):
            MECHS[mech][1](pt)
        c = Ctx(PROPERTY, "quick", 0)
        typed_direct(c, pt, 4242)
        hits = [v for v in c.violations if v["signature"] == f"C02:{mech}:narrow-type-bounds"]
        return bool(hits), (hits[0]["what"][:600] if hits else f"{mech} with bounds as {types}: calibration on the private side")
    return w


WITNESSES["C02:LaplaceBoundedDomain:narrow-type-bounds"] = _witness_narrow_bounds(
    "LaplaceBoundedDomain", {"epsilon": 3.0, "delta": 0.0, "sensitivity": 0.7, "lower": 0.1, "upper": 0.9},
    {"lower": "float32", "upper": "float32"})
WITNESSES["C02:Snapping:narrow-type-bounds"] = _witness_narrow_bounds(
    "Snapping", {"epsilon": 0.014293634332716465, "sensitivity": 1.4112046253789146e-10, "lower": 0.0, "upper": 504431.0},
    {"lower": "float32", "upper": "float32"})
