"""C17 — objective perturbation for logistic regression is calibrated as Chaudhuri–Monteleoni–Sarwate prove
(DESIGN.md §6 C17).

Observation points (public seams only): interposition on `Vector.randomise` (constructor arguments that reached the
mechanism, the function it was given, the noisy function it returned; the mechanism's rng is replaced by a scripted
one so that the noise vector is a known function of scripted normals and unit gammas), and a wrapper around
`scipy.optimize.fmin_l_bfgs_b` (what reaches the optimiser: objective, X, target, sample weights, l2_reg_strength).

(K) the arguments, the (epsilon', Delta, scale) actually used, the noise vector, the perturbation and its gradient at
    probe points, and a clipped row are compared with the Lean model (`DPL/Model/LogReg.lean`, driver `Samplers`).
(S) directly on the implementation, with reference formulas that do not involve the model: per-problem epsilon,
    row norms at the optimiser, data sensitivity, the CMS accounting identity
    eps' + 2 log(1 + (1/4) s / (n (Lambda + Delta))) = eps/k with Lambda = the optimiser's l2_reg_strength,
    the branch rule, Lambda = alpha/n, the shape of the perturbation; and statistically the law of b.
"""
import math
import warnings

from ..shim import dp, np
from .. import gen, leanio, seams
from ..gen import f2b, b2f
from . import c03

PROPERTY = "C17"
LEAN_MODULE = "DPL.Properties.C17"
M = dp.mechanisms
EPS = 2.220446049250313e-16

TRUSTED = [
    "cited, not re-proved: Chaudhuri–Monteleoni–Sarwate (JMLR 2011) Theorem 9 — objective perturbation with the "
    "parameters of their Algorithm 2 is eps-DP; proved here: the code's parameters are Algorithm 2's and satisfy its "
    "accounting identity",
    "modelled, not verified: sklearn's LinearModelLoss(HalfBinomialLoss).loss_gradient is the clean objective "
    "(mean log-loss + l2_reg_strength/2 |w|^2, intercept unpenalised) with curvature bound 1/4 per unit row norm; "
    "scipy's L-BFGS-B only evaluates the objective it is handed; joblib runs the one-vs-rest problems with the "
    "arguments of the generator expression",
    "the noise vector is observed by replacing the mechanism's rng (in-process wrapping of Vector.randomise) — the "
    "provenance of the real rng is C14's subject",
]
UNPROVED = [
    "that the Python rng's gammavariate(d/4, scale) and normalvariate(0, 1) have the Gamma(d/4, scale) / N(0,1) laws and "
    "are independent from call to call, and that floating-point evaluation does not distort them: validated only "
    "statistically (KS distance of the real Vector sampler's |b|/scale against Gamma(d,1), of each coordinate of "
    "b/|b| against its Beta marginal; DKW threshold, false-alarm < 1e-14 per test; also end-to-end through "
    "LogisticRegression.fit). GIVEN ideal draws (Mathlib's gammaMeasure / gaussianReal product measures) the law of the "
    "noise vector is now proved: noise_norm_law / fit_noise_norm_law / noise_vector_norm_law (|b| ~ Gamma(shape d, rate "
    "eps'/(2 s)) = scale 2 s/eps', both branches, also at the fit's call site), direction_coordinates_iid, "
    "direction_rotation_invariant, direction_on_sphere, sphere_invariant_measure_unique, direction_uniform (b/|b| is "
    "the normalised surface measure of the unit sphere), noise_vector_law / fit_noise_vector_law (b ~ r u, u uniform on "
    "the sphere, r ~ Gamma(d, rate eps'/(2 s)) independent — by construction: separate draws)",
    "the vector law is stated in EuclideanSpace R^d and tied to the model's List-valued vecNoise pointwise "
    "(direction_model_bridge, noise_vector_model_bridge); no measure is constructed on lists",
]
RULE = ("[a quarter of the configurations sit within 1e-12 .. 1e-6 or 0..64 ulp of the branch point eps' = 0 of the rule; data "
        "is passed as float64 / float32 / int / bool arrays, Fortran order or list of lists] configurations (epsilon in [1e-2,20], C in [1e-2,1e2], data_norm, d in 1..6, n in 10..200, 2..4 classes, both "
        "intercept settings spelled as bool and as numpy.bool_, Gaussian rows scaled so that a fraction exceeds data_norm or "
        "rows with every coordinate inside data_norm but norm above it) from the seed; each is fitted once "
        "with scripted noise; non-trivial when at least one row was clipped; distinct by the configuration tuple; the "
        "fallback branch (eps' <= 0) is forced in a third of the cases by choosing C large")


# ------------------------------------------------------------------------------------------------ observation

class Observed:
    pass


def observe_fit(cfg, X, y, script_seed, fast_rng=None, est=None):
    """one real fit with the two seams in place.  Returns the Vector calls and the optimiser calls."""
    import scipy.optimize as so
    rec = []
    prev = so.fmin_l_bfgs_b

    def wrap(func, x0, *a, **k):
        args = k.get("args", a[1] if len(a) > 1 else ())
        rec.append({"func": func, "x0": np.array(x0, dtype=float), "args": args})
        return prev(func, x0, *a, **k)

    scripts = []

    def force(c, i):
        if c.cls == "Vector":
            if fast_rng is not None:
                c.obj._rng = fast_rng
                scripts.append(None)
            else:
                r = gen.SplitMix64(script_seed + 7919 * i)
                dim = int(c.obj.dimension)
                normals = [r.normal() for _ in range(4 * dim + 8)]
                a = max(dim, 1) / 4.0
                gammas = [max(1e-300, -math.log(1 - r.u01()) * a * r.uniform(0.3, 2.0)) for _ in range(6)]
                if cfg.get("rs"):     # the seeded (`except AttributeError`: RandomState) branch of Vector.randomise
                    c.obj._rng = c03.ScriptedRS2(normals=normals, gammas=gammas)
                else:
                    c.obj._rng = seams.ScriptedSystemRandom(normals=normals, gammas=gammas)
                # keep the generator of THIS call (a mechanism object may serve several calls)
                scripts.append({"normals": normals, "gammas": gammas, "rng": c.obj._rng})
        return seams.interpose.REAL

    so.fmin_l_bfgs_b = wrap
    clf = None
    try:
        with warnings.catch_warnings():
            warnings.simplefilter("ignore")
            with seams.fresh_default_accountant():
                with seams.interpose(force=force) as calls:
                    ic = np.bool_(cfg["intercept"]) if cfg.get("ic_kind") == "np.bool_" else bool(cfg["intercept"])
                    tp = cfg.get("types", {})
                    eps_a, norm_a = typed(cfg["eps"], tp.get("eps")), typed(cfg["norm"], tp.get("norm"))
                    tol_a, mi_a = typed(1e-4, tp.get("tol")), typed(cfg.get("max_iter", 3), tp.get("max_iter"))
                    if cfg.get("entry") == "path":
                        # the path entry point of the anchored module: several C per call, no clipping of its own
                        from diffprivlib.models.logistic_regression import _logistic_regression_path as path
                        Cs = cfg["Cs"]
                        if isinstance(Cs, list):
                            Cs = [typed(v, tp.get("C")) for v in Cs]
                            if cfg.get("Cs_kind") == "array":
                                Cs = np.array(Cs)
                            elif cfg.get("Cs_kind") == "tuple":
                                Cs = tuple(Cs)
                        else:
                            Cs = typed(Cs, cfg.get("Cs_kind", "int"))
                        path(clip_ref(X, cfg["norm"]), y, epsilon=eps_a, data_norm=norm_a, Cs=Cs, fit_intercept=ic,
                             max_iter=mi_a, tol=tol_a, check_input=bool(cfg.get("check_input", False)))
                    else:
                        if est is not None:        # a refit of an existing estimator (life-cycle sequences)
                            clf = est
                        else:
                            clf = dp.models.LogisticRegression(epsilon=eps_a, data_norm=norm_a, C=typed(cfg["C"], tp.get("C")),
                                                               fit_intercept=ic, max_iter=mi_a, tol=tol_a,
                                                               warm_start=bool(cfg.get("warm_start", False)))
                        clf.fit(as_passed(cfg, X), y)
    finally:
        so.fmin_l_bfgs_b = prev
    return [c for c in calls if c.cls == "Vector"], rec, scripts, clf


def typed(v, kind):
    """the same number as python float / python int / numpy integer / numpy float32 / numpy float64"""
    if kind in (None, "float"):
        return float(v) if not isinstance(v, int) else v
    if kind == "int":
        return int(v)
    if kind == "np.int64":
        return np.int64(v)
    if kind == "np.int32":
        return np.int32(v)
    if kind == "np.float32":
        return np.float32(v)
    if kind == "np.float64":
        return np.float64(v)
    raise KeyError(kind)


def clip_ref(X, norm):
    """rows scaled into the ball of radius `norm` (the path function expects clipped data)"""
    nr = np.linalg.norm(X, axis=1)
    f = np.maximum(nr / norm, 1.0) * (1 + 4 * EPS)
    return X / f[:, None]


def path_Cs(cfg):
    Cs = cfg["Cs"]
    return [float(v) for v in (np.logspace(-4, 4, int(Cs)) if not isinstance(Cs, list) else Cs)]


def problems(cfg):
    """(nominal per-problem epsilon, nominal C) of every solve, in call order"""
    if cfg.get("entry") == "path":
        return [(float(cfg["eps"]), C) for C in path_Cs(cfg)]
    k = 1 if cfg["classes"] == 2 else cfg["classes"]
    return [(cfg["eps"] / k, float(cfg["C"]))] * k


def ptol(cfg):
    """a parameter given in single precision is specified to single precision only"""
    return 4e-7 if "np.float32" in cfg.get("types", {}).values() else 1e-12


def make_data(cfg, dseed):
    r = gen.SplitMix64(dseed)
    n, d, k = cfg["n"], cfg["d"], cfg["classes"]
    X = np.array([[r.normal() for _ in range(d)] for _ in range(n)])
    norms = np.linalg.norm(X, axis=1)
    norms[norms == 0] = 1.0
    # rows from well inside to well above the declared norm
    target = np.array([cfg["norm"] * r.choice([r.uniform(0.05, 0.99), r.uniform(0.05, 0.99), 1.0, r.uniform(1.0, 5.0)])
                       for _ in range(n)])
    X = X / norms[:, None] * target[:, None]
    if cfg.get("data") == "coords-inside":
        X = np.array([[cfg["norm"] * r.uniform(-0.9, 0.9) for _ in range(d)] for _ in range(n)])
    xk = cfg.get("xkind", "f64")
    if xk == "f32":
        X = X.astype(np.float32).astype(np.float64)
    elif xk == "int":
        X = np.rint(X * 2)
    elif xk == "bool":
        X = (X > 0).astype(np.float64)
    y = np.array([i % k for i in range(n)])
    perm = list(range(n))
    r.shuffle(perm)
    y = y[perm]
    return X, y


def as_passed(cfg, X):
    """the container / dtype / memory order in which the caller hands the (same) numbers to fit"""
    xk = cfg.get("xkind", "f64")
    if xk == "f32":
        return X.astype(np.float32)
    if xk == "int":
        return X.astype(np.int64)
    if xk == "bool":
        return X.astype(bool)
    if xk == "fortran":
        return np.asfortranarray(X)
    if xk == "list":
        return X.tolist()
    return X


OFFSETS = [1e-12, 1e-10, 5e-9, 1e-8, 1e-7, 1e-6]
ULPS = [0, 1, 2, 8, 64]


def branch_point(C, norm, intercept):
    """per-problem epsilon at which eps' = eps - 2 log(1 + c s/alpha) changes sign (c = 1/4, alpha = 1/C)"""
    s = np.sqrt(norm ** 2 + 1) if intercept else norm
    return float(2 * np.log(1 + 0.25 * s / (1.0 / C)))


def near_branch(r, star):
    if r.chance(0.7):
        return star + r.choice([-1, 1]) * r.choice(OFFSETS)
    return gen.offset_ulps(star, r.choice([-1, 1]) * r.choice(ULPS))


def gen_cfg(r):
    cfg = gen_cfg0(r)
    if r.chance(0.25):
        # boundary stratum: the per-problem epsilon lands just above / just below / at the branch point of the rule
        k = 1 if cfg["classes"] == 2 else cfg["classes"]
        for _ in range(20):
            C = r.choice([4.0, 2.0, r.loguniform(0.05, 50.0)])
            star = branch_point(C, cfg["norm"], cfg["intercept"])
            if 1e-2 <= k * star <= 20.0:
                cfg["C"] = C
                cfg["eps"] = k * near_branch(r, star)
                cfg["stratum"] = "branch-point"
                break
    m = r.u01()
    if m < 0.15 and "stratum" not in cfg:
        # the path entry point with several C (list / tuple / array, or an integer grid size = logspace(-4, 4, Cs))
        cfg["entry"] = "path"
        cfg["classes"] = 2
        if r.chance(0.3):
            cfg["Cs"] = r.randint(2, 4)
            cfg["Cs_kind"] = r.choice(["int", "np.int64"])
        else:
            cfg["Cs"] = [r.choice([0.1, 100.0, 1.0, r.loguniform(1e-2, 1e2)]) for _ in range(r.randint(2, 4))]
            cfg["Cs_kind"] = r.choice(["list", "tuple", "array"])
        cfg["check_input"] = r.chance(0.5)
        cfg["max_iter"] = r.choice([1, 3])
    if r.chance(0.4):
        # parameter TYPES as well as values: python int / numpy integer where the value is integral, numpy float32 / float64
        if "stratum" not in cfg and cfg.get("entry") != "path" and r.chance(0.6):
            cfg["C"] = float(r.choice([1, 1, 2, 3, 10]))
        if "stratum" not in cfg and r.chance(0.4):
            cfg["eps"] = float(r.choice([1, 2, 5]))
        if "stratum" not in cfg and r.chance(0.4):
            cfg["norm"] = float(r.choice([1, 2, 3]))
        tp = {}
        for name in ("C", "eps", "norm"):
            if name == "C" and cfg.get("entry") == "path":
                vals = cfg["Cs"] if isinstance(cfg["Cs"], list) else []
            else:
                vals = [cfg[name]]
            kinds = ["float", "np.float64"]
            if vals and all(float(v).is_integer() for v in vals):
                kinds += ["int", "int", "np.int64", "np.int32"]
            if vals and "stratum" not in cfg and all(float(np.float32(v)) == v for v in vals):
                kinds += ["np.float32"]
            elif vals and "stratum" not in cfg and r.chance(0.3):
                # make the value representable in single precision, then hand it over as numpy.float32
                if name == "C" and cfg.get("entry") == "path":
                    cfg["Cs"] = [float(np.float32(v)) for v in vals]
                else:
                    cfg[name] = float(np.float32(cfg[name]))
                kinds = ["np.float32"]
            tp[name] = r.choice(kinds)
        tp["tol"] = r.choice(["float", "np.float32", "np.float64"])
        tp["max_iter"] = r.choice(["int", "np.int64", "np.int32"])
        cfg["types"] = tp
    return cfg


def gen_cfg0(r):
    eps = r.choice([1.0, r.loguniform(1e-2, 20.0), r.loguniform(1e-2, 20.0)])
    m = r.u01()
    if m < 0.35:
        C = r.loguniform(1.0, 1e2)          # small alpha = 1/C: the fallback branch is likely
    else:
        C = r.choice([1.0, r.loguniform(1e-2, 1e2)])
    return {"eps": eps, "C": C, "norm": r.choice([1.0, r.loguniform(0.1, 10.0)]), "d": r.randint(1, 6),
            "n": r.randint(10, 200), "classes": r.randint(2, 4), "intercept": r.chance(0.5), "max_iter": r.choice([1, 3, 10]),
            "rs": r.chance(0.4),
            # every spelling of the flag sklearn's parameter validation accepts (it refuses the ints 0/1)
            "ic_kind": r.choice(["bool", "np.bool_"]),
            # "coords-inside": every coordinate within data_norm, yet many rows above it (d >= 2)
            "data": r.choice(["scaled", "scaled", "coords-inside"]),
            # the same numbers as float64 / float32 / integer / boolean arrays, Fortran order, list of lists
            "xkind": r.choice(["f64", "f64", "f32", "f32", "int", "bool", "fortran", "list"])}


def close(a, b, rel, abs_=0.0):
    a, b = float(a), float(b)
    if a == b:
        return True
    if not (math.isfinite(a) and math.isfinite(b)):
        return False
    return abs(a - b) <= abs_ + rel * max(abs(a), abs(b))


def extract(call, opt, dim, n):
    """(b, Delta) of the noisy objective from gradient differences, and two probe evaluations for the shape check"""
    out, clean, args = call.result, call.value, opt["args"]
    z = np.zeros(dim)

    def diff(w):
        fn, gn = out(w.copy(), *args)
        fc, gc = clean(w.copy(), *args)
        return float(fn) - float(fc), np.asarray(gn, dtype=float) - np.asarray(gc, dtype=float), float(np.max(np.abs(gc))) + abs(float(fc))
    v0, g0, m0 = diff(z)
    b = g0 * n
    w1 = np.array([((-1) ** j) * (0.5 + 0.25 * j) for j in range(dim)])
    v1, g1, m1 = diff(w1)
    delta = float(np.dot(g1 - g0, w1) / np.dot(w1, w1))
    w2 = np.array([0.3 - 0.7 * ((j * 5) % 3) for j in range(dim)])
    v2, g2, m2 = diff(w2)
    mag = max(m0, m1, m2, 1.0) + float(np.max(np.abs(g0))) + abs(delta) * float(np.max(np.abs(w1)))
    # the perturbation is fixed at release: every probe point once more, in another order, must give the same result
    repeat = None
    for w, (v_, g_) in ((w2, (v2, g2)), (z, (v0, g0)), (w1, (v1, g1)), (w2, (v2, g2))):
        vv, gg, _ = diff(w)
        if not (vv == v_ and np.array_equal(gg, g_)):
            repeat = (f"noisy − clean at w={w.tolist()} was ({v_!r}, {g_.tolist()}) on the first evaluation and ({vv!r}, {gg.tolist()}) "
                      f"on a later one")
            break
    return {"b": b, "delta": delta, "v0": v0, "w1": w1, "w2": w2, "v2": v2, "g2": g2, "mag": mag, "repeat": repeat}


# ------------------------------------------------------------------------------------------------ direct checks (S)

def direct(ctx, cfg, dseed, X, y, calls, opts, scripts):
    """the property's equalities evaluated on the implementation, with reference formulas only"""
    def viol(sig, what):
        ctx.violation("C17:" + sig, f"{what}; configuration {cfg}, data seed {dseed}", {"cfg": cfg, "dseed": dseed, "check": sig})
        return False
    probs = problems(cfg)
    k = len(probs)
    n, d = cfg["n"], cfg["d"]
    pt = ptol(cfg)
    dim = d + (1 if cfg["intercept"] else 0)
    if len(calls) != k or len(opts) != k:
        return viol("problem-count", f"{len(calls)} Vector calls / {len(opts)} optimiser calls for {k} solve(s)")
    s_ref = math.sqrt(cfg["norm"] ** 2 + 1) if cfg["intercept"] else cfg["norm"]
    obs = []
    for i, (c, o, sc) in enumerate(zip(calls, opts, scripts)):
        p = c.params
        eps_nom, C_nom = probs[i]
        Xo, tgt, sw, l2 = o["args"]
        if o["func"] is not c.result:
            return viol("objective-identity", "the objective handed to the optimiser is not the noisy function returned by Vector.randomise")
        # per-problem epsilon
        if not close(p["epsilon"], eps_nom, pt):
            return viol("eps-split", f"problem {i}: Vector received epsilon={p['epsilon']!r}, expected {eps_nom!r} (eps / number of "
                                     f"one-vs-rest problems)")
        # rows the optimiser sees
        mx = float(np.linalg.norm(np.asarray(Xo, dtype=np.float64), axis=1).max())     # measured in double precision
        if not mx <= cfg["norm"] * (1 + 1e-12):
            return viol("row-norm", f"problem {i}: max row norm at the optimiser {mx!r} > data_norm {cfg['norm']!r}·(1+1e-12)")
        if Xo.shape != (n, d) or not np.all(sw == 1.0):
            return viol("optimiser-args", f"problem {i}: optimiser got X of shape {Xo.shape}, weights not all 1")
        # data sensitivity (enlarged for the intercept), curvature bound, dimension, n
        if not close(p["data_sensitivity"], s_ref, pt):
            return viol("data-sensitivity", f"problem {i}: data_sensitivity={float(p['data_sensitivity'])!r}, expected {s_ref!r}")
        if not float(p["function_sensitivity"]) == 0.25:
            return viol("function-sensitivity", f"problem {i}: function_sensitivity={p['function_sensitivity']!r}, expected 0.25")
        if int(p["dimension"]) != dim or int(c.obj.n) != n:
            return viol("dimension-n", f"problem {i}: dimension={p['dimension']}, n={c.obj.n}; expected {dim}, {n}")
        # same regularisation strength in the mechanism (alpha/n) and in the objective (l2_reg_strength), = 1/(C n) for the
        # C that was GIVEN (whatever its numeric type), and alpha = 1/C
        if not (close(float(p["alpha"]) / n, l2, pt) and close(l2, 1.0 / (C_nom * n), pt) and close(float(p["alpha"]), 1.0 / C_nom, pt)):
            return viol("reg-strength", f"problem {i}: C = {C_nom!r} was given: mechanism alpha = {float(p['alpha'])!r} (1/C = {1.0 / C_nom!r}), "
                                        f"alpha/n = {float(p['alpha']) / n!r}, objective l2_reg_strength = {float(l2)!r}, 1/(C n) = "
                                        f"{1.0 / (C_nom * n)!r}")
        ex = extract(c, o, dim, n)
        obs.append((ex, o))
        if ex["repeat"]:
            return viol("perturbation-not-fixed", f"problem {i}: {ex['repeat']}")
        if sc is None:
            continue
        # scale actually used = |b| / sum of the unit gammas
        gsum = sum(sc["gammas"][:4])
        scale_impl = float(np.linalg.norm(ex["b"])) / gsum
        ds_obs, al_obs = float(p["data_sensitivity"]), float(p["alpha"])
        epsp_impl = 2 * ds_obs / scale_impl
        eps_k = float(p["epsilon"])
        lam = float(l2)
        s_use = ds_obs
        # the branch quantity of the rule, eps - 2 log(1 + c s/alpha), evaluated on the arguments that reached the mechanism
        # (each already checked above) with the operations the rule names — decisive down to rounding of eps itself
        e0 = float(p["epsilon"] - 2 * np.log(1 + 0.25 * p["data_sensitivity"] / p["alpha"]))
        band = 4 * EPS * eps_k
        dtol = 1e-11 * ex["mag"] + 1e-9 * abs(ex["delta"])
        rt, at_e = 1e-9, 0.0
        if pt > 1e-12:
            # a parameter arrived as numpy.float32: numpy then evaluates the calibration in single precision
            e0 = eps_k - 2 * math.log(1 + 0.25 * ds_obs / al_obs)
            band = pt * (1 + eps_k)
            rt, at_e = pt, pt * (1 + eps_k)
            dtol += pt * (abs(ex["delta"]) + al_obs / n + 0.25 * ds_obs / math.expm1(eps_k / 4) / n)
        if not (epsp_impl > 0 and ex["delta"] >= -dtol):
            return viol("cms-sign", f"problem {i}: eps'={epsp_impl!r}, Delta={ex['delta']!r} (need eps' > 0, Delta >= 0)")
        total = epsp_impl + 2 * math.log(1 + 0.25 * s_use / (n * (lam + max(ex["delta"], 0.0))))
        # error budget: Delta enters through cs/(n(Lambda+Delta)); its extraction error dtol is propagated
        slack = (4 * pt if pt > 1e-12 else 0.0) + 1e-9 * eps_k + 4 * dtol * 0.25 * s_use / (n * (lam + max(ex["delta"], 0.0)) ** 2) / (1 + 0.25 * s_use / (n * (lam + max(ex["delta"], 0.0))))
        if not abs(total - eps_k) <= slack:
            return viol("cms-identity", f"problem {i}: eps' + 2 log(1 + s/4/(n(Lambda+Delta))) = {total!r} but eps/k = {eps_k!r} "
                                        f"(eps'={epsp_impl!r} from |b|/sum(gammas), Delta={ex['delta']!r}, Lambda={lam!r}, s={s_use!r})")
        if abs(e0) < band:
            ctx.boundary_skipped += 1          # eps' within 4 ulp of eps of the branch point: either branch is rounding
            ex["boundary"] = True
        elif e0 > 0:
            if not (abs(ex["delta"]) <= dtol and close(epsp_impl, e0, rt, at_e)):
                return viol("cms-rule", f"problem {i}: eps - 2 log(1+cs/alpha) = {e0!r} > 0, so the rule gives Delta = 0 and eps' = {e0!r}; "
                                        f"the implementation used Delta={ex['delta']!r}, eps'={epsp_impl!r}")
        else:
            d_ref = (0.25 * s_use / math.expm1(eps_k / 4) - al_obs) / n
            if not (close(epsp_impl, eps_k / 2, rt, at_e) and close(ex["delta"], d_ref, 1e-8, dtol)):
                return viol("cms-rule", f"problem {i}: eps - 2 log(1+cs/alpha) = {e0!r} <= 0, so the rule gives eps' = eps/2 = {eps_k / 2!r}, "
                                        f"Delta = {d_ref!r}; the implementation used eps'={epsp_impl!r}, Delta={ex['delta']!r}")
        if abs(e0) < 1e-5:
            ctx.count("branch_point_cases")
        # shape of the perturbation at an independent probe point
        w2 = ex["w2"]
        want_v = float(np.dot(ex["b"], w2)) / n + 0.5 * ex["delta"] * float(np.dot(w2, w2))
        want_g = ex["b"] / n + ex["delta"] * w2
        tol = 1e-10 * (ex["mag"] + abs(want_v) + float(np.max(np.abs(want_g))))
        if not (abs(ex["v2"] - want_v) <= tol and np.all(np.abs(ex["g2"] - want_g) <= tol) and abs(ex["v0"]) <= tol):
            return viol("perturbation-shape", f"problem {i}: noisy − clean at w={w2.tolist()} is {ex['v2']!r} (gradient {ex['g2'].tolist()}), "
                                              f"expected b·w/n + Delta|w|²/2 = {want_v!r} (gradient {want_g.tolist()})")
    return obs


# ------------------------------------------------------------------------------------------------ K: Lean model

def F(x):
    return str(f2b(x))


def model_lines(cfg, X, calls, opts, scripts, obs):
    n, d = cfg["n"], cfg["d"]
    dim = d + (1 if cfg["intercept"] else 0)
    L = []
    for (ex, o), c, sc, (eps_nom, C_nom) in zip(obs, calls, scripts, problems(cfg)):
        if cfg.get("entry") == "path":      # the path function is handed the per-problem epsilon itself
            L.append(f"fit {F(cfg['eps'])} {F(C_nom)} {F(cfg['norm'])} 2 {d} {n} {1 if cfg['intercept'] else 0}")
        else:
            L.append(f"fit {F(cfg['eps'])} {F(cfg['C'])} {F(cfg['norm'])} {cfg['classes']} {d} {n} {1 if cfg['intercept'] else 0}")
        glog = [e for e in sc["rng"].log if e[0] == "gammavariate"]
        scale = float(glog[0][2]) if glog else float("nan")
        L.append(f"vec {F(scale)} {dim} " + " ".join(F(v) for v in sc["normals"][:4 * dim] + sc["gammas"][:4]))
        L.append(f"pert {n} {F(ex['delta'])} {dim} " + " ".join(F(v) for v in list(ex["b"]) + list(ex["w2"])))
    # a clipped row
    norms = np.linalg.norm(X, axis=1)
    j = int(np.argmax(norms))
    L.append("clip " + F(cfg["norm"]) + " " + " ".join(F(v) for v in X[j]))
    j2 = int(np.argmin(norms))
    L.append("clip " + F(cfg["norm"]) + " " + " ".join(F(v) for v in X[j2]))
    return L, (j, j2)


def compare(ctx, cfg, dseed, X, calls, opts, scripts, obs, outs, rows):
    n, d = cfg["n"], cfg["d"]
    dim = d + (1 if cfg["intercept"] else 0)

    def dis(what, model, impl):
        ctx.disagree("logreg.callsite", {"cfg": cfg, "dseed": dseed}, model, impl, what)
        return False
    pos = 0
    f32 = ptol(cfg) > 1e-12
    for i, ((ex, o), c, sc) in enumerate(zip(obs, calls, scripts)):
        w = outs[pos].split()
        if w[0] != "ok":
            return dis("fit line", outs[pos], None)
        m_epsk, m_dim, m_alpha, m_c, m_s, m_n, m_l2 = b2f(int(w[1])), int(w[2]), b2f(int(w[3])), b2f(int(w[4])), b2f(int(w[5])), int(w[6]), b2f(int(w[7]))
        m_epsp, m_delta, m_scale = b2f(int(w[8])), b2f(int(w[9])), b2f(int(w[10]))
        pos += 1
        p = c.params
        impl_args = [float(p["epsilon"]), int(p["dimension"]), float(p["alpha"]), float(p["function_sensitivity"]),
                     float(p["data_sensitivity"]), int(c.obj.n), float(o["args"][3])]
        model_args = [m_epsk, m_dim, m_alpha, m_c, m_s, m_n, m_l2]
        for a, b_ in zip(model_args, impl_args):
            if not close(a, b_, ptol(cfg) if f32 else 1e-13):
                return dis(f"arguments reaching Vector / the optimiser (problem {i}): eps, dim, alpha, c, s, n, l2", model_args, impl_args)
        glog = [e for e in sc["rng"].log if e[0] == "gammavariate"]
        if len(glog) != 4 or sc["rng"].n_normal != 4 * dim:
            return dis("random draws consumed by Vector.randomise", {"normals": 4 * dim, "gammas": 4},
                       {"normals": sc["rng"].n_normal, "gammas": len(glog)})
        if ex.get("boundary") or f32:
            # model (Lean log) and code (numpy log) may take different branches at the branch point; with a parameter in
            # single precision the code's alpha / s carry single-precision rounding the double-precision model has not
            # (the direct checks above use the arguments as they arrived)
            if f32:
                ctx.count("k_calibration_skipped_float32")
            else:
                ctx.boundary_skipped += 1
            pos += 2
            continue
        rel_s = 1e-9 + 16 * EPS * abs(m_epsk) / max(abs(m_epsp), 1e-300)     # eps' is a difference: cancellation near 0
        for e in glog:
            if not (e[1] == dim / 4 and close(e[2], m_scale, rel_s)):
                return dis("gammavariate(shape, scale) arguments", [dim / 4, m_scale], list(e[1:]))
        dtol = 1e-11 * ex["mag"]
        if not close(m_delta, ex["delta"], 1e-8, dtol):
            return dis("quadratic coefficient Delta", m_delta, ex["delta"])
        mb = np.array([b2f(int(t)) for t in outs[pos].split()[1:]])
        mag = float(np.max(np.abs(mb))) + 1e-300
        if mb.shape != ex["b"].shape or not np.all(np.abs(mb - ex["b"]) <= 1e-10 * mag + 1e-11 * ex["mag"] * n):
            return dis("noise vector b", mb, ex["b"])
        pw = outs[pos + 1].split()
        pv = b2f(int(pw[1]))
        pg = np.array([b2f(int(t)) for t in pw[2:]])
        tol = 1e-10 * (ex["mag"] + abs(pv) + float(np.max(np.abs(pg))))
        if not (abs(pv - ex["v2"]) <= tol and np.all(np.abs(pg - ex["g2"]) <= tol)):
            return dis("perturbation / gradient at the probe point", [pv, pg], [ex["v2"], ex["g2"]])
        pos += 2
    Xo = opts[0]["args"][0]
    for line, j in zip(outs[pos:pos + 2], rows):
        mr = np.array([b2f(int(t)) for t in line.split()[1:]])
        xo = np.asarray(Xo[j], dtype=np.float64)
        if mr.shape != xo.shape or not np.all(np.abs(mr - xo) <= 1e-14 * (float(np.max(np.abs(X[j]))) + 1e-300)):
            return dis(f"clipped row {j}", mr, xo)
    return True


# ------------------------------------------------------------------------------------------------ statistics

def ref_calib(eps, c, s, alpha, n):
    """CMS Algorithm 2 as printed (Lambda = alpha/n), independent of the model and of the implementation"""
    lam = alpha / n
    e0 = eps - math.log(1 + 2 * c * s / (n * lam) + (c * s) ** 2 / (n * lam) ** 2)
    if e0 > 0:
        return e0, 0.0
    return eps / 2, c * s / (n * math.expm1(eps / 4)) - lam


def stat_vector(ctx, r, n_draws):
    from scipy.special import gammainc, betainc
    thr = c03.dkw_threshold(n_draws)
    for tag in ("plain", "fallback", "seeded"):
        d = r.randint(1, 6)
        s = r.loguniform(0.5, 3.0)
        n = r.randint(10, 200)
        if tag in ("plain", "seeded"):
            eps, alpha = r.loguniform(1.0, 10.0), r.loguniform(1.0, 10.0)
        else:
            eps, alpha = r.loguniform(0.05, 0.5), r.loguniform(0.01, 0.2)
        epsp, _ = ref_calib(eps, 0.25, s, alpha, n)
        seed = r.next()
        rng = np.random.RandomState(seed % (2 ** 32)) if tag == "seeded" else c03.FastRandom(seed)
        m = M.Vector(epsilon=eps, function_sensitivity=0.25, data_sensitivity=s, dimension=d, alpha=alpha, n=n, random_state=rng)
        fn = c03.zero_fn(d)
        z = np.zeros(d)
        B = np.empty((n_draws, d))
        for i in range(n_draws):
            B[i] = m.randomise(fn)(z)[1]
        B *= n
        norms = np.linalg.norm(B, axis=1)
        scale = 2 * s / epsp
        tests = [(f"|b|/(2s/eps')~Gamma({d},1) [{tag}]", c03.sup_distance(norms / scale, lambda t: gammainc(d, np.maximum(t, 0))))]
        U = B / norms[:, None]
        if d == 1:
            tests.append((f"direction fair sign [{tag}]", abs(float(np.mean(U[:, 0] > 0)) - 0.5)))
        else:
            a = (d - 1) / 2.0
            for j in range(d):
                tests.append((f"direction coord {j}~Beta [{tag}]", c03.sup_distance((U[:, j] + 1) / 2, lambda t: betainc(a, a, np.clip(t, 0, 1)))))
        for label, stat in tests:
            ctx.case(("stat", label))
            ctx.count("stat_tests")
            ctx.note(f"stat Vector {label}: n={n_draws} sup-distance={stat:.5f} threshold={thr:.5f}")
            if not stat <= thr:
                ctx.violation("C17:noise-law", f"Vector(eps={eps}, c=0.25, s={s}, d={d}, alpha={alpha}, n={n}): {label}: sup-distance "
                                               f"{stat:.5f} > DKW threshold {thr:.5f} at n={n_draws} (false-alarm <= {c03.ALPHA:g})",
                              {"check": "stat-vector", "tier": ctx.tier, "tag": tag, "n_draws": n_draws, "statistic": stat, "threshold": thr,
                               "label": label})
            else:
                ctx.trace_ok()


def stat_fit(ctx, r, n_fits):
    """end to end: the b that LogisticRegression.fit adds to the objective"""
    from scipy.special import gammainc, betainc
    cfg = {"eps": r.loguniform(0.5, 5.0), "C": r.loguniform(0.3, 3.0), "norm": r.loguniform(0.5, 2.0), "d": r.randint(1, 3),
           "n": 12, "classes": 2, "intercept": r.chance(0.5), "max_iter": 1}
    dseed = r.next()
    X, y = make_data(cfg, dseed)
    seed = r.next()
    rng = c03.FastRandom(seed)
    dim = cfg["d"] + (1 if cfg["intercept"] else 0)
    s_ref = math.sqrt(cfg["norm"] ** 2 + 1) if cfg["intercept"] else cfg["norm"]
    epsp, _ = ref_calib(cfg["eps"], 0.25, s_ref, 1.0 / cfg["C"], cfg["n"])
    B = np.empty((n_fits, dim))
    for i in range(n_fits):
        calls, opts, _, _ = observe_fit(cfg, X, y, 0, fast_rng=rng)
        c, o = calls[0], opts[0]
        z = np.zeros(dim)
        B[i] = (np.asarray(c.result(z.copy(), *o["args"])[1]) - np.asarray(c.value(z.copy(), *o["args"])[1])) * cfg["n"]
    thr = c03.dkw_threshold(n_fits)
    norms = np.linalg.norm(B, axis=1)
    tests = [(f"fit: |b|/(2s/eps')~Gamma({dim},1)", c03.sup_distance(norms / (2 * s_ref / epsp), lambda t: gammainc(dim, np.maximum(t, 0))))]
    U = B / norms[:, None]
    if dim >= 2:
        a = (dim - 1) / 2.0
        tests.append(("fit: direction coord 0~Beta", c03.sup_distance((U[:, 0] + 1) / 2, lambda t: betainc(a, a, np.clip(t, 0, 1)))))
    else:
        tests.append(("fit: direction fair sign", abs(float(np.mean(U[:, 0] > 0)) - 0.5)))
    for label, stat in tests:
        ctx.case(("stat", label))
        ctx.count("stat_tests")
        ctx.note(f"stat {label}: n={n_fits} sup-distance={stat:.5f} threshold={thr:.5f}")
        if not stat <= thr:
            ctx.violation("C17:noise-law", f"LogisticRegression.fit {cfg}: {label}: sup-distance {stat:.5f} > DKW threshold "
                                           f"{thr:.5f} at n={n_fits} (false-alarm <= {c03.ALPHA:g})",
                          {"check": "stat-fit", "tier": ctx.tier, "cfg": cfg, "dseed": dseed, "seed": seed, "n_fits": n_fits,
                           "statistic": stat, "threshold": thr})
        else:
            ctx.trace_ok()


# ------------------------------------------------------------------------------------------------ entry points

FIXED = [
    {"eps": 1.0, "C": 1.0, "norm": 1.0, "d": 3, "n": 50, "classes": 2, "intercept": True, "max_iter": 3},
    {"eps": 0.1, "C": 100.0, "norm": 2.0, "d": 2, "n": 20, "classes": 3, "intercept": False, "max_iter": 3},
    {"eps": 0.05, "C": 50.0, "norm": 1.0, "d": 6, "n": 200, "classes": 4, "intercept": True, "max_iter": 1},
    {"eps": 2.0, "C": 0.5, "norm": 1.5, "d": 4, "n": 60, "classes": 3, "intercept": True, "max_iter": 3, "rs": True},
    {"eps": 0.1, "C": 100.0, "norm": 2.0, "d": 2, "n": 20, "classes": 2, "intercept": False, "max_iter": 3, "rs": True},
    {"eps": 1.0, "C": 1.0, "norm": 1.0, "d": 4, "n": 40, "classes": 2, "intercept": True, "max_iter": 3, "ic_kind": "np.bool_",
     "data": "coords-inside"},
    {"eps": 0.5, "C": 3.0, "norm": 0.7, "d": 3, "n": 30, "classes": 3, "intercept": False, "max_iter": 3, "ic_kind": "np.bool_",
     "data": "coords-inside"},
    # just above the branch point: eps' = 5e-9 > 0, so Delta = 0 and |b| ~ Gamma(d, 2 s / 5e-9)
    {"eps": 2 * math.log(2.0) + 5e-9, "C": 4.0, "norm": 1.0, "d": 3, "n": 40, "classes": 2, "intercept": False, "max_iter": 2},
    {"eps": branch_point(2.0, 1.0, True) + 5e-9, "C": 2.0, "norm": 1.0, "d": 2, "n": 30, "classes": 2, "intercept": True, "max_iter": 2},
    {"eps": 3 * (branch_point(4.0, 1.0, False) - 1e-8), "C": 4.0, "norm": 1.0, "d": 2, "n": 30, "classes": 3, "intercept": False,
     "max_iter": 2},
    # parameter types: an integer-typed C is still C
    {"eps": 1.0, "C": 1.0, "norm": 1.0, "d": 3, "n": 40, "classes": 2, "intercept": True, "max_iter": 3,
     "types": {"C": "int", "eps": "int", "norm": "int", "tol": "float", "max_iter": "int"}},
    {"eps": 2.0, "C": 2.0, "norm": 1.0, "d": 2, "n": 30, "classes": 3, "intercept": False, "max_iter": 3,
     "types": {"C": "np.int64", "eps": "np.float64", "norm": "np.float32", "tol": "np.float32", "max_iter": "np.int64"}},
    # the path entry point with several C
    {"entry": "path", "Cs": [0.1, 100.0], "Cs_kind": "list", "C": 0.1, "eps": 1.0, "norm": 1.0, "d": 3, "n": 40, "classes": 2,
     "intercept": True, "max_iter": 2},
    {"entry": "path", "Cs": 3, "Cs_kind": "int", "C": 1.0, "eps": 0.5, "norm": 2.0, "d": 2, "n": 30, "classes": 2,
     "intercept": False, "max_iter": 2, "check_input": True},
    # single-precision / integer / list input with rows above the norm
    {"eps": 1.0, "C": 1.0, "norm": 1.0, "d": 5, "n": 60, "classes": 2, "intercept": True, "max_iter": 3, "xkind": "f32"},
    {"eps": 1.0, "C": 1.0, "norm": 1.5, "d": 3, "n": 40, "classes": 3, "intercept": False, "max_iter": 3, "xkind": "int"},
    {"eps": 1.0, "C": 1.0, "norm": 0.8, "d": 4, "n": 40, "classes": 2, "intercept": False, "max_iter": 3, "xkind": "list",
     "data": "coords-inside"},
]


def run_cfg(ctx, cfg, dseed):
    X, y = make_data(cfg, dseed)
    calls, opts, scripts, clf = observe_fit(cfg, X, y, dseed)
    obs = direct(ctx, cfg, dseed, X, y, calls, opts, scripts)
    return X, y, calls, opts, scripts, obs


def check(ctx):
    r = ctx.fork("cfgs")
    n_cfg = ctx.budget(250, 5000)
    cfgs = [(c, 1000 + i) for i, c in enumerate(FIXED)] + [(gen_cfg(r), r.next() % (1 << 40)) for _ in range(n_cfg)]
    all_lines, pend = [], []
    for cfg, dseed in cfgs:
        X, y, calls, opts, scripts, obs = run_cfg(ctx, cfg, dseed)
        clipped = bool(np.any(np.linalg.norm(X, axis=1) > cfg["norm"]))
        key = (round(math.log(cfg["eps"]), 3), round(math.log(cfg["C"]), 3), cfg["d"], cfg["n"], cfg["classes"], cfg["intercept"])
        ctx.case(key if clipped else None)
        if obs is False or not obs:
            continue
        lines, rows = model_lines(cfg, X, calls, opts, scripts, obs)
        pend.append((cfg, dseed, X, calls, opts, scripts, obs, len(all_lines), len(lines), rows))
        all_lines += lines
    if cfgs:
        cfg, dseed = cfgs[7] if len(cfgs) > 7 else cfgs[0]
        ctx.sample({"configuration": cfg, "data_seed": dseed})
    outs = leanio.run_driver("Samplers", all_lines) if all_lines else []
    for cfg, dseed, X, calls, opts, scripts, obs, a, ln, rows in pend:
        o = outs[a:a + ln]
        if any(x.startswith("bad-op") for x in o):
            raise leanio.LeanError("driver rejected a C17 line")
        if compare(ctx, cfg, dseed, X, calls, opts, scripts, obs, o, rows):
            ctx.trace_ok()
    ctx.count("driver_lines", len(all_lines))
    # calibration alone over the whole parameter box (model vs reference rule vs implementation's gammavariate scale)
    calib_sweep(ctx)
    vector_live(ctx)
    lifecycle(ctx)
    # cross-instance state (class-level memos, module caches): Vector among other Vectors vs Vector alone
    c03.run_cross_instance(ctx, kinds=["vec"], prop="C17")
    rs = ctx.fork("stats")
    stat_vector(ctx, rs, min(1000000, ctx.budget(20000, 1000000)))
    stat_fit(ctx, rs, min(40000, ctx.budget(1500, 20000)))


def calib_case(eps, C, s, n, d):
    """one Vector.randomise on a scripted stream with unit gammas 1: the (eps', Delta) it used vs the rule.
    Returns (failure description or None, observed (eps', Delta, scale), e0, dtol)."""
    alpha = 1.0 / C
    rng = seams.ScriptedSystemRandom(normals=[0.5 + 0.1 * j for j in range(4 * d)], gammas=[1.0, 1.0, 1.0, 1.0])
    m = M.Vector(epsilon=eps, function_sensitivity=0.25, data_sensitivity=s, dimension=d, alpha=alpha, n=n, random_state=rng)
    fn = c03.zero_fn(d)
    b, delta, _ = c03.vec_extract(m.randomise(fn), d, n, fn)
    scale_impl = float(np.linalg.norm(b)) / 4.0
    epsp_impl = 2 * s / scale_impl
    dtol = 1e-12 * (1 + float(np.max(np.abs(b))) / n)
    # branch quantity of the rule with the operations it names; decisive down to 4 ulp of eps
    e0 = float(eps - 2 * np.log(1 + 0.25 * s / alpha))
    obs = (epsp_impl, delta, scale_impl)
    if abs(e0) < 4 * EPS * eps:
        return None, obs, e0, dtol
    if e0 > 0:
        want = (e0, 0.0)
    else:
        want = (eps / 2, (0.25 * s / math.expm1(eps / 4) - alpha) / n)
    total = epsp_impl + 2 * math.log(1 + 0.25 * s / (alpha + n * max(delta, 0.0)))
    ok = (epsp_impl > 0 and delta >= -dtol and close(total, eps, 1e-9, 1e-9 * n * dtol) and
          close(epsp_impl, want[0], 1e-9) and close(delta, want[1], 1e-8, dtol))
    if ok and abs(e0) >= 64 * EPS * eps:
        # the rule exactly as printed in the paper (another algebraic form), away from rounding of the branch point
        epsp_ref, delta_ref = ref_calib(eps, 0.25, s, alpha, n)
        ok = close(epsp_impl, epsp_ref, 1e-9, 64 * EPS * eps) and close(delta, delta_ref, 1e-8, dtol)
        want = (epsp_ref, delta_ref)
    if ok:
        return None, obs, e0, dtol
    return (f"Vector(epsilon={eps!r}, function_sensitivity=0.25, data_sensitivity={s!r}, alpha={alpha!r}, n={n}, dimension={d}): "
            f"eps - 2 log(1 + cs/alpha) = {e0!r}, so the rule gives eps'={want[0]!r}, Delta={want[1]!r}; the implementation used "
            f"eps'={epsp_impl!r}, Delta={delta!r}; eps' + 2 log(1 + cs/(alpha + n Delta)) = {total!r} vs eps = {eps!r}"), obs, e0, dtol


def calib_sweep(ctx):
    """Vector.randomise's (eps', Delta, scale) over eps in [1e-2,20], alpha = 1/C, s, n — a third of the cases within
    1e-12..1e-6 (or 0..64 ulp) of the branch point — implementation (read off a scripted run) vs the CMS rule vs the model"""
    r = ctx.fork("calib")
    N = ctx.budget(400, 8000)
    cases, lines = [], []
    for _ in range(N):
        eps = r.loguniform(1e-2, 20.0)
        C = r.loguniform(1e-2, 1e2)
        s = r.choice([1.0, math.sqrt(2.0), r.loguniform(0.1, 10.0)])
        if r.chance(0.33):
            C = r.choice([4.0, 2.0, r.loguniform(0.05, 50.0)])
            star = float(2 * np.log(1 + 0.25 * s / (1.0 / C)))
            if 1e-2 <= star <= 20.0:
                eps = near_branch(r, star)
        n = r.randint(10, 200)
        d = r.randint(1, 6)
        cases.append((eps, C, s, n, d))
        lines.append(f"calib {F(eps)} {F(0.25)} {F(s)} {F(1.0 / C)} {n}")
    outs = leanio.run_driver("Samplers", lines) if lines else []
    for (eps, C, s, n, d), line in zip(cases, outs):
        bad, (epsp_impl, delta, scale_impl), e0, dtol = calib_case(eps, C, s, n, d)
        ctx.case(("calib", e0 > 0, round(math.log(eps), 2), round(math.log(C), 2), e0 if abs(e0) < 1e-5 else 0))
        if abs(e0) < 1e-5:
            ctx.count("branch_point_cases")
        if bad:
            ctx.violation("C17:cms-calibration", bad, {"check": "calib", "eps": eps, "C": C, "s": s, "n": n, "d": d})
            continue
        if abs(e0) < 4 * EPS * eps:
            ctx.boundary_skipped += 1
            continue
        w = line.split()
        me, md, ms = b2f(int(w[1])), b2f(int(w[2])), b2f(int(w[3]))
        rel = 1e-9 + 16 * EPS * eps / max(abs(me), 1e-300)
        if not (close(me, epsp_impl, rel) and close(md, delta, 1e-8, dtol) and close(ms, scale_impl, rel)):
            ctx.disagree("vector.calib", {"eps": eps, "c": 0.25, "s": s, "alpha": 1.0 / C, "n": n}, [me, md, ms], [epsp_impl, delta, scale_impl])
        else:
            ctx.trace_ok()


VEC_ATTR = {"eps": "epsilon", "fs": "function_sensitivity", "ds": "data_sensitivity", "alpha": "alpha", "d": "dimension", "n": "n"}


def vector_live_case(lc):
    """Vector(p1) → randomise → assign public attributes (on the object or a .copy()) → randomise on the same stream:
    the release must be the one of a fresh Vector built with the current parameters (or the call must raise)."""
    p1, p2, attrs = lc["p1"], lc["p2"], lc["attrs"]
    script = {"normals": lc["normals"], "gammas": lc["gammas"], "rs": lc.get("rs")}
    rng = c03.make_rng("vec", script)
    m = c03.mk_mech("vec", p1, rng)
    first = c03.released("vec", m, 0, p1)
    tgt = m.copy() if lc["copy"] else m
    for a in attrs:
        setattr(tgt, VEC_ATTR[a], p2[a])
    cur = dict(p1)
    cur.update({a: p2[a] for a in attrs})
    c03.rewind(rng)
    try:
        second = c03.released("vec", tgt, 0, cur)
    except (ValueError, TypeError):
        return None                      # refusing the re-parameterised object is the other acceptable behaviour
    fresh = c03.released("vec", c03.mk_mech("vec", cur, c03.make_rng("vec", script)), 0, cur)
    if second == fresh:
        return None
    return (f"Vector({p1}).randomise once, then {'on a .copy(): ' if lc['copy'] else ''}"
            f"{', '.join(f'{VEC_ATTR[a]} = {p2[a]!r}' for a in attrs)}; the next randomise on the same stream adds b={second[1]}, "
            f"Delta={second[2]!r}; a fresh Vector with the current parameters adds b={fresh[1]}, Delta={fresh[2]!r} "
            f"(first release: b={first[1]}, Delta={first[2]!r})")


def vector_live(ctx):
    r = ctx.fork("vector-live")
    for _ in range(ctx.budget(80, 800)):
        def draw():
            return {"eps": r.loguniform(1e-2, 20.0), "fs": r.choice([0.25, 0.25, 0.0, r.loguniform(1e-2, 2)]),
                    "ds": r.choice([1.0, math.sqrt(2.0), r.loguniform(0.1, 10)]), "d": r.randint(1, 6),
                    "alpha": r.choice([1.0, 0.01, 10.0, r.loguniform(1e-2, 1e2)]), "n": r.choice([1, 10, 137])}
        p1, p2 = draw(), draw()
        names = list(VEC_ATTR)
        attrs = r.sample(names, r.randint(1, len(names)))
        lc = {"p1": p1, "p2": {a: p2[a] for a in names}, "attrs": attrs, "copy": r.chance(0.4), "rs": r.chance(0.4),
              "normals": [r.normal() for _ in range(24)],
              "gammas": [max(1e-300, -math.log(1 - r.u01()) * r.uniform(0.2, 2.0)) for _ in range(4)]}
        ctx.case(("vector-live", tuple(sorted(attrs)), lc["copy"], lc["rs"]))
        bad = vector_live_case(lc)
        if bad:
            ctx.violation("C17:Vector:stale-calibration-after-assignment", bad, {"check": "vector-live", "live": lc})
        else:
            ctx.trace_ok()


# ------------------------------------------------------------------------------------------------ life cycle

class _Collect:
    """stands in for ctx inside direct(): collects what it would have reported"""

    def __init__(self):
        self.v = []
        self.boundary_skipped = 0

    def violation(self, sig, what, data):
        self.v.append((sig, what))

    def count(self, *a, **k):
        pass


def lifecycle_case(seq):
    """one estimator through several fits (warm_start on/off, changing number of classes / n, set_params between fits,
    clone + refit): every fit is held to the rule for its CURRENT data and parameters.  Returns a failure or None."""
    from sklearn.base import clone
    est = None
    history = []
    for i, st in enumerate(seq["steps"]):
        cfg = dict(st["cfg"], warm_start=seq["warm_start"])
        X, y = make_data(cfg, st["dseed"])
        if est is not None and st.get("clone"):
            est = clone(est)
        if est is not None:
            est.set_params(**{k: v for k, v in (("epsilon", cfg["eps"]), ("C", cfg["C"]), ("data_norm", cfg["norm"]),
                                                ("max_iter", cfg["max_iter"]))})
        try:
            calls, opts, scripts, est = observe_fit(cfg, X, y, st["dseed"], est=est)
        except ValueError as e:
            # a refit that sklearn / the estimator refuses releases nothing
            history.append(f"fit #{i} ({cfg['classes']} classes) raised {type(e).__name__}")
            est = None
            continue
        sub = _Collect()
        direct(sub, cfg, st["dseed"], X, y, calls, opts, scripts)
        if sub.v:
            sig, what = sub.v[0]
            return sig, (f"fit #{i} of one LogisticRegression(warm_start={seq['warm_start']}) "
                         f"[{'; '.join(history) or 'first fit'}{'; cloned' if st.get('clone') else ''}]: {what}")
        history.append(f"fit #{i}: {cfg['classes']} classes, n={cfg['n']}, eps={cfg['eps']!r}, C={cfg['C']!r}")
    return None


def gen_lifecycle(r):
    warm = r.chance(0.6)
    d, ic = r.randint(1, 5), r.chance(0.5)
    steps = []
    base = {"eps": r.choice([3.0, 1.2, r.loguniform(0.1, 10.0)]), "C": r.choice([1.0, r.loguniform(0.1, 10.0)]),
            "norm": r.choice([1.0, r.loguniform(0.3, 3.0)])}
    for i in range(r.randint(2, 3)):
        if i > 0 and r.chance(0.4):          # set_params between fits
            f = r.choice(["eps", "C", "norm"])
            base = dict(base)
            base[f] = {"eps": r.loguniform(0.1, 10.0), "C": r.loguniform(0.1, 10.0), "norm": r.loguniform(0.3, 3.0)}[f]
        cfg = dict(base, d=d if warm or r.chance(0.6) else r.randint(1, 5), n=r.randint(12, 80), classes=r.randint(2, 4),
                   intercept=ic, max_iter=r.choice([1, 3]), rs=r.chance(0.4))
        steps.append({"cfg": cfg, "dseed": r.next() % (1 << 40), "clone": i > 0 and r.chance(0.25)})
    return {"warm_start": warm, "steps": steps}


def _lc(warm, specs):
    return {"warm_start": warm, "steps": [{"cfg": {"eps": e, "C": 1.0, "norm": 1.0, "d": 3, "n": 40, "classes": k, "intercept": True,
                                                   "max_iter": 2}, "dseed": 5000 + j, "clone": False}
                                          for j, (k, e) in enumerate(specs)]}


FIXED_LIFECYCLES = [_lc(True, [(3, 3.0), (2, 3.0)]), _lc(True, [(4, 1.2), (3, 1.2)]), _lc(True, [(2, 1.0), (3, 1.0)]),
                    _lc(True, [(2, 1.0), (2, 2.0)]), _lc(False, [(4, 1.0), (2, 1.0), (3, 1.0)])]


def lifecycle(ctx):
    r = ctx.fork("lifecycle")
    seqs = list(FIXED_LIFECYCLES) + [gen_lifecycle(r) for _ in range(ctx.budget(40, 400))]
    for seq in seqs:
        ctx.case(("lifecycle", seq["warm_start"], tuple(s_["cfg"]["classes"] for s_ in seq["steps"]),
                  tuple(bool(s_.get("clone")) for s_ in seq["steps"])))
        bad = lifecycle_case(seq)
        if bad:
            ctx.violation("C17:" + bad[0], bad[1], {"check": "lifecycle", "seq": seq})
        else:
            ctx.trace_ok()


def replay(ctx, data):
    d = data["data"]
    chk = d.get("check")
    if chk == "cross-instance":
        return c03.cross_instance_case(d["cc"]) is not None
    if chk == "lifecycle":
        return lifecycle_case(d["seq"]) is not None
    if chk == "vector-live":
        return vector_live_case(d["live"]) is not None
    if chk == "calib":
        bad, _, _, _ = calib_case(d["eps"], d["C"], d["s"], int(d["n"]), int(d["d"]))
        return bad is not None
    if chk in ("stat-vector", "stat-fit"):
        sub = type(ctx)(ctx.prop, d.get("tier", "quick"), int(data.get("seed", 0)))
        check_stats_only(sub)
        return len(sub.violations) > 0
    run_cfg(ctx, d["cfg"], int(d["dseed"]))
    return len(ctx.violations) > 0


def check_stats_only(ctx):
    ctx.fork("cfgs")
    ctx.fork("calib")
    ctx.fork("vector-live")
    ctx.fork("lifecycle")
    ctx.fork("cross-instance")
    rs = ctx.fork("stats")
    stat_vector(ctx, rs, min(1000000, ctx.budget(20000, 1000000)))
    stat_fit(ctx, rs, min(40000, ctx.budget(1500, 20000)))


def generate(ctx):
    """translator tie: epsilon_p, delta and scale of Vector.randomise are re-read from /repo's AST on every run, translated
    to Lean terms over ℝ and proved equal to the expressions of the model's `vectorCalib` (harness/anchors.py)"""
    from .. import anchors
    from ..shim import REPO
    r = anchors.build(REPO, "C17", ["DPL.Model.LogReg"], anchors.c17_specs(), opens="DPL.LogReg", postlude=anchors.C17_POST)
    ctx.count("formula_anchors", r["obligations"])
    if r["errors"]:
        r["unavailable"] = r["errors"]      # anchors that could not be located / translated (not failed obligations)
    return r
