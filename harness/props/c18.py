"""C18 — remaining(k) agrees with what check and spend will accept (DESIGN.md §6 C18).

Correspondence: `remaining(k)` of the real accountant against the Lean model (`Acc.remaining`, driver command
`remaining <k>`) on generated accountant states; the model's iteration counts go to the evidence.
Direct check on the implementation, exactly as the property's quantifier text says, on a re-constructed copy
`BudgetAccountant(eps, delta, slack, spent_budget)`.
"""
import math
import warnings
from fractions import Fraction

from ..shim import dp, np
from .. import gen, leanio
from ..gen import f2b, b2f

PROPERTY = "C18"
LEAN_MODULE = "DPL.Properties.C18"
TRUSTED = [
    "modelled, not verified: CPython/numpy float arithmetic = IEEE binary64 = Lean `Float` (+,-,*,/,sqrt,pow bit-exact; "
    "exp/log to 1e-12 relative); the `while` of remaining() is modelled with a fuel of 4000 iterations (the driver "
    "reports the count; observed <= ~1100)",
    "the theorems about the bisection are over the reals, where the loop only stops on an exact root: they are stated "
    "for every fuel n (bracket width ceiling/2^n); that the double loop runs >= 52 halvings before its own test stops "
    "it is observed in the correspondence run (iteration counts in the evidence), not proved",
    "the theorems about acceptance (`spendK_accepts`, `remaining_spendable_accepts`, `remaining_maximal_refuses`) are "
    "about the model's check/spend over the reals, where there is no unlimited shortcut (`float('inf')` does not exist); "
    "the chain of k spend() calls in doubles is exercised on the implementation",
]
UNPROVED = [
    "the translation of half a final bracket (ceiling/2^(n+1)) into the property's 1e-9 relative slack uses the number "
    "of iterations the double loop performs; validated on every run, not proved",
    "remaining_antitone is proved for the epsilon component (same fuel on both sides); for the delta component it is "
    "validated on the implementation only",
    "floating-point behaviour of spend() next to the ceiling (1e-9 / 1e-15 slacks of the property) is validated, not proved",
]
RULE = ("(t) numeric types: states whose ceilings, slack and spends are given as np.float32/float16/float64/longdouble "
        "(quantised first): remaining(k) must be bit-identical to that of the accountant given the same reals as Python floats "
        "and pass the spend-back tests on a typed copy too; (a) accountant states generated from the seed: ceilings (inf, 1, 0.5, 3, log-uniform 1e-3..100, 0) x delta ceilings "
        "(0, tiny, 0.5, uniform, 1) x slacks (0, fractions of the delta ceiling), histories of 0..50 accepted spends "
        "(random sizes, zero-epsilon spends, spends of remaining(j) itself so that exhausted and nearly exhausted budgets "
        "occur), k in 1..20; remaining(k) is computed by the real accountant and by the Lean model on doubles, then the "
        "returned budget is spent k times on a re-constructed copy; non-trivial when the history is non-empty and the "
        "ceiling finite (the bisection runs against a non-trivial total); distinct by (ceilings, slack, history bits, k); (b) long-lived accountants: "
        "[history, remaining(k1), slack change(s) up/down with no spend in between, remaining(k2)] rounds; the value the LIVE "
        "object returned from its last remaining(k2) must be bit-identical to the re-constructed copy's, agree with the Lean "
        "model, and is the value that gets the spend-back tests")

SIG_FLAT = "C18:maximal:quadratic-flat-near-exhausted"
SIG_DELTA_ULP = "C18:bounds:delta:rounding-above-ceiling"
SIG_STALE = "C18:remaining:stale-live-state"
SIG_DELTA_NEAR_ONE = "C18:spendable:delta:rounding-near-one"
BudgetError = dp.utils.BudgetError
warnings.filterwarnings("ignore", category=RuntimeWarning, module=r"diffprivlib\.accountant")


def quiet(fn, *a, **kw):
    with warnings.catch_warnings():
        warnings.simplefilter("ignore")
        with np.errstate(all="ignore"):
            return fn(*a, **kw)


def make(ce, cd, slack, spent):
    return quiet(dp.BudgetAccountant, ce, cd, slack, spent_budget=list(spent) if spent else None)


# ---------------------------------------------------------------- generator

def gen_state(r):
    """(ce, cd, slack, spent) with every spend accepted by the implementation"""
    ce = r.choice([float("inf"), 1.0, 1.0, 0.5, 3.0, r.loguniform(1e-3, 100.0), r.loguniform(1e-3, 100.0), 10.0])
    cd = r.choice([1.0, 0.0, 0.0, 1e-5, 0.5, r.uniform(0, 1), r.loguniform(1e-9, 1e-2)])
    if r.chance(0.04):
        cd = 1.0 - r.loguniform(1e-7, 1e-2)     # delta ceiling next to 1: (1 - delta) carries few significant bits
    if r.chance(0.02) and cd > 0:
        ce = 0.0
    if math.isinf(ce) and r.chance(0.4):
        cd = 1.0
    slack = 0.0
    if cd > 0 and r.chance(0.5):
        slack = r.choice([cd, cd / 2, cd * r.u01(), min(cd, 1e-6), cd * r.loguniform(1e-6, 1)])
    base = 1.0 if math.isinf(ce) else ce
    n = r.randint(0, 50)
    acc = make(ce, cd, slack, [])
    frac = r.choice([0.3, 1.0, 1.0, 3.0])       # how much of the budget the history tries to use
    small = r.chance(0.4)                       # many small spends: the advanced-composition branches win
    for _ in range(n):
        m = r.u01()
        if m < 0.12:
            try:
                e, d = quiet(acc.remaining, r.randint(1, 5))
            except Exception:  # noqa  (a broken remaining() is reported by check_state, not here)
                continue
            e, d = float(e), float(d)
            if r.chance(0.5):
                d = 0.0
            if r.chance(0.5):
                e = e * (1 - r.loguniform(1e-17, 1e-2))
        else:
            if small:
                e = base * frac / 50 * r.uniform(0.5, 1.5)
            else:
                e = base * frac / max(n, 1) * r.loguniform(0.05, 2.0)
            if r.chance(0.08):
                e = 0.0
            d = r.choice([0.0, 0.0, cd * r.loguniform(1e-4, 1.0) / max(n, 1), cd * r.u01() * 0.1])
        try:
            quiet(acc.spend, e, d)
        except ValueError:
            pass
    return (ce, cd, slack, [(float(e), float(d)) for e, d in acc.spent_budget])


def gen_tiny_delta(r):
    """(state, k): EVERY delta in play - the recorded ones, the slack and the delta remaining(k) returns - is below 1e-8
    while there are many of them, so that the composed delta differs from the plain sum only by cross terms ~1e-13"""
    n, k = r.randint(35, 50), r.randint(10, 20)
    slack = float(r.choice([0.0, 0.0, r.uniform(1e-9, 9e-9)]))
    ds = [float(r.uniform(6e-9, 9.5e-9)) for _ in range(n)]
    if r.chance(0.5):
        ds = [ds[0]] * n
    cd = float(slack + sum(ds) + k * r.uniform(5e-9, 9e-9))
    ce = float(r.choice([10.0, 10.0, 1.0, 100.0]))
    return (ce, cd, slack, [(ce / 1000, d) for d in ds]), k


NEAR_ONE_WITNESS = ((1.0, 0.9997650043882435, 0.0, [
    (0.0010215528618232118, 0.0958378036171496), (0.005388719667879623, 0.0), (0.0, 0.012731894820638086),
    (0.009073536930116676, 0.0), (0.01624744703144434, 0.00013166356538999547), (0.003529312812904394, 0.00015289178360735825),
    (0.016817092557663307, 0.0), (0.18958369359984728, 0.0), (0.0011713888766352266, 0.0),
    (0.0024435001704450504, 0.00726024508803332), (0.01131639829812962, 0.0), (0.0020411403816043058, 0.0),
    (0.0014010290865106739, 0.0), (0.0017793793134785484, 0.07957817812269012), (0.002882649667943505, 0.0),
    (0.003959146957252368, 0.0777764009219789), (0.0021584574296243243, 0.0), (0.022216129272856974, 0.0)]), 19)

FIXED = [
    NEAR_ONE_WITNESS, ((10.0, 6e-7, 0.0, [(0.01, 9e-9)] * 50), 20), ((1.0, 4.2e-7, 5e-9, [(0.001, 8e-9)] * 40), 12),
    ((1.0, 0.0, 0.0, []), 1), ((1.0, 0.0, 0.0, [(0.1, 0.0)] * 10), 1), ((1.0, 0.5, 0.25, [(0.05, 0.0)] * 40), 3),
    ((float("inf"), 1.0, 0.0, [(5.0, 0.5), (1.0, 1.0)]), 2), ((float("inf"), 0.5, 0.1, [(5.0, 0.2)]), 4),
    ((3.0, 1e-5, 1e-6, [(0.01, 1e-7)] * 50), 20), ((0.0, 0.5, 0.0, [(0.0, 0.1)]), 2), ((1.0, 1.0, 0.0, [(0.5, 1.0)]), 5),
]


# ---------------------------------------------------------------- direct checks on the implementation

def delta_rounding_near_one(state, e, d, i):
    """Is the refusal of spend #i (1-based) of the spend-back experiment the known rounding of the DELTA total, whose
    double value next to 1 has a resolution (2^-53) coarser than what the property's 1e-15 allowance buys?
    Exact criterion (all four must hold; anything else stays `C18:spendable`), with u = ulp(delta ceiling):
      1. unresolvable allowance: i * 1e-15 * (1 - ceiling) <= 4u  (the whole allowance of the i spends, expressed on the
         product (1-slack)*prod(1-d_j) that the total is made of, is at most 4 units in the last place of the total);
      2. the implementation's own total(history + i*[(e, d)]) has epsilon <= the epsilon ceiling (epsilon is not the cause);
      3. its delta overshoots the delta ceiling by at most 64u (a handful of roundings, not a formula error);
      4. in EXACT rational arithmetic on the same doubles, 1 - (1-slack) * prod(1-d_j) * (1-d)^i <= ceiling + 64u
         (the spends fit up to the rounding with which remaining() itself could read the recorded delta total)."""
    ce, cd, slack, spent = state
    if not (0 < cd <= 1):
        return False
    u = math.ulp(cd)
    if not i * 1e-15 * (1 - cd) <= 4 * u:
        return False
    try:
        t = quiet(make(ce, cd, slack, []).total, spent_budget=list(spent) + [(e, d)] * i)
    except Exception:  # noqa
        return False
    te, td = float(t[0]), float(t[1])
    if not (te <= ce and cd < td <= cd + 64 * u):
        return False
    prod = (1 - Fraction(slack)) * (1 - Fraction(d)) ** i
    for _, dj in spent:
        prod *= 1 - Fraction(dj)
    return 1 - prod <= Fraction(cd) + 64 * Fraction(u)


def check_state(state, k, extra=None, live_rem=None, live_sig=None, live_desc="the long-lived accountant's"):
    """All C18 clauses on one accountant state.  Returns (list of (signature, what), info).
    With `live_rem` (what a long-lived accountant in this state returned from remaining(k)): that value must be
    bit-identical to what the re-constructed copy returns, and it is the value that gets the spend-back tests."""
    ce, cd, slack, spent = state
    acc = make(ce, cd, slack, spent)
    out = []
    try:
        rem = quiet(acc.remaining, k)
    except Exception as ex:  # noqa
        return [("C18:remaining-raises", f"ceiling=({ce!r},{cd!r}) slack={slack!r} {len(spent)} spends: remaining({k}) raised "
                                         f"{type(ex).__name__}: {str(ex)[:100]}")], {"remaining": None}
    er, dr = float(rem[0]), float(rem[1])
    info = {"remaining": (er, dr)}
    if live_rem is not None:
        if tuple(live_rem) != (er, dr):
            out.append((live_sig or SIG_STALE, f"ceiling=({ce!r},{cd!r}) slack={slack!r} {len(spent)} spends: {live_desc} "
                                   f"remaining({k}) = {tuple(live_rem)!r} but an accountant re-constructed from the same ceilings, "
                                   f"slack and spent_budget returns ({er!r}, {dr!r})"))
        er, dr = float(live_rem[0]), float(live_rem[1])
        info = {"remaining": (er, dr)}
    here = f"ceiling=({ce!r},{cd!r}) slack={slack!r} {len(spent)} spends k={k}: remaining=({er!r},{dr!r})"

    # the unlimited accountant
    if math.isinf(ce) and cd == 1.0:
        if not (er == math.inf and dr == 1.0):
            out.append(("C18:unlimited", f"{here} but an unlimited accountant must report (inf, 1.0)"))
        return out, info

    # 0 <= remaining <= ceiling
    if not (0 <= er <= ce):
        out.append(("C18:bounds:eps", f"{here}: epsilon outside [0, ceiling]"))
    if not (0 <= dr <= cd):
        if cd < dr <= cd + 1e-15:
            # `1 - ((1 - ceiling) / (1 - spent)) ** (1/k)` rounds a few 1e-16 above the ceiling: known finding; the
            # property's own absolute slack for delta (1e-15) is what the remaining clauses below are checked with
            out.append((SIG_DELTA_ULP, f"{here}: delta exceeds the delta ceiling by {dr - cd:.3e} (rounding of the closed form)"))
        else:
            out.append(("C18:bounds:delta", f"{here}: delta outside [0, ceiling]"))
    if any(sig not in (SIG_DELTA_ULP, SIG_STALE, live_sig) for sig, _ in out):
        return out, info

    min_eps = 0.0 if math.isinf(ce) else ce * 1e-14
    # spendable: k x spend(eps_r (1-1e-9), max(0, delta_r - 1e-15)) all succeed on a re-constructed copy
    e_lo = er * (1 - 1e-9)
    if er > min_eps and (e_lo >= min_eps * (1 + 1e-6) or min_eps == 0):
        c = make(ce, cd, slack, spent)
        for i in range(k):
            try:
                quiet(c.spend, e_lo, max(0.0, dr - 1e-15))
            except Exception as ex:  # noqa
                sig = "C18:spendable"
                if isinstance(ex, BudgetError) and delta_rounding_near_one(state, e_lo, max(0.0, dr - 1e-15), i + 1):
                    sig = SIG_DELTA_NEAR_ONE
                out.append((sig, f"{here}; spend #{i + 1} of {k} of ({e_lo!r}, {max(0.0, dr - 1e-15)!r}) on a "
                                 f"re-constructed copy raised {type(ex).__name__}: {str(ex)[:80]}"))
                break
    elif er > min_eps:
        info["boundary"] = True

    # maximal: k x spend(eps_r (1+1e-6), 0) is refused at some step
    if ce * 1e-9 < er < ce * (1 - 1e-9):
        c = make(ce, cd, slack, spent)
        e_hi = er * (1 + 1e-6)
        refused = False
        for i in range(k):
            try:
                quiet(c.spend, e_hi, 0)
            except BudgetError:
                refused = True
                break
        if not refused:
            t0 = float(quiet(acc.total)[0])
            t1 = float(quiet(c.total)[0])
            sig = "C18:maximal"
            # the float evaluation of the advanced-composition total is flat (second order in a small extra spend)
            # next to an exhausted budget: known finding, see known_findings.json
            if slack > 0 and (ce - t0) <= 1e-9 * ce and er <= 1e-4 * ce:
                sig = SIG_FLAT
            out.append((sig, f"{here}; {k} spends of ({e_hi!r}, 0) = remaining*(1+1e-6) were all accepted "
                             f"(total epsilon {t0!r} -> {t1!r}, ceiling {ce!r})"))

    # remaining does not grow when a spend is recorded
    if extra is not None:
        e, d = extra
        try:
            quiet(acc.spend, e, d)
        except ValueError:
            return out, info
        try:
            rem2 = quiet(acc.remaining, k)
        except Exception as ex:  # noqa
            out.append(("C18:remaining-raises", f"{here}; after spend({e!r},{d!r}) remaining({k}) raised {type(ex).__name__}"))
            return out, info
        e2, d2 = float(rem2[0]), float(rem2[1])
        if not (e2 <= er * (1 + 1e-9)):
            out.append(("C18:grows:eps", f"{here}; after spend({e!r},{d!r}) remaining epsilon grew to {e2!r}"))
        if not (d2 <= dr * (1 + 1e-9) + 1e-15):
            out.append(("C18:grows:delta", f"{here}; after spend({e!r},{d!r}) remaining delta grew to {d2!r}"))
    return out, info


# ---------------------------------------------------------------- long-lived accountants

def gen_live(r):
    """(ce, cd, slack0, ops): a history, then remaining(k1), slack change(s) with NO spend in between, remaining(k2) —
    possibly several such rounds; the last op is always a remaining(k)."""
    ce = float(r.choice([1.0, 1.0, 0.5, 3.0, 10.0, r.loguniform(1e-2, 100.0)]))
    cd = float(r.choice([1.0, 0.5, 0.5, r.uniform(0.05, 1.0), 1e-3]))
    s0 = float(r.choice([0.0, 0.0, cd * r.u01() * 0.5, cd * r.loguniform(1e-6, 0.3)]))
    n = r.randint(0, 30)
    frac = r.choice([0.3, 0.8, 1.5])
    small = r.chance(0.5)

    def a_spend():
        e = ce * frac / 50 * r.uniform(0.5, 1.5) if small else ce * frac / max(n, 1) * r.loguniform(0.05, 2.0)
        d = r.choice([0.0, 0.0, cd * r.loguniform(1e-4, 0.5) / max(n, 1), cd * r.u01() * 0.05])
        return ["spend", float(e), float(d)]

    def a_slack():
        return ["slack", float(r.choice([0.0, cd * r.u01(), cd * r.u01() * 0.3, cd * r.loguniform(1e-6, 1.0), cd / 2]))]

    ops = [a_spend() for _ in range(n)]
    for _ in range(r.randint(1, 3)):
        ops.append(["remaining", r.randint(1, 20)])
        for _ in range(r.randint(1, 3)):
            ops.append(a_slack())
            if r.chance(0.2):
                ops.append(["total"])
        ops.append(["remaining", r.randint(1, 20)])
        if r.chance(0.5):
            ops.append(a_spend())
            ops.append(["remaining", r.randint(1, 20)])
    return ce, cd, s0, ops


LIVE_FIXED = [
    (1.0, 0.5, 0.0, [["spend", 0.1, 0.01], ["spend", 0.1, 0.01], ["remaining", 1], ["slack", 0.2], ["remaining", 3]]),
    (1.0, 0.5, 0.3, [["spend", 0.05, 0.0]] * 20 + [["remaining", 2], ["slack", 0.0], ["slack", 0.1], ["remaining", 5]]),
]


def run_live(seq):
    """Run the sequence on ONE real accountant.  Returns (final state, k of the last remaining, its value | exception text)."""
    ce, cd, s0, ops = seq
    live = make(ce, cd, s0, [])
    last = None
    for op in ops:
        try:
            if op[0] == "spend":
                quiet(live.spend, op[1], op[2])
            elif op[0] == "slack":
                def _set():
                    live.slack = op[1]
                quiet(_set)
            elif op[0] == "total":
                quiet(live.total)
            elif op[0] == "remaining":
                last = (op[1], None)
                rem = quiet(live.remaining, op[1])
                last = (op[1], (float(rem[0]), float(rem[1])))
        except ValueError:
            pass
    state = (ce, cd, float(live.slack), [(float(e), float(d)) for e, d in live.spent_budget])
    return state, last[0], last[1]


# ---------------------------------------------------------------- numeric types

WRAPS = {"f32": lambda v: np.float32(v), "f16": lambda v: np.float16(v), "f64": lambda v: np.float64(v),
         "ld": lambda v: np.longdouble(v)}
SIG_TYPED = "C18:numeric-type:remaining"


def q_of(wrap, v):
    with np.errstate(all="ignore"):
        if wrap == "f32":
            return float(np.float32(v))
        if wrap == "f16":
            return float(np.float16(v))
    return float(v)


def typed_build(wrap, ce, cd, slack, spent, strict=False):
    """an accountant that receives every number in the wrap's type; returns (accountant, spends it accepted)"""
    W = WRAPS[wrap]
    a = quiet(dp.BudgetAccountant, W(ce), W(cd), W(slack))
    kept = []
    for e, d in spent:
        try:
            quiet(a.spend, W(e), W(d))
            kept.append((e, d))
        except ValueError:
            if strict:
                raise
    return a, kept


def typed_state(wrap, state):
    """the state with every number rounded to one the type represents exactly, and only the spends a typed accountant
    accepts (None when the state does not survive the rounding)"""
    ce, cd, slack, spent = state
    if math.isinf(ce):
        return None
    ce, cd, slack = q_of(wrap, ce), q_of(wrap, cd), q_of(wrap, slack)
    if not (0 < ce < math.inf) or slack > cd:
        return None
    qs = []
    for e, d in spent:
        e, d = q_of(wrap, e), q_of(wrap, d)
        # `0 < epsilon < ceiling*1e-14` is evaluated by numpy in the narrow type for a narrow epsilon: stay clear of it
        if (e == 0 and d == 0) or (0 < e < ce * 1e-9) or not (0 <= d <= 1):
            continue
        qs.append((e, d))
    try:
        _, kept = typed_build(wrap, ce, cd, slack, qs)
        make(ce, cd, slack, kept)                  # the plain-float copy must accept the same history
    except ValueError:
        return None
    return (ce, cd, slack, kept)


def check_typed(wrap, state, k):
    """remaining(k) of an accountant given narrow/wide numpy numbers = remaining(k) of the accountant given the same real
    numbers as Python floats (bit for bit), and it passes the spend-back tests on both"""
    ce, cd, slack, spent = state
    try:
        T, _ = typed_build(wrap, ce, cd, slack, spent, strict=True)
        rem = quiet(T.remaining, k)
    except Exception as ex:  # noqa
        return [("C18:numeric-type:raises", f"ceiling=({ce!r},{cd!r}) slack={slack!r} {len(spent)} spends given as {wrap}: "
                                            f"construction/remaining({k}) raised {type(ex).__name__}: {str(ex)[:80]}")]
    rem = (float(rem[0]), float(rem[1]))
    viol, _ = check_state(state, k, None, live_rem=rem, live_sig=SIG_TYPED,
                          live_desc=f"an accountant that was given every number as {wrap} returns")
    er, dr = rem
    if not viol and ce * 1e-12 < er <= ce and 0 <= dr <= cd + 1e-15:
        C, _ = typed_build(wrap, ce, cd, slack, spent, strict=True)
        for i in range(k):
            try:
                quiet(C.spend, er * (1 - 1e-9), max(0.0, dr - 1e-15))
            except Exception as ex:  # noqa
                viol.append(("C18:numeric-type:spendable", f"ceiling=({ce!r},{cd!r}) slack={slack!r} {len(spent)} spends, all given as "
                                                           f"{wrap}: remaining({k})=({er!r},{dr!r}) but spend #{i + 1} of "
                                                           f"({er * (1 - 1e-9)!r}, {max(0.0, dr - 1e-15)!r}) raised {type(ex).__name__}"))
                break
    return viol


def typed_stream(ctx):
    r = ctx.fork("typed")
    fixed = [("f32", (0.3, 0.5, 0.0, [(0.125, 0.25)]), 3), ("f32", (1.0, 0.5, 0.1, [(0.01, 1e-7)] * 40), 7),
             ("f16", (2.0, 0.25, 0.0, [(0.5, 0.0), (0.25, 0.125)]), 2)]
    n_ok = 0
    for i in range(len(fixed) + ctx.budget(120, 2000)):
        if i < len(fixed):
            wrap, st, k = fixed[i]
        else:
            wrap, st, k = r.choice(["f32", "f32", "f32", "f16", "ld", "f64"]), gen_state(r), r.randint(1, 20)
        st = typed_state(wrap, st)
        if st is None:
            continue
        n_ok += 1
        for sig, what in check_typed(wrap, st, k):
            ctx.violation(sig, what, {"typed": wrap, "state": list(st), "k": k})
        ctx.case(("typed", wrap, f2b(st[0]), f2b(st[1]), f2b(st[2]), hash(tuple(st[3])), k) if st[3] and wrap != "f64" else None)
    ctx.count("typed_states", n_ok)


def gen_extra(r, state, rem):
    ce, cd, slack, spent = state
    er, dr = rem
    m = r.u01()
    if m < 0.6:
        e = er * r.choice([0.5, 0.1, 1e-3, 0.999, 1.0]) if not math.isinf(er) else r.loguniform(1e-3, 10)
        d = dr * r.choice([0.0, 0.0, 0.5, 0.1, 1.0])
    elif m < 0.8:
        e, d = 0.0, dr * r.choice([0.5, 1e-3, 1.0])
    else:
        base = 1.0 if math.isinf(ce) else ce
        e, d = base * r.loguniform(1e-12, 1.0), 0.0
    return (float(e), float(d))


# ---------------------------------------------------------------- entry points

def check(ctx):
    typed_stream(ctx)
    if ctx.searching and ctx.violations:
        return
    r = ctx.fork("states")
    n = ctx.budget(1200, 20000)
    if ctx.searching:
        n = min(n, 5000)          # keeps the failing-input search of the quick tier within a few minutes
    cases = [(s, k, None) for s, k in FIXED]
    for _ in range(n):
        cases.append((gen_state(r), r.randint(1, 20), None))
    # long-lived accountants: the state and k of the LAST remaining() call, with the value the live object returned
    rl = ctx.fork("live")
    for seq in list(LIVE_FIXED) + [gen_live(rl) for _ in range(ctx.budget(300, 5000))]:
        try:
            state, k, live_rem = run_live(seq)
            if live_rem is not None:
                make(*state)                      # the re-constructed copy must exist (rounding next to the ceiling aside)
        except ValueError:
            ctx.boundary_skipped += 1
            continue
        cases.append((state, k, {"seq": list(seq), "rem": live_rem}))
    # every delta below 1e-8, many of them
    rt = ctx.fork("tiny-delta")
    for _ in range(ctx.budget(25, 400)):
        st, k = gen_tiny_delta(rt)
        cases.append((st, k, None))
    # unlimited accountants with arbitrary histories
    for _ in range(ctx.budget(30, 300)):
        spent = [(float(r.loguniform(1e-3, 100)), float(r.choice([0.0, r.u01(), 1.0]))) for _ in range(r.randint(0, 50))]
        cases.append(((float("inf"), 1.0, 0.0, spent), r.randint(1, 20), None))
    rx = ctx.fork("extra")
    lines, spans, impl = [], [], []
    for state, k, live in cases:
        ce, cd, slack, spent = state
        if live is not None:
            rem = live["rem"]
            if rem is None:
                ctx.violation("C18:remaining-raises", f"long-lived accountant ceiling=({ce!r},{cd!r}): remaining({k}) raised at "
                                                      f"the end of {live['seq'][3][-6:]}", {"live": live["seq"]})
        else:
            try:
                rem = quiet(make(ce, cd, slack, spent).remaining, k)
                rem = (float(rem[0]), float(rem[1]))
            except Exception:  # noqa
                rem = None
        extra = gen_extra(rx, state, rem if rem else (0.0, 0.0))
        viol, info = check_state(state, k, extra, live_rem=rem if live is not None else None)
        for sig, what in viol:
            data = {"state": [ce, cd, slack, spent], "k": k, "extra": list(extra)}
            if live is not None:
                data["live"] = live["seq"]
                what = what + f"  [live sequence ends with {live['seq'][3][-5:]}]"
            ctx.violation(sig, what, data)
        if info.get("boundary"):
            ctx.boundary_skipped += 1
        nontrivial = bool(spent) and not math.isinf(ce)
        ctx.case((f2b(ce), f2b(cd), f2b(slack), hash(tuple(spent)), k, live is not None) if nontrivial else None)
        impl.append(rem)
        flat = []
        for e, d in spent:
            flat += [f2b(e), f2b(d)]
        spans.append(len(lines))
        lines.append("new " + " ".join(str(x) for x in [f2b(ce), f2b(cd), f2b(slack)] + flat))
        lines.append(f"remaining {k}")
    s0 = cases[len(FIXED)]
    lv = [c for c in cases if c[2] is not None]
    if lv:
        ctx.sample({"live_sequence_tail": lv[0][2]["seq"][3][-5:], "final_state": [lv[0][0][0], lv[0][0][1], lv[0][0][2], len(lv[0][0][3])],
                    "k": lv[0][1], "live_remaining": lv[0][2]["rem"]})
        ctx.count("live_sequences", len(lv))
    ctx.sample({"ceiling": [s0[0][0], s0[0][1]], "slack": s0[0][2], "n_spends": len(s0[0][3]), "spends": s0[0][3][:4],
                "k": s0[1], "impl_remaining": impl[len(FIXED)]})
    if ctx.searching and ctx.violations:
        return
    outs = leanio.run_driver("Accountant", lines)
    iters = []
    for (state, k, live), rem, a in zip(cases, impl, spans):
        ce, cd, slack, spent = state
        w0, w = outs[a].split(), outs[a + 1].split()
        if rem is None:
            ctx.disagree("accountant.remaining", {"state": state, "k": k}, [outs[a], outs[a + 1]], "raised")
            continue
        if w0[0] != "ok" or w[0] != "ok" or len(w) < 8:
            # the model refused a history the implementation accepted (or remaining failed): only legitimate within
            # rounding of the ceiling when exp/log are involved (slack > 0)
            t = quiet(make(ce, cd, slack, spent).total)
            if slack > 0 and gen.rel_close(float(t[0]), ce, 1e-11):
                ctx.boundary_skipped += 1
            else:
                ctx.disagree("accountant.remaining", {"state": state, "k": k}, [outs[a], outs[a + 1]], rem)
            continue
        me, md, it = b2f(int(w[5])), b2f(int(w[6])), int(w[7])
        iters.append(it)
        ok_d = gen.rel_close(md, rem[1], 1e-12, 1e-15)
        ok_e = (me == rem[0]) if slack == 0 else gen.rel_close(me, rem[0], 1e-9)
        if ok_d and not ok_e and slack > 0 and not math.isinf(me) and me >= 0:
            # both answers may be roots to rounding: the total is flat / the ulp of exp moves the root.  Accept when the
            # implementation's own total at the model's answer is within 1e-12 of the ceiling.
            try:
                t = float(quiet(make(ce, cd, slack, []).total, spent_budget=spent + [(me, 0.0)] * k)[0])
                if gen.rel_close(t, ce, 1e-12):
                    ctx.boundary_skipped += 1
                    continue
            except Exception:  # noqa
                pass
        if ok_d and ok_e:
            ctx.trace_ok()
        else:
            ctx.disagree("accountant.remaining" + (".live" if live is not None else ""),
                         {"state": state, "k": k, "live": live["seq"] if live else None}, outs[a + 1], rem)
    if iters:
        finite = [i for i in iters if i > 0]
        ctx.count("model_iterations_min_nonzero", min(finite) if finite else 0)
        ctx.count("model_iterations_max", max(iters))
        ctx.count("model_iterations_zero(loop did not run)", sum(1 for i in iters if i == 0))
        ctx.count("model_iterations_lt_52", sum(1 for i in iters if 0 < i < 52))
        ctx.note(f"model bisection iterations over {len(iters)} states: min(non-zero)={min(finite) if finite else 0} "
                 f"median={sorted(iters)[len(iters) // 2]} max={max(iters)}; states with 0 iterations (inf or 0 ceiling): "
                 f"{sum(1 for i in iters if i == 0)}")
    ctx.count("states_compared", len(cases))


def replay(ctx, data):
    from ..core import unjson_float as u
    d = data["data"]
    extra = tuple(float(u(x)) for x in d["extra"]) if d.get("extra") else None
    if d.get("typed"):
        ce, cd, slack, spent = d["state"]
        state = (float(u(ce)), float(u(cd)), float(u(slack)), [(float(u(e)), float(u(x))) for e, x in spent])
        viol = check_typed(d["typed"], state, int(d["k"]))
        sig = data.get("signature")
        return any(sg == sig for sg, _ in viol) if sig else bool(viol)
    if d.get("live"):
        def fix(x):
            return [fix(y) for y in x] if isinstance(x, list) else u(x)
        seq = fix(d["live"])
        state, k, live_rem = run_live((float(seq[0]), float(seq[1]), float(seq[2]), seq[3]))
        if live_rem is None:
            return True
        viol, _ = check_state(state, k, extra, live_rem=live_rem)
    else:
        ce, cd, slack, spent = d["state"]
        state = (float(u(ce)), float(u(cd)), float(u(slack)), [(float(u(e)), float(u(x))) for e, x in spent])
        viol, _ = check_state(state, int(d["k"]), extra)
    sig = data.get("signature")
    return any(s == sig for s, _ in viol) if sig else bool(viol)


def _witness_flat(ctx):
    state = (1.0, 0.5, 0.25, [(0.05, 0.0)] * 40)
    acc = make(*state)
    e, _ = quiet(acc.remaining, 1)
    quiet(acc.spend, float(e), 0.0)
    st = (1.0, 0.5, 0.25, [(float(a), float(b)) for a, b in acc.spent_budget])
    viol, info = check_state(st, 1)
    n = 0
    try:
        for _ in range(1000):
            quiet(acc.spend, 3.7e-9, 0.0)
            n += 1
    except ValueError:
        pass
    return (any(s == SIG_FLAT for s, _ in viol),
            f"BudgetAccountant(1.0, 0.5, slack=0.25) after 40 spends of 0.05 and one spend of remaining(): total epsilon = "
            f"ceiling, remaining(1) = {info['remaining'][0]!r} (> 1e-9*ceiling) and spend(remaining*(1+1e-6), 0) is accepted; "
            f"{n} further spends of 3.7e-9 were all accepted with total() unchanged (float absorption: the "
            f"advanced-composition total is second order in a small extra spend)")


def _witness_delta_ulp(ctx):
    cd = 1.3975749612679646e-07
    viol, info = check_state((1.0, cd, 0.0, []), 1)
    refused = False
    try:
        quiet(make(1.0, cd, 0.0, []).spend, 0.1, info["remaining"][1])
    except BudgetError:
        refused = True
    return (any(s == SIG_DELTA_ULP for s, _ in viol),
            f"BudgetAccountant(1.0, {cd!r}).remaining(1).delta = {info['remaining'][1]!r} > the delta ceiling "
            f"(1 - (1 - ceiling) rounds up); spend(0.1, that delta) refused: {refused}")


def _witness_delta_near_one(ctx):
    state, k = NEAR_ONE_WITNESS
    viol, info = check_state(state, k)
    hit = [w for sg, w in viol if sg == SIG_DELTA_NEAR_ONE]
    return (bool(hit),
            f"BudgetAccountant(1.0, {state[1]!r}) with 18 spends (total delta 0.2525): remaining(19) = {info['remaining']!r}; "
            f"19 spends of (eps*(1-1e-9), delta-1e-15) on a re-constructed copy: "
            + (hit[0].split('; ', 1)[1][:120] if hit else "all accepted") +
            " - in exact arithmetic they fit; the double accumulation of prod(1-delta) next to a ceiling of 1-2.3e-4 does not "
            "resolve the 1e-15 allowance")


WITNESSES = {SIG_FLAT: _witness_flat, SIG_DELTA_ULP: _witness_delta_ulp, SIG_DELTA_NEAR_ONE: _witness_delta_near_one}


# translator tie: the arithmetic of total()/remaining() is re-read from /repo's AST on every run, translated to Lean
# terms over ℝ and proved equal to what the model computes (DPL/Generated/AccountantFormulas.lean; shared with C04)
from .c04 import generate  # noqa: E402,F401
