"""C06 — releases depend on the data only through the noise mechanisms (DESIGN.md §6 C06).

The hyperproperty test on the implementation: for every tool and estimator named by the property, with ALL domain
parameters supplied, two arbitrarily different same-shape datasets D1, D2 and IDENTICAL forced mechanism outputs
(every `DPMechanism.randomise` call is interposed and returns a value from a deterministic schedule that is valid for
the mechanism's output type; data-independent randomness is fixed by an integer random_state):
        release(D1) == release(D2)   bit for bit.
For the three estimators with data-dependent structure (GaussianNB: labels present; KMeans: non-empty clusters per
iteration; trees: occupied leaves) D2 is drawn with the same occupancy pattern where that can be arranged, and pairs
whose occupancy (as the estimator itself sees it) differs are counted as skipped, never as violations.
The Lean side (DPL/Properties/C06.lean) is `Plan.noninterference` instantiated for every plan — true by construction
of the DSL; the plans are tied to the code by the trace correspondence of C08/C07 and by this experiment.
"""
import math
import warnings

from ..shim import dp, np
from .. import gen, leanio, seams
from . import c08

PROPERTY = "C06"
LEAN_MODULE = "DPL.Properties.C06"
TRUSTED = [
    "the interposition covers every noise source: all randomness that may depend on data flows through a "
    "DPMechanism.randomise call (a draw taken directly from a generator would not be forced — C14 audits the generators)",
    "data-independent randomness (KMeans initial centres, tree structure, forest row partition) is fixed by an integer "
    "random_state and treated as a caller parameter; 'same shape' includes the group-occupancy pattern for GaussianNB "
    "(labels present), KMeans (non-empty clusters per iteration) and trees (occupied leaves)",
    "the Lean theorems are instances of Plan.noninterference: true by construction of the plan DSL; their force comes "
    "from the correspondence between the plans and the code (C07/C08 trace comparison) and from this experiment",
    "static tie (harness/translate/taint.py -> DPL.Generated.C06Flows, soundness DPL.C06.static_taint_sound): the "
    "translator is trusted to render each Python statement as IR statements whose dependency sets over-approximate the "
    "real ones. It trusts that (i) every numpy / scipy / scikit-learn / builtin call, every library helper that draws no "
    "noise (clip_to_bounds, check_bounds, _check_bounds, _clip_to_bounds, validate_data, _handle_zeros_in_scale, "
    "check_random_state, _check_partial_fit_first_call, null_space, minimize, self.<method without mechanism>) and every "
    "call of a local callable is a PURE function of its arguments (plus, for self.<method>, of the estimator's "
    "attributes), the only receivers mutated being those of pop/append/extend/sort/fill/remove/insert/clear/update/"
    "reverse/iternext and subscript / attribute assignment targets; (ii) the SHAPE of an object — .shape .ndim .dtype "
    ".size, len(), np.ndim/np.size/np.shape, np.zeros_like/ones_like/empty_like, isinstance/type/hasattr/issubclass, "
    "`is None`, the position (.finished, .multi_index, iternext) of an np.nditer — is public, that the calls listed in "
    "taint.REG_FUNCS / REG_METHODS / NARY_FUNCS produce a shape that depends only on the shapes of their array "
    "arguments and the values of the others, and that np.histogram(dd)'s bin edges are a function of bins, range and the "
    "sample's shape once range is given; (iii) the allow-listed data-dependent structure: the probes `np.unique(y)` in "
    "GaussianNB._partial_fit/_noisy_class_counts (labels present) and `cluster not in labels` in KMeans._update_centers, "
    "`np.isnan(X)` in the scaler being all-False because partial_fit's single validate_data call admits no NaN "
    "(re-checked on the sources), any `raise` (a refusal may depend on the data), and a path that issues "
    "PrivacyLeakWarning (C11's declared leak) ending the analysed run; (iv) accountant calls, warn_unused_args and "
    "_validate_params release nothing; (v) `func` in _wrap_axis is one of the tools of the same table; a call of an "
    "entry point of the table is clean by that entry point's own obligation provided its non-data arguments are clean",
]
UNPROVED = [
    "that the implementation has the plan shape is established by the two-dataset experiment and the trace "
    "correspondence on generated inputs, not by proof",
    "quantile/median/percentile and LogisticRegression are outside this property (C07, C17)",
]
RULE = ("entry point (15 tools incl. nan-variants and histograms with density; 7 estimators) x parameters (all domain "
        "parameters given; axis/keepdims/dtype/bins/range/density; bounds of any sign) x two independent same-shape "
        "datasets (in/on/out of bounds, NaNs for the nan-variants) x a forced-output schedule; non-trivial = at least "
        "one mechanism input differed between the datasets; distinct by (entry, shape, parameter class, schedule seed)")

TOOLS = ["mean", "var", "std", "sum", "count_nonzero", "nanmean", "nanvar", "nanstd", "nansum",
         "histogram", "histogram2d", "histogramdd"]
MODELS = ["gnb", "kmeans", "scaler", "linreg", "pca", "forest", "tree"]


# ----------------------------------------------------------------------------------------------------------------------
# forced-output schedule
# ----------------------------------------------------------------------------------------------------------------------

def make_schedule(seed, period=None, kind=None):
    """(call, index) -> value; depends only on the call's class/parameters (which must not depend on the data) and index.
    kind = "lower" / "upper": every mechanism returns the lower / upper end of its output domain (all-zero histogram
    counts, noisy class counts of 1, sums at the domain boundary, first / last candidate …).
    With `period` the real-valued outputs repeat every `period` calls up to a small jitter (slowly drifting noisy
    centres: assignments of well separated data stay put while borderline records flip)"""
    def force(c, idx):
        r = gen.SplitMix64(seed * 7919 + (idx if period is None else idx % period) * 104729 + 17)
        jit = gen.SplitMix64(seed * 31 + idx).u01() * 0.04 if period is not None else 0.0
        o = c.obj
        cls = c.cls
        lo, hi = getattr(o, "lower", None), getattr(o, "upper", None)
        if cls.startswith("Geometric"):
            a = 0 if lo is None or not math.isfinite(lo) else int(math.ceil(lo))
            b = a + 40 if hi is None or not math.isfinite(hi) else int(math.floor(hi))
            b = max(a, min(b, a + 60))
            if kind is not None:
                return a if kind == "lower" else b
            return a + r.next() % (b - a + 1)
        if cls in ("PermuteAndFlip", "Exponential", "ExponentialCategorical"):
            k = len(c.params.get("utility", [0]))
            if kind is not None:
                return 0 if kind == "lower" else max(k, 1) - 1
            return int(r.next() % max(k, 1))
        if cls == "Bingham":
            d = c.value.shape[0]
            if d == 1:
                return np.ones((1, 1))
            if kind is not None:
                v = np.zeros(d)
                v[0 if kind == "lower" else d - 1] = 1.0
                return v
            v = np.array([r.normal() for _ in range(d)])
            return v / np.linalg.norm(v)
        sens = float(getattr(o, "sensitivity", 1.0))
        sens = sens if math.isfinite(sens) else 1.0
        u = r.u01()
        if period is not None:
            u = (u + jit) / 1.04
        if kind is not None:
            e = lo if kind == "lower" else hi
            if e is not None and math.isfinite(e):
                return float(e)
            return 0.0 if kind == "lower" else float(10 * (sens + 1))
        if lo is not None and hi is not None and math.isfinite(lo) and math.isfinite(hi):
            m = r.u01() if period is None else 0.5
            if m < 0.1:
                return float(lo)
            if m < 0.2:
                return float(hi)
            return float(lo + u * (hi - lo))
        if lo is not None and math.isfinite(lo):
            return float(lo + u * 10 * (sens + 1))
        return float((u - 0.5) * 10 * (sens + 1))
    return force


def bits(a):
    a = np.asarray(a)
    return (a.shape, str(a.dtype), a.tobytes())


def first_diff(a, b):
    a, b = np.asarray(a), np.asarray(b)
    if a.shape != b.shape:
        return f"shape {a.shape} vs {b.shape}"
    fa, fb = a.ravel(), b.ravel()
    for i in range(len(fa)):
        if fa[i].tobytes() != fb[i].tobytes():
            return f"[{i}] {fa[i]!r} vs {fb[i]!r}"
    return f"dtype {a.dtype} vs {b.dtype}"


# ----------------------------------------------------------------------------------------------------------------------
# tools
# ----------------------------------------------------------------------------------------------------------------------

DATA_KINDS = ["in", "mixed", "corner", "in", "mixed", "corner", "allout", "allout", "allequal", "allnan"]


def tool_values(r, lo, hi, size, kind):
    """`size` values relative to the domain [lo, hi]; the extreme kinds: every value outside the domain (below, above or
    both sides), every value equal, every value NaN"""
    w = hi - lo
    if kind == "allout":
        side = r.choice(["below", "above", "both"])
        return [(lo - r.loguniform(1e-3, 3) * w) if (side == "below" or (side == "both" and r.chance(0.5)))
                else (hi + r.loguniform(1e-3, 3) * w) for _ in range(size)]
    if kind == "allequal":
        v = r.choice([lo, hi, r.uniform(lo, hi), 0.0])
        return [v] * size
    if kind == "allnan":
        return [float("nan")] * size
    return [c08.gen_value(r, lo, hi, kind) for _ in range(size)]


def inject_nonfinite(r, rows, kind):
    """put NaN (kind 'nan') or +-inf (kind 'inf') into a random, non-empty set of entries of a list of rows (in place);
    the two datasets of a pair get independent positions and rates, hence different per-column counts"""
    rate = r.choice([0.02, 0.1, 0.3, r.uniform(0.01, 0.5)])
    n, d = len(rows), len(rows[0])
    hit = False
    for i in range(n):
        for j in range(d):
            if r.chance(rate):
                rows[i][j] = float("nan") if kind == "nan" else (math.inf if r.chance(0.5) else -math.inf)
                hit = True
    if not hit:
        rows[r.randint(0, n - 1)][r.randint(0, d - 1)] = float("nan") if kind == "nan" else math.inf


def gen_weights(r, n):
    """per-record weights (a keyword that carries per-record data): non-integer floats, integers, zeros, one dominant"""
    kind = r.choice(["float", "float", "float", "int", "zeros", "dominant", "mixed"])
    if kind == "float":
        return [round(r.uniform(0.05, 3.0), r.choice([1, 2, 6])) + r.choice([0.0, 0.25, 0.3]) for _ in range(n)]
    if kind == "int":
        return [float(r.randint(0, 4)) for _ in range(n)]
    if kind == "zeros":
        return [0.0] * n
    if kind == "dominant":
        w = [r.uniform(0.0, 0.2) for _ in range(n)]
        w[r.randint(0, n - 1)] = r.choice([1000.5, 37.75, 1e6 + 0.5])
        return w
    return [r.choice([0.0, 1.0, 0.5, r.uniform(0, 10)]) for _ in range(n)]


def big_grid_cases(r, ctx):
    """grids with more than 2**16 cells and few records: every released cell must have gone through a mechanism"""
    combos = [("histogram2d", [300, 250]), ("histogramdd", [41, 41, 41]), ("histogram", [70000])]
    if ctx.tier == "thorough":
        combos += [("histogramdd", [70000]), ("histogramdd", [260, 260]), ("histogram2d", [257, 256])]
    out = []
    for tool, bins in combos:
        d = len(bins)
        rng_ = [list(r.choice(c08.SCALAR_BOUNDS)) for _ in range(d)]
        lo, hi = [a for a, _ in rng_], [b for _, b in rng_]
        n = r.randint(1, 30)
        case = {"entry": tool, "seed": r.randint(0, 2 ** 31 - 2), "sched": r.randint(0, 10 ** 9), "shape": [n, d],
                "params": {"epsilon": c08.gen_eps(r), "bins": bins, "range": rng_, "density": r.chance(0.5), "edges": False},
                "D": [c08.gen_rows(r, n, lo, hi, "in"), c08.gen_rows(r, n, lo, hi, "mixed")]}
        out.append(case)
    return out


def gen_tool_case(r, ctx, tool):
    case = _gen_tool_case(r, ctx, tool)
    if tool in ("histogram", "histogram2d", "histogramdd") and r.chance(0.4):
        case["W"] = [gen_weights(r, len(D)) for D in case["D"]]
    if not case["params"].get("dtype_int") and r.chance(0.12):
        kind = case["nonfinite"] = r.choice(["nan", "inf"])
        for D in case["D"]:
            rows = D if isinstance(D[0], list) else [D]
            inject_nonfinite(r, rows, kind)
    return case


def _gen_tool_case(r, ctx, tool):
    case = {"entry": tool, "seed": r.randint(0, 2 ** 31 - 2), "sched": r.randint(0, 10 ** 9)}
    if r.chance(0.25):
        case["sched_kind"] = r.choice(["lower", "lower", "upper"])
    p = {"epsilon": c08.gen_eps(r)}
    big = ctx.tier == "thorough" and r.chance(0.2)
    if tool in ("histogram", "histogram2d", "histogramdd"):
        n = r.randint(61, 400) if big else r.randint(1, 60)
        d = 1 if tool == "histogram" else (2 if tool == "histogram2d" else r.randint(1, 3))
        rng_ = []
        for _ in range(d):
            a, b = r.choice(c08.SCALAR_BOUNDS)
            rng_.append([a, b])
        if r.chance(0.3):
            bins = [sorted({round(r.uniform(a, b), 3) for _ in range(r.randint(1, 4))} | {a, b}) for a, b in rng_]
            if r.chance(0.5):
                bins = [list(b_) for b_ in bins]
            p["edges"] = True
        else:
            bins = [r.randint(1, 6) for _ in range(d)]
            if r.chance(0.5):
                bins = [bins[0]] * d
            p["edges"] = False
        p["bins"], p["range"], p["density"] = bins, rng_, r.chance(0.5)
        lo, hi = [a for a, _ in rng_], [b for _, b in rng_]
        case["shape"] = [n, d]
        Ds = []
        for _ in range(2):
            kind = r.choice([k_ for k_ in DATA_KINDS if k_ != "allnan"])
            cols = [tool_values(r, lo[j], hi[j], n, kind) for j in range(d)]
            Ds.append([[cols[j][i] for j in range(d)] for i in range(n)])
        case["D"] = Ds
    else:
        nd = r.choice([1, 2, 2, 3])
        shape = [r.randint(61, 200) if big else r.randint(1, 40)] + [r.randint(1, 5) for _ in range(nd - 1)]
        ax = r.choice([None, None, 0, -1, "all", "tuple"]) if nd > 1 else r.choice([None, None, 0])
        if ax == "all":
            ax = tuple(range(nd))
        elif ax == "tuple":
            ax = tuple(sorted(r.sample(range(nd), 2))) if nd >= 2 else 0
        p["axis"] = ax
        p["keepdims"] = r.chance(0.3)
        lo, hi = r.choice(c08.SCALAR_BOUNDS)
        p["bounds"] = [lo, hi]
        p["dtype_int"] = tool in ("sum", "nansum") and r.chance(0.25)
        # per-cell bounds when the output is one-dimensional
        out_shape = np.zeros(shape).sum(axis=ax, keepdims=p["keepdims"]).shape if (ax is not None or p["keepdims"]) else ()
        if len(out_shape) == 1 and tool != "count_nonzero" and r.chance(0.5):
            los, his, _ = c08.gen_bounds(r, out_shape[0], allow_scalar=False)
            p["bounds"] = [los, his]
        case["shape"] = shape
        size = int(np.prod(shape))
        Ds = []
        for _ in range(2):
            mode = r.choice([k_ for k_ in DATA_KINDS if k_ != "allnan" or (tool.startswith("nan") and not p["dtype_int"])])
            vals = tool_values(r, lo, hi, size, mode)
            if tool == "count_nonzero" and mode != "allequal":
                vals = [0.0 if r.chance(0.5) else v for v in vals]
            if p["dtype_int"]:
                vals = [float(round(v)) for v in vals]
            if tool.startswith("nan") and mode not in ("allnan", "allequal"):
                vals = [float("nan") if r.chance(0.2) else v for v in vals]
            Ds.append(vals)
        case["D"] = Ds
    case["params"] = p
    return case


REFUSALS = (ValueError, TypeError, FloatingPointError, np.linalg.LinAlgError, ZeroDivisionError, OverflowError)


def run_tool(case, which, force):
    p, tool = case["params"], case["entry"]
    T = dp.tools
    acc = dp.BudgetAccountant()
    vals = case["D"][which]
    rel = None
    with warnings.catch_warnings():
        warnings.simplefilter("ignore")
        with seams.interpose(force=force) as calls:
          try:
            if tool in ("histogram", "histogram2d", "histogramdd"):
                X = np.array(vals, dtype=float)
                bins = [np.array(b) if isinstance(b, list) else b for b in p["bins"]]
                rng_ = [tuple(ab) for ab in p["range"]]
                wkw = {"weights": np.array(case["W"][which], dtype=float)} if case.get("W") else {}
                if tool == "histogram":
                    out = T.histogram(X[:, 0], epsilon=p["epsilon"], bins=bins[0], range=rng_[0], density=p["density"],
                                      random_state=case["seed"], accountant=acc, **wkw)
                elif tool == "histogram2d":
                    out = T.histogram2d(X[:, 0], X[:, 1], epsilon=p["epsilon"], bins=bins, range=rng_,
                                        density=p["density"], random_state=case["seed"], accountant=acc, **wkw)
                else:
                    out = T.histogramdd(X, epsilon=p["epsilon"], bins=bins, range=rng_, density=p["density"],
                                        random_state=case["seed"], accountant=acc, **wkw)
                    out = (out[0],) + tuple(out[1])
                rel = {f"out[{i}]": o for i, o in enumerate(out)}
            else:
                A = np.array(vals, dtype=float).reshape(case["shape"])
                b = p["bounds"]
                bounds = (np.array(b[0]), np.array(b[1])) if isinstance(b[0], list) else (b[0], b[1])
                kw = dict(epsilon=p["epsilon"], axis=p["axis"], keepdims=p["keepdims"], random_state=case["seed"],
                          accountant=acc)
                if tool == "count_nonzero":
                    out = T.count_nonzero(A, **kw)
                else:
                    if p["dtype_int"]:
                        kw["dtype"] = int
                        A = A if tool.startswith("nan") else A.astype(int)
                    out = getattr(T, tool)(A, bounds=bounds, **kw)
                rel = {"value": out}
          except REFUSALS as e:
            return None, calls, None, e
    return rel, calls, None, None


# ----------------------------------------------------------------------------------------------------------------------
# estimators
# ----------------------------------------------------------------------------------------------------------------------

def gen_model_case(r, ctx, model):
    case = c08.gen_case(r, ctx, model)
    p = case["params"]
    X1, y1 = case["X"], case.get("y")
    n, d = len(X1), len(X1[0])
    lo, hi = p["lo"], p["hi"]
    kind = "fresh"
    if model == "kmeans":
        # both datasets spread over the domain: most clusters stay occupied under arbitrary forced centres
        n = max(n, 20)
        X1 = case["X"] = c08.gen_rows(r, n, lo, hi, r.choice(["in", "mixed"]))
        if r.chance(0.5):
            # well separated tight groups vs spread records, under slowly drifting forced centres
            kind = "tight"
            groups = [[r.uniform(lo[j], hi[j]) for j in range(d)] for _ in range(p["k"])]
            X1 = case["X"] = [[g + (hi[j] - lo[j]) * r.uniform(-1e-4, 1e-4) for j, g in enumerate(groups[i % p["k"]])]
                              for i in range(n)]
            case["period"] = p["k"] * (1 + d)
    if model in ("gnb", "scaler") and r.chance(0.3 if model == "gnb" else 0.45):
        case["partial"] = True       # several fit / partial_fit calls on one estimator instead of one fit
        if model == "scaler":
            case["seq"] = r.choice([["partial_fit", "partial_fit"], ["fit", "partial_fit"],
                                    ["fit", "partial_fit", "partial_fit"], ["partial_fit", "partial_fit", "partial_fit"],
                                    ["partial_fit", "fit", "partial_fit"]])
            if n < 2 * len(case["seq"]):
                n = 2 * len(case["seq"])
                X1 = case["X"] = c08.gen_rows(r, n, lo, hi, "mixed")
        if model == "gnb":
            n = max(n, 4 * p["k"])
            h = n // 2
            X1 = case["X"] = c08.gen_rows(r, n, lo, hi, case["mode"] if case["mode"] != "onecorner" else "corner")
            y1 = case["y"] = c08.gen_labels(r, h, p["k"]) + c08.gen_labels(r, n - h, p["k"])
    if model in ("forest", "tree"):
        kind = r.choice(["sameX", "perturb", "fresh"])
        if kind == "fresh":
            p["max_depth"] = r.randint(1, 2)
    if kind == "sameX":
        X2 = [list(row) for row in X1]
    elif kind == "perturb":
        X2 = [[v + (hi[j] - lo[j]) * r.uniform(-1e-3, 1e-3) for j, v in enumerate(row)] for row in X1]
    elif model == "kmeans" or kind == "tight":
        X2 = c08.gen_rows(r, n, lo, hi, r.choice(["in", "mixed"]))
    else:
        X2 = c08.gen_rows(r, n, lo, hi, r.choice(["in", "mixed", "corner", "onecorner"]))
    y2 = None
    if y1 is not None:
        if model == "linreg":
            y2 = c08.gen_rows(r, n, p["ylo"], p["yhi"], r.choice(["in", "mixed", "corner"]))
        elif case.get("partial"):
            y2 = c08.gen_labels(r, n // 2, p["k"]) + c08.gen_labels(r, n - n // 2, p["k"])
        else:
            y2 = c08.gen_labels(r, n, p["k"])
    if r.chance(0.3 if model == "scaler" else 0.1):
        # missing / infinite entries in BOTH datasets (independent positions): at HEAD every estimator refuses them
        # before any mechanism runs; an estimator that accepts them must not let their number reach a release
        kind = case["nonfinite"] = r.choice(["nan", "nan", "inf"])
        X1 = case["X"] = [list(row) for row in case["X"]]
        inject_nonfinite(r, X1, kind)
        inject_nonfinite(r, X2, kind)
    if model in ("gnb", "kmeans", "scaler", "linreg", "forest", "tree") and r.chance(0.2):
        # `sample_weight` is accepted (and documented as ignored) by these estimators: different weights on the two
        # datasets must not reach a release
        case["SW"] = [gen_weights(r, len(case["X"])), gen_weights(r, len(X2))]
    case["entry"] = model
    case["sched"] = r.randint(0, 10 ** 9)
    case["D2kind"] = kind
    case["X2"], case["y2"] = X2, y2
    return case


def pca_dispatch_cases(r, ctx):
    """shapes / n_components that exercise sklearn's solver negotiation (svd_solver 'auto' would resolve to
    'randomized' or 'arpack' and bypass the private `_fit_full` for some of them), dense and sparse"""
    combos = [(600, 100, 5, False), (120, 520, 1, False), (600, 100, None, False), (510, 60, "mle", False),
              (30, 6, 2, True), (600, 100, 5, True)]
    if ctx.tier == "thorough" or ctx.searching:
        combos += [(120, 520, 5, False), (600, 100, 0.5, False), (501, 51, 40, False), (60, 700, 3, False),
                   (1001, 20, 3, False), (520, 520, 1, False), (130, 510, 2, True)]
    out = []
    for n, d, nc, sparse in combos:
        lo, hi = [-1.0] * d, [1.0] * d
        centered = r.chance(0.5)
        case = {"model": "pca", "entry": "pca", "seed": r.randint(0, 2 ** 31 - 2), "mode": "dispatch",
                "sched": r.randint(0, 10 ** 9), "D2kind": "fresh",
                "params": {"epsilon": c08.gen_eps(r), "lo": lo, "hi": hi, "scalar_bounds": True, "centered": centered,
                           "n_components": nc, "data_norm": 0.3 * math.sqrt(d)},
                "X": c08.gen_rows(r, n, lo, hi, "mixed"), "X2": c08.gen_rows(r, n, lo, hi, "in"), "y2": None}
        if sparse:
            case["sparse"] = True
            for X in (case["X"], case["X2"]):
                for row in X:
                    for j in range(d):
                        if r.chance(0.7):
                            row[j] = 0.0
        out.append(case)
    return out


def kmeans_iters(case):
    """`_calc_iters` (None when eps/eps_m sits within rounding of an integer)"""
    p = case["params"]
    n, d = len(case["X"]), len(case["X"][0])
    em = np.sqrt(500 * (p["k"] ** 3) / (n ** 2) * (d + np.cbrt(4 * d * (0.225 ** 2))) ** 3)
    v = p["epsilon"] / em
    if 2 - 1e-9 < v < 7 + 1e-9 and abs(v - round(v)) < 1e-9 * max(1.0, v):
        return None
    return int(max(min(v, 7), 2))


def expected_calls(case, which, occ):
    """the number of mechanism invocations the entry point must make, from caller parameters, shape and (for the three
    estimators with data-dependent structure) the occupancy pattern; None = no expectation"""
    p, entry = case["params"], case["entry"]
    if entry in ("histogram", "histogram2d", "histogramdd"):
        out = 1
        for b in p["bins"]:
            out *= (len(b) - 1) if isinstance(b, list) else int(b)
        return out
    if entry in TOOLS:
        if p["axis"] is None and not p["keepdims"]:
            return 1
        return int(np.zeros(case["shape"]).sum(axis=p["axis"], keepdims=p["keepdims"]).size)
    X = case["X"] if which == 0 else case["X2"]
    y = case.get("y") if which == 0 else case.get("y2")
    n, d = len(X), len(X[0])
    if entry == "scaler":
        per = 0 if not (p["with_mean"] or p["with_std"]) else d * (2 if p["with_std"] else 1)
        return per * (len(case.get("seq") or [0, 0]) if case.get("partial") else 1)
    if entry == "linreg":
        t = p["t"]
        return (d + (1 if p["y1d"] else t) if p["fit_intercept"] else 0) + t + t * d + d * (d + 1) // 2
    if entry == "pca":
        nc = p["n_components"]
        k = min(nc, d) if isinstance(nc, int) else (min(n, d) if nc is None else d)
        return (0 if p["centered"] else d) + d + min(k, d - 1)
    if entry == "gnb":
        if case.get("partial"):
            return sum(len(o) for o in occ) * (1 + 2 * d)
        return len(set(y)) * (1 + 2 * d)
    if entry == "kmeans":
        it = kmeans_iters(case)
        if it is None or len(occ) != it + 1:
            return None if it is None else -1          # -1: the number of iterations itself is off
        return sum(len(o) for o in occ[:-1]) * (1 + d)
    if entry == "tree":
        return 2 ** p["max_depth"]
    if entry == "forest":
        return p["n_estimators"] * 2 ** p["max_depth"]
    return None


PROBE_POINTS = 7


def model_release(case, model):
    m = case["model"]
    if m == "gnb":
        return {"theta_": model.theta_, "var_": model.var_, "class_count_": model.class_count_,
                "class_prior_": model.class_prior_, "classes_": model.classes_}
    if m == "kmeans":
        return {"cluster_centers_": model.cluster_centers_, "n_iter_": np.array(model.n_iter_)}
    if m == "scaler":
        out = {"n_samples_seen_": np.array(model.n_samples_seen_)}
        for a in ("mean_", "var_", "scale_"):
            v = getattr(model, a, None)
            if v is not None:
                out[a] = v
        return out
    if m == "linreg":
        return {"coef_": model.coef_, "intercept_": np.array(model.intercept_)}
    if m == "pca":
        return {a: np.array(getattr(model, a)) for a in ("components_", "explained_variance_", "explained_variance_ratio_",
                                                         "singular_values_", "mean_", "noise_variance_", "n_components_")}
    if m in ("forest", "tree"):
        p = case["params"]
        d = len(case["X"][0])
        rr = gen.SplitMix64(case["seed"] + 5)
        pts = np.array([[rr.uniform(p["lo"][j], p["hi"][j]) for j in range(d)] for _ in range(PROBE_POINTS)])
        trees = [model] if m == "tree" else list(model.estimators_)
        out = {f"tree{i}.value": t.tree_.value for i, t in enumerate(trees)}
        with warnings.catch_warnings():
            warnings.simplefilter("ignore")
            out["predict_proba"] = model.predict_proba(pts)
            out["predict"] = np.asarray(model.predict(pts))
        return out
    raise ValueError(m)


def batches_of(case, n):
    """row ranges of the successive fit / partial_fit calls of a multi-call sequence"""
    k = len(case["seq"]) if case.get("seq") else 2
    cuts = [n * i // k for i in range(k + 1)]
    return [(cuts[i], cuts[i + 1]) for i in range(k)]


def run_model(case, which, force):
    X, y = (case["X"], case.get("y")) if which == 0 else (case["X2"], case.get("y2"))
    err = None
    try:
        model = c08.build(case)        # a re-used estimator (case["prefit"]) is fitted once here, with real noise
    except REFUSALS as e:
        return None, [], None, e
    with warnings.catch_warnings():
        warnings.simplefilter("ignore")
        with c08.probing() as pr, seams.interpose(force=force) as calls:
            try:
                args = c08.fit_args(case, X, y)
                if case.get("sparse"):
                    import scipy.sparse as sp
                    args = (sp.csr_matrix(args[0]),) + tuple(args[1:])
                sw = np.array(case["SW"][which], dtype=float) if case.get("SW") else None

                def swkw(a=None, b=None):
                    return {} if sw is None else {"sample_weight": sw[a:b]}
                if case.get("partial"):
                    bt = batches_of(case, len(X))
                    if case["model"] == "gnb":
                        (a0, b0), (a1, b1) = bt
                        model.partial_fit(args[0][a0:b0], args[1][a0:b0], classes=list(range(case["params"]["k"])),
                                          **swkw(a0, b0))
                        model.partial_fit(args[0][a1:b1], args[1][a1:b1], **swkw(a1, b1))
                    else:
                        for op, (a, b) in zip(case.get("seq") or ["partial_fit", "partial_fit"], bt):
                            getattr(model, op)(args[0][a:b], **swkw(a, b))
                else:
                    model.fit(*args, **swkw())
            except REFUSALS as e:
                err = e
    if err is not None:
        return None, calls, None, err
    ylab = None if y is None else [tuple(v) if isinstance(v, list) else v for v in y]
    occ = c08.occupancy(case, pr, ylab)
    if case.get("partial") and case["model"] == "gnb":
        occ = [sorted(set(ylab[:len(X) // 2])), sorted(set(ylab[len(X) // 2:]))]
    return model_release(case, model), calls, occ, None


# ----------------------------------------------------------------------------------------------------------------------

def _attr_sig(name):
    import re
    return re.sub(r"^tree\d+", "tree", name.split("[")[0])


def inputs_of(calls):
    out = []
    for c in calls:
        v = c.params.get("utility") if c.cls in ("PermuteAndFlip", "Exponential") else c.value
        out.append(np.asarray(v, dtype=float).tobytes() if v is not None and not callable(v) else b"")
    return out


def check_pair(ctx, case):
    """returns 'ok' | 'skipped' | 'violation'"""
    entry = case["entry"]
    force = make_schedule(case["sched"], case.get("period"), case.get("sched_kind"))
    is_model = entry in MODELS
    run = run_model if is_model else run_tool
    rel1, calls1, occ1, err1 = run(case, 0, force)
    rel2, calls2, occ2, err2 = run(case, 1, force)
    if err1 is not None or err2 is not None:
        # refusals (validation of the input): the OUTCOME is compared — at HEAD e.g. NaN / inf entries are refused by every
        # estimator before any mechanism runs, for both datasets alike
        ctx.count("refused_" + entry)
        ctx.count("refused")
        e = err1 if err1 is not None else err2
        if ctx.counters["refused"] <= 5:
            ctx.note(f"{entry}: {type(e).__name__}: {str(e)[:120]}")
        if err1 is not None and err2 is not None and type(err1) is type(err2):
            ctx.count("refused_both_alike")
            ctx.case(None)
            return "ok"
        ctx.count("refused_one_only")
        return "skipped"
    data = {"entry": entry, "case": case}
    # a fit / query that reaches its release without the expected noise invocations computed it from the records
    for which, calls, occ in ((0, calls1, occ1), (1, calls2, occ2)):
        exp = expected_calls(case, which, occ)
        if len(calls) == 0 and exp != 0:
            ctx.violation(f"C06:{entry}:data-leak:no-mechanism-invoked",
                          f"{entry}: dataset {which + 1} of shape {case.get('shape') or [len(case['X']), len(case['X'][0])]}"
                          f" was released without a single mechanism invocation (expected {exp}); parameters "
                          f"{ {k: v for k, v in case['params'].items() if k not in ('lo', 'hi')} }", dict(data, dataset=which + 1))
            return "violation"
        if exp is not None and len(calls) != exp:
            ctx.violation(f"C06:{entry}:data-leak:unexpected-schedule",
                          f"{entry}: dataset {which + 1} made {len(calls)} mechanism invocations where parameters, shape "
                          f"and occupancy pattern call for {exp if exp >= 0 else 'a different number of iterations'}",
                          dict(data, dataset=which + 1, got=len(calls), expected=exp))
            return "violation"
    if is_model and entry in ("kmeans", "forest", "tree"):
        # a data-dependent NUMBER of iterations / trees is not an occupancy difference: compare the common prefix
        k_ = min(len(occ1), len(occ2))
        occ1, occ2 = occ1[:k_], occ2[:k_]
    if is_model and entry in ("gnb", "kmeans", "forest", "tree") and occ1 != occ2:
        ctx.count("skipped_occupancy_" + entry)
        return "skipped"
    cfg1 = [(c.cls,) + c08.Rec(c).config()[1:] for c in calls1]
    cfg2 = [(c.cls,) + c08.Rec(c).config()[1:] for c in calls2]
    status = "ok"
    if len(cfg1) != len(cfg2) or [c[0] for c in cfg1] != [c[0] for c in cfg2]:
        ctx.violation(f"C06:{entry}:data-leak:schedule",
                      f"{entry}: the sequence of mechanism invocations depends on the data under identical forced "
                      f"outputs ({len(cfg1)} vs {len(cfg2)} calls)", data)
        return "violation"
    for i, (a, b) in enumerate(zip(cfg1, cfg2)):
        if not all((x == y_) or (isinstance(x, float) and isinstance(y_, float) and x != x and y_ != y_)
                   for x, y_ in zip(a, b)):
            ctx.violation(f"C06:{entry}:data-leak:mechanism-parameters",
                          f"{entry}: invocation {i} ({a[0]}) is configured from the data: {a} vs {b} under identical "
                          f"forced outputs", dict(data, invocation=i))
            status = "violation"
            break
    for name in rel1:
        if name not in rel2 or bits(rel1[name]) != bits(rel2[name]):
            ctx.violation(f"C06:{entry}:data-leak:{_attr_sig(name)}",
                          f"{entry}: released `{name}` differs between two same-shape datasets under identical forced "
                          f"mechanism outputs: {first_diff(rel1[name], rel2.get(name, np.zeros(0)))}",
                          dict(data, attribute=name, release_D1=np.asarray(rel1[name]).tolist(),
                               release_D2=np.asarray(rel2.get(name, np.zeros(0))).tolist()))
            status = "violation"
            break
    nontrivial = inputs_of(calls1) != inputs_of(calls2)
    shape = case.get("shape") or [len(case["X"]), len(case["X"][0])]
    ctx.case((entry, tuple(shape), case["sched"]) if nontrivial and status == "ok" else None)
    ctx.count("pairs_" + entry)
    if status == "ok":
        ctx.trace_ok()      # the two real parameter traces and releases were compared invocation by invocation
    return status


def generate(ctx):
    """static translator tie: the information-flow skeleton of every tool / estimator method of C06 that the translator
    can follow is re-extracted from /repo's CURRENT AST and `flowsOk fn = true` is decided in Lean
    (DPL.C06.static_taint_sound says what that means). An entry point the translator cannot follow is reported as
    unavailable (not as a failed obligation)."""
    import os
    from ..translate import taint
    repo = os.environ.get("VERIF_REPO", "/repo")
    try:
        info = taint.generate(repo, leanio.LEAN)
    except (taint.TranslatorError, SyntaxError, OSError) as e:
        ctx.note(f"taint translator unavailable: {type(e).__name__}: {e}")
        return {"build": [], "obligations": 0, "unavailable": [f"taint: {type(e).__name__}: {e}"[:300]]}
    ctx.count("taint_skeletons", info["obligations"])
    ctx.count("taint_declass_sites", info["declass_sites"])
    ctx.count("taint_probes", info["probes"])
    ctx.sample({"taint_skeleton_entries": info["entries"], "taint_not_covered": info["not_followed"]})
    out = {"build": ["DPL.Generated.C06Flows"], "obligations": info["obligations"]}
    if info["unavailable"]:
        out["unavailable"] = ["taint: " + u[:200] for u in info["unavailable"]]
    return out


def check(ctx):
    r = ctx.fork("pairs")
    n_tool = ctx.budget(100, 1500)
    n_model = ctx.budget(70, 700)
    for tool in TOOLS:
        for j in range(n_tool):
            case = gen_tool_case(r, ctx, tool)
            check_pair(ctx, case)
            if j == 0:
                ctx.sample({"entry": tool, "params": case["params"], "shape": case["shape"]})
    for case in big_grid_cases(ctx.fork("big-grids"), ctx):
        check_pair(ctx, case)
        ctx.count("big_grid_pairs")
    for case in pca_dispatch_cases(ctx.fork("pca-dispatch"), ctx):
        check_pair(ctx, case)
        ctx.count("pca_dispatch_pairs")
    for model in MODELS:
        for j in range(n_model):
            case = gen_model_case(r, ctx, model)
            check_pair(ctx, case)
            if j == 0:
                ctx.sample({"entry": model, "params": case["params"], "n": len(case["X"]), "D2": case["D2kind"]})


def replay(ctx, data):
    from ..core import unjson_float as u

    def fix(x):
        if isinstance(x, list):
            return [fix(v) for v in x]
        if isinstance(x, dict):
            return {k: fix(v) for k, v in x.items()}
        return u(x)
    case = fix(data["data"]["case"])
    if isinstance(case.get("params", {}).get("axis"), list):
        case["params"]["axis"] = tuple(case["params"]["axis"])
    return check_pair(ctx, case) == "violation"


WITNESSES = {}
